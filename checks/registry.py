"""Per-property registration data for MANIFEST.json."""

HOOK_COMMITS = ["9a1a70b"]

TB = "Trusted base: TLC 1.8.0 + CommunityModules (Json), the Go toolchain and standard library, the harness projections."

CHECKS = {
    "C01": dict(
        text="PdfLayout.tla: a logical document and a 15-option physical layout chosen option by option (xref kind, object streams, "
             "filter chain, /Length placement, size class, content splitting, tree depth/shape, where MediaBox and Resources live with "
             "decoys above, revisions, numbering, file order, EOL); Expected(L) is the contract (page count = leaves, per-page items, "
             "nearest-ancestor box). TLC random-walks/enumerates layouts, the independent writer renders each, tabula.Open / "
             "reader.Open read it back, and PdfLayoutTrace.tla judges every recorded observation against Expected(L). ReaderIO.tla "
             "(shared file position vs per-parser section) and PageTreeInherit.tla (one-parent vs environment passing) are "
             "implementation-shaped models checked exhaustively, pinned variants refuted. Failures are minimised in the layout space.",
        design_ref="4.1",
        note=TB + " pdfw/pdfdoc independent writer with structural self-audit; zlib trusted; encryption, hybrid files, linearisation out of scope.",
        technique="TLA+ layout-choice machine + TLC, rendered-file replay with greedy abstract minimisation, trace validation of observations",
    ),
    "C03": dict(
        text="ParseIsolation.tla models contentstream.Parser at the granularity Push/Copy/Clear with per-parser or shared pending "
             "operands; TLC proves Isolation for the per-parser layer over all interleavings of 2 processes x 2 calls x streams <= 3 "
             "tokens and refutes it for the shared layer. Every behaviour of a small instance and simulated behaviours of a larger one "
             "are replayed on real parsers on real goroutines, gated one spec action at a time by the verif hook; histories of whole "
             "extractions (alone, after others, after failing inputs, concurrent under the race detector) are validated by "
             "DeterminismTrace.tla, which accepts only function-like histories and never a Race event.",
        design_ref="4.3",
        note=TB + " Goroutine schedules outside the gated parser are sampled; the race detector is trusted as an observer.",
        technique="TLA+ interleaving model + TLC, deterministic schedule replay through a build-tag hook, trace validation of extraction histories",
    ),
    "C04": dict(
        text="XrefHistory.tla: revisions (xref kind, per-object keep/free/plain/in-object-stream/stream/stream-with-indirect-length) "
             "appended to a history, Open (discover + merge as the reader does), Lookup through merged table and cache, ClearCache; "
             "TLC proves LookupCorrect/CacheSound/OrderIndependent for the newest-wins merge over all histories within the bounds and "
             "refutes the oldest-wins variant. Every history x 4 physical option sets is rendered by the independent writer as an "
             "incremental PDF and probed through reader.Open/GetObject with all lookup sequences up to a bound; recorded "
             "Open/Lookup/Clear sequences are validated by XrefHistoryTrace.tla, whose Lookup action must yield the logged result.",
        design_ref="4.4",
        note=TB + " pdfw (harness/internal/pdfw) is an independent writer with a structural self-audit; zlib trusted; generation numbers other than 0/65535 and hybrid files not generated.",
        technique="TLA+ history model + TLC exhaustive enumeration, rendered-file replay, trace validation of lookup sequences",
    ),
    "C05": dict(
        text="Filters.tla defines the PNG predictors, TIFF predictor 2, ASCIIHex and ASCII85 (base-85 arithmetic by long division on "
             "bytes) as pure encoder/decoder pairs; TLC checks Dec(Enc(x)) = x for the reference over the bounded space while it "
             "enumerates (payload, geometry, per-row filter types, pipeline, spelling policy) cases with spec-computed encoded bytes, "
             "including the undecodable ones. Each case goes through core.Stream.Decode (single filters, chains, DecodeParms shapes, "
             "abbreviations). Large recorded images are validated row by row by FiltersTrace.tla against PngDecRow/TiffDecRow.",
        design_ref="4.5",
        note=TB + " zlib trusted; BitsPerComponent != 8, LZW/RunLength/CCITT/DCT out of scope.",
        technique="TLA+ reference codecs with TLC-checked round trip, case replay through Stream.Decode, row-wise trace validation",
    ),
    "C06": dict(
        text="PdfSyntax.tla is the PDF object syntax as a writer: a pushdown generator of well-nested token sequences and "
             "Spell(tokens, policy) giving the bytes for every legal spelling policy (white-space kinds incl. comments, EOL kinds, "
             "five string styles, two name styles). TLC enumerates all sequences within the bounds and emits (tokens, policy, bytes); "
             "the bytes are parsed by core.Parser and contentstream.Parser and the flattened result must equal the tokens (and so "
             "each other). Random depth-4 trees spelled by an independent Go speller are validated against Spell by "
             "PdfSyntaxTrace.tla (bytes and parse verdict bound).",
        design_ref="4.6",
        note=TB + " The spelling policies are the legal-spelling catalogue of the property; byte-level fuzzing is out of scope.",
        technique="TLA+ writer specification enumerated by TLC, round-trip replay through both parsers, trace validation of an independent speller",
    ),
    "C07": dict(
        text="FontDecode.tla: ToUnicode CMaps as [width, entries] (bfchar, bfrange with string target incrementing its last UTF-16 "
             "unit, bfrange with array), Render(cmap, fmt) = the program text under five formatting policies, Decode with the priority "
             "ToUnicode > BOM > named encoding > raw, UTF-16 with surrogate arithmetic, NFC via a composition table; EncTables.tla = "
             "reference tables of the six named encodings (asserted only where unambiguous). TLC enumerates all 6x256 table cases, all "
             "small CMaps x formats, UTF-16 boundary strings and precedence cases; each goes through font.GetEncoding, "
             "ParseToUnicodeCMap, Font.DecodeString, DecodeUTF16BE/LE; random byte strings through every decoder are validated by "
             "FontDecodeTrace.tla (reference decoding, valid UTF-8, NFC).",
        design_ref="4.7",
        note=TB + " x/text norm is the NFC oracle; WinAnsi/MacRoman tables cross-checked against two on-disk sources, PDFDoc/Standard transcribed from Annex D, Symbol/ZapfDingbats only a handful of entries.",
        technique="TLA+ decoding reference + rendered CMap programs enumerated by TLC, replay through the font decoders, trace validation",
    ),
    "C09": dict(
        text="LayoutConserve.tla states conservation as a contract: heuristics may group as they like, the guards StageOK (groups pairwise "
             "disjoint, only fragments of the page, covering everything except exact duplicates and white-space-only fragments) and "
             "RenderOK (every text occurs as often as fragments carry it, duplicates optional) are the property; TLC checks the "
             "composition lemma and enumerates 432 abstract pages (columns x rows x fill x 16 features). Each page is laid out on "
             "exact coordinates and pushed through the line/column/paragraph/block/reading-order detectors, the analyzer and eight "
             "public API modes on a rendered PDF; the guards are evaluated on the real groups/texts and the recorded Stage/Render "
             "events are validated by LayoutConserveTrace.tla.",
        design_ref="4.9",
        note=TB + " Geometry near the heuristics' thresholds is not probed; fragment identity in stage results is (text, x, y).",
        technique="TLA+ partition/bag contract with the property as action guard, TLC page enumeration, guard evaluation on real results, trace validation",
    ),
    "C10": dict(
        text="PageSelect.tla gives builder-call sequences (Pages / PageRange incl. duplicates, reversed and out-of-range arguments) their "
             "set meaning and TLC checks commutation, idempotence and ascending order while enumerating them; Lifecycle.tla models "
             "extractors, derivation, non-terminal/terminal operations, Close and the handles behind them, proves DeriveIsPure / "
             "OneOwner / release at quiescence for own-reader derivation and refutes the pointer-sharing clone of the pinned code. "
             "Selections are replayed through Text(), Document() page numbers and Chunks() page metadata; every 4-operation history "
             "is replayed on real extractors with /proc/self/fd counted after each step and validated by LifecycleTrace.tla.",
        design_ref="4.10",
        note=TB + " Empty selections are left unspecified (only consistency is asserted); descriptor counts are upper-bounded by the specification and exact at quiescence.",
        technique="TLA+ selection algebra and handle-lifecycle model + TLC, API history replay with descriptor counting, trace validation",
    ),
    "C11": dict(
        text="HeaderFooter.tla states exclusion as a contract whose guard is the property: FilterOK(p, removed) holds iff every removed "
             "fragment lies in a margin band and repeats at that band+position on another page or is a page-number pattern, and every "
             "line running at the same margin position on every page (and running page numbers) of the requested band is removed. TLC "
             "checks the contract's own sanity lemmas and enumerates all 2304 generated documents x 3 options with their allowed / "
             "mandatory sets; the real removals (layout.HeaderFooterDetector directly, and tabula.Open(..).Pages(p).Exclude*().Text() on "
             "rendered PDFs, per page so that detection-on-all-pages is exercised) are judged by that guard and the recorded Filter "
             "events are validated by HeaderFooterTrace.tla.",
        design_ref="4.11",
        note=TB + " Fragments are generated well inside one band (the 72 pt threshold itself is not probed); DOCX/ODT/PPTX header parts are covered under C16.",
        technique="TLA+ contract with the property as action guard, TLC enumeration of documents, guard evaluation on real removals, trace validation",
    ),
    "C08": dict(
        text="GState.tla is the ISO 32000 graphics/text-state machine (one action per operator). TLC checks its invariants "
             "exhaustively (all programs to a bounded length over a 21-operator alphabet, and refutes the post-multiplying "
             "variant), emits every reachable state as a case with the spec-computed state and fragments; each case is replayed "
             "on graphicsstate.GraphicsState and through text.Extractor.ExtractFromBytes (incl. Form XObjects); long random "
             "programs recorded from the real GraphicsState are validated by GStateTrace.tla with every matrix entry bound.",
        design_ref="4.8",
        note=TB + " Integer matrices only; glyph advance/TJ/rise not modelled; font size asserted exactly only when Tm and CTM are similarities, by Frobenius bounds otherwise.",
        technique="TLA+ spec + TLC exhaustive enumeration, spec-to-code replay, code-to-spec trace validation",
    ),
}

_pending = "check not built yet in this session (work in progress, see DESIGN.md section 8)"
CHECKS["C02"] = dict(
    text="ParserLoop.tla (the two-token-lookahead machine of core.Parser with a lexer that reports a lone '>' without consuming it) "
         "and GraphWalk.tla (depth-first walks over file-controlled reference graphs) are implementation-shaped models checked for "
         "Termination under weak fairness and bounded work; their pinned variants (dropped tokenizer errors, unguarded walks) are "
         "refuted. Faults.tla is the structural fault catalogue whose Call action admits only the outcomes value and error. TLC "
         "enumerates every token stream, every 3-node graph and every single fault (thorough: every truncation site, simulated "
         "double faults) over 8 base documents; each damaged input goes through 11-13 public entry points inside watched child "
         "processes (deadline, address-space cap), outcomes panic/abort/timeout are violations, and the recorded Call events are "
         "validated by FaultsTrace.tla.",
    design_ref="4.2",
    note=TB + " Coverage-guided byte mutation is not done (different technique); a dead or stalled child is attributed to the case it announced last.",
    technique="TLA+ liveness models of the parse loops and walks + fault-catalogue contract, TLC enumeration, watched-process replay, trace validation",
)

CHECKS["C12"] = dict(
    text="Chunking.tla states chunk coverage as a queue discipline: Emit(chunk) is enabled iff the chunk's units are exactly the next "
         "k >= 1 unconsumed units of the document, its index is the number of chunks so far, its id is fresh, its page range lies "
         "within the pages of its units and its path is the enclosing heading chain; Finish requires everything consumed and every "
         "total = n. The implementation-shaped layer models the chunkPage walk with Go slice semantics; the pop-by-length "
         "section-path algorithm and the shared-slice variant of the pinned code are refuted by TLC (StackIsChain, PathsTrue). TLC "
         "enumerates documents over a 9-letter element alphabet with page breaks; each is materialised as a model.Document and "
         "chunked by rag.ChunkDocument(+WithConfig, all presets) and the layout-based rag.Chunker; Doc/Emit/Finish events incl. "
         "larger random documents are validated by ChunkingTrace.tla.",
    design_ref="4.12",
    note=TB + " Chunk texts are compared after deleting white space; the layout chunker is only given documents its input can represent (headings, paragraphs, lists).",
    technique="TLA+ queue-discipline contract + implementation-shaped walk with refuted variants, TLC enumeration, model-document replay, trace validation",
)

CHECKS["C13"] = dict(
    text="Splitter.tla: texts as sequences of characters (1-4 bytes, letter/space/newline/sentence end); contract on the pieces as byte "
         "ranges (increasing, on character boundaries, non-white characters conserved, size bound only under the statement's "
         "precondition); the implementation-shaped split loop (SplitToSize / FindSplitPointAt and the sentence/word searches) with "
         "Termination and Progress, whose raw-offset and uncapped variants TLC refutes. Overlap.tla: the prefix is a suffix of the "
         "previous chunk's own content, valid UTF-8, within the configured bounds (variants taking it from overlapped text, "
         "truncating at the head, ignoring MinOverlap are refuted). Exhaustive small texts x limits x five units, profile-generated "
         "long texts and overlap configurations go through SplitToSize, the chunkers and the overlap generator; every call is one "
         "trace event judged by SplitterTrace.tla / OverlapTrace.tla.",
    design_ref="4.13",
    note=TB + " Word/sentence/paragraph limits are converted by documented rough estimates and are not size-bounded; soft maxima not covered.",
    technique="TLA+ split-loop model with liveness + overlap contract, TLC enumeration, trace validation of every real call",
)

CHECKS["C14"] = dict(
    text="Csv.tla is the RFC 4180 reader automaton (states FS/UQ/QD/QQ/CRP/ERR) with the lemma Read(Write(rows)) = rows checked by TLC "
         "and a refuted writer that does not double quotes; Export.tla gives Records(format, config, chunks) for JSON, JSONL, CSV, TSV "
         "and the vector-database record formats, the batch/stream exporters as a loop machine with Conservation / Complete / "
         "BatchShape invariants (a closed-slice variant dropping the boundary row is refuted) and filters as pure selections. The "
         "harness's own RFC 4180 reader is validated against every TLC-enumerated character sequence before it is trusted; real "
         "exports over an adversarial token alphabet are parsed back with encoding/json and that reader and compared with the "
         "spec's records; random larger collections are validated by ExportTrace.tla.",
    design_ref="4.14",
    note=TB + " List-valued cells in CSV/TSV are only bound when no element contains a comma; invalid UTF-8 is not generated.",
    technique="TLA+ CSV automaton + export loop machine, TLC enumeration, parse-back replay, trace validation",
)

CHECKS["C15"] = dict(
    text="Markdown.tla / DocModel.tla: structured lines (heading, row, separator, list item, paragraph), a reference writer machine with "
         "one Emit action per line and ReadMd, the GFM reading as a fold; RoundTrip, HeadingLevelOK (Out(level, offset, max) = "
         "clamp), PrefixStable hold and three implementation-shaped switches (raw pipes, duplicated header row, skipped merged "
         "cells) are refuted with minimal counterexamples. TLC enumerates tables <= 3x3 over six cell kinds with one merge, the full "
         "heading arithmetic (9 x 10 x 6) and list shapes; every Markdown writer (model.Table, rag, htmldoc, layout, DOCX, ODT, XLSX, "
         "PPTX via hand-written packages) is parsed back with a GFM reader that is itself validated on the spec's reference "
         "rendering; per-element Md events of random documents are validated by MarkdownTrace.tla.",
    design_ref="4.15",
    note=TB + " Cell texts compared as word sequences; merged cells keep their anchor text, covered positions free; EPUB and the PDF layout path not covered.",
    technique="TLA+ Markdown writer/reader pair with refuted variants, TLC enumeration, parse-back replay through every writer, trace validation",
)

CHECKS["C16"] = dict(
    text="WordDoc.tla is the reader contract for word-processor bodies: one action per block kind (paragraph, heading via builtin / "
         "custom basedOn chain / outline level, list item, table with merges and multi-paragraph cells) emitting the item in source "
         "order with its structure labels; inline children (runs, spans, links, insertions, content controls x text, symbol, tab, "
         "break, space atoms); header/footer parts must not leak. DocxOrderImpl.tla models the pinned depth-blind second pass and "
         "TLC refutes it (witness table, table, paragraph) while proving the depth-aware one. Four exhaustively enumerated case "
         "families for DOCX and ODT are rendered by independent writers and read through docx.Open / odt.Open / tabula.Open "
         "(Text, Markdown, Document); recorded documents incl. larger random ones are validated by WordDocTrace.tla.",
    design_ref="4.16",
    note=TB + " Writers harness/internal/wpw audited per case; nested tables, footnotes, text boxes, tracked deletions not generated.",
    technique="TLA+ reader contract + implementation-shaped order model, TLC enumeration, rendered-package replay, trace validation",
)

CHECKS["C17"] = dict(
    text="SheetRef.tla is the A1 codec as bijective base 26; TLC proves the round trips for A..ZZ and refutes the positional variant. "
         "Sheet.tla builds workbooks cell by cell (10 cell kinds, merges, out-of-order rows/cells, 2 sheets, offsets up to ZZ200) "
         "with PlacedByRef / MergeBlank / Locality as invariants and a refuted sequential-placement variant; every reachable "
         "workbook is rendered by the independent writer and read through the codec functions, xlsx.Open, Text() (line r, field "
         "c), ToMarkdown() and Document(); larger random workbooks are validated by SheetTrace.tla.",
    design_ref="4.17",
    note=TB + " Writer harness/internal/ooxmlw audited per run with python zipfile/xml.etree; number formats, dates, cells without r not generated.",
    technique="TLA+ codec bijection + workbook state machine, TLC enumeration, rendered-package replay, trace validation",
)

CHECKS["C18"] = dict(
    text="PartsOrder.tla reads a package part by part (action ReadNext) with path resolution and percent-decoding; invariants "
         "DeclaredPrefix / DeclaredOrder / OwnPage hold for the declared-order reader and TLC refutes the file-name, archive-order and "
         "query-decoding readers. PartsOrderMC builds every package from K parts x three independent permutations x 19 layout "
         "profiles (XLSX, PPTX, EPUB 2/3, nested / renamed paths, %20 / + / %2B, decoys, optional parts); each is rendered and opened "
         "through tabula.Open (PageCount, Text, ToMarkdown, Document) and the format readers; random packages of up to 10 parts are "
         "validated by PartsOrderTrace.tla.",
    design_ref="4.18",
    note=TB + " Writer harness/internal/ooxmlw audited per run; declared-but-missing parts not generated.",
    technique="TLA+ part-reading machine with refuted ordering variants, TLC enumeration, rendered-package replay, trace validation",
)

CHECKS["C19"] = dict(
    text="HtmlWalk.tla: a pushdown machine generating well-nested HTML token streams that respect the HTML5 content models (so the tree "
         "x/net/html builds is the generated tree), with the walker contract W1 (mode None returns asserted content once, in order, "
         "entities decoded), W2 (each stricter mode is a subsequence of the weaker), W3 (tokens outside what a mode may exclude are "
         "identical to mode None), W4 (no script/style text); the may-exclude lattice Explicit <= Standard <= Aggressive; a walker "
         "shaped like the pinned list-item handling is refuted (ol > li > p > text). TLC enumerates documents over five alphabets "
         "plus simulated walks; each is rendered twice (all end tags / optional end tags omitted), audited, and extracted by "
         "htmldoc.OpenReader in 4 modes x Text/Markdown/Document, tabula.FromHTMLString and tabula.Open; random documents are "
         "validated by HtmlWalkTrace.tla.",
    design_ref="4.19",
    note=TB + " Presence/once/order asserted only inside h*, p, li, td/th, pre, blockquote; bare text in div/body only obeys monotonicity; EPUB entry not covered.",
    technique="TLA+ pushdown document generator + walker contract, TLC enumeration, rendered-document replay in four modes, trace validation",
)

CHECKS["C20"] = dict(
    text="Admission.tla holds the decision tables: content detection independent of ZIP member order and unreferenced decoy parts, "
         "admission by own extension in any letter case, refusal under another supported extension, and the EPUB DRM table (rights "
         "file; spine documents encrypted with a non-obfuscation algorithm refused; obfuscated fonts only opens; everything else "
         "unspecified). TLC enumerates every row (3780), each is materialised as a minimal valid document and offered to "
         "format.DetectFromReader and tabula.Open(..).Text(), and every observation is validated by AdmissionTrace.tla.",
    design_ref="4.20",
    note=TB + " The specification is a declarative decision table that TLC enumerates; the minimal documents of harness/cmd/driver/c20.go are the trusted inputs.",
    technique="TLA+ decision tables enumerated by TLC, materialised-document replay, trace validation of admissions",
)

NOT_APPLICABLE = {("C%02d" % i): _pending for i in range(1, 21)}
