"""Per-property registration data for MANIFEST.json."""

HOOK_COMMITS = []

TB = "Trusted base: TLC 1.8.0 + CommunityModules (Json), the Go toolchain and standard library, the harness projections."

CHECKS = {
    "C08": dict(
        text="GState.tla is the ISO 32000 graphics/text-state machine (one action per operator). TLC checks its invariants "
             "exhaustively (all programs to a bounded length over a 21-operator alphabet, and refutes the post-multiplying "
             "variant), emits every reachable state as a case with the spec-computed state and fragments; each case is replayed "
             "on graphicsstate.GraphicsState and through text.Extractor.ExtractFromBytes (incl. Form XObjects); long random "
             "programs recorded from the real GraphicsState are validated by GStateTrace.tla with every matrix entry bound.",
        design_ref="4.8",
        note=TB + " Integer matrices only; glyph advance/TJ/rise not modelled; font size asserted exactly only when Tm and CTM are similarities, by Frobenius bounds otherwise.",
        technique="TLA+ spec + TLC exhaustive enumeration, spec-to-code replay, code-to-spec trace validation",
    ),
}

_pending = "check not built yet in this session (work in progress, see DESIGN.md section 8)"
NOT_APPLICABLE = {("C%02d" % i): _pending for i in range(1, 21)}
