"""C18 — multi-part documents are read in their declared order (PartsOrder.tla,
PartsOrderTrace.tla)."""
from lib import vlib
from checks.common import absorb, replay_generic
from checks import c17_pkgaudit as audit

NOTES = """Interpretation choices (read generously, see BUILDING.md rule 1):
* 'declared order' = <sheets> of xl/workbook.xml, <p:sldIdLst> of ppt/presentation.xml, <spine> of the
  OPF; each entry resolved through its relationship / manifest item. The order of the relationship or
  manifest entries, the numbers in the file names and the archive order are three further, independent
  orders that must not matter.
* 'declared, readable': in some profiles ONE declared part is absent from the archive (its list entry and
  relationship / manifest item are there, the member is not). Such a part is not readable: it gets no page, is
  not counted, and nothing may be shown in its place - neither another declared part nor an undeclared member
  that carries the conventional name (xl/worksheets/sheet<position>.xml, ppt/slides/slide<position>.xml). The
  other parts keep their declared order. If a reader REFUSES such a document with an error, that is NOT
  asserted (the statement does not say a damaged package must be opened); on the current tree xlsx, pptx and
  epubdoc all skip the part silently, so the assertions apply. Undeclared members ('decoys': a part-like file nobody references; an EPUB manifest item
  that is not in the spine; the EPUB 3 navigation document, which is not put into the spine) must not be
  presented or counted.
* Text() and ToMarkdown() do not delimit pages: only the order of the content tokens and 'each exactly once'
  are asserted there; Document().Pages[i] and the format readers are asserted page by page.
* part NAMES are a dimension: member names with a space, '+', the text "%20" (a percent sign followed by hex
  digits), a lone '%', e-acute, parentheses and '&' (XML-escaped in the attribute).
  EPUB (OCF / URL standard): the manifest href is a URL path relative to the package document and is percent-decoded
  exactly ONCE: %20 is a space, %2B and a literal '+' are a plus ('+' means space only in form-encoded query strings),
  %2520 denotes the name "%20", %25z the name "%z", %C3%A9 and the raw character (IRI spelling) denote e-acute.
  OOXML (ECMA-376 Part 2): part names ARE the percent-encoded form and the ZIP item name is the part name, so the
  Target text is the member name text and nothing is decoded ("sheet%201.xml" is a member literally called that);
  raw spaces / raw non-ASCII in Targets are legal IRIs but are NOT generated (conversion rules are intricate).
  Per declared part an undeclared decoy may carry the name a WRONG reading denotes (decoded once more, not decoded
  at all, '+' as space); it must never be shown.
* the declaration chain: an EPUB container may list 1-3 <rootfile> entries. The publication is the FIRST one whose
  media-type is application/oebps-package+xml (OCF 3.3 4.2.6.3.1 "the first rootfile element ... is the Default
  Rendition"; in OCF 2.0.1 entries of other media types are other formats of the book and are skipped). Further
  package documents (same directory or container root; reversed spine; another part set incl. a part only they
  declare) must not influence order, count or content. OOXML: the officeDocument relationship may be the last one
  of /_rels/.rels and workbook.xml.rels / presentation.xml.rels may list styles, theme, masters before the parts.
  [Content_Types] Override-vs-Default variants are not generated.
* histories (PartsHistory.tla): every history of <= 3 calls out of {Text, TextWithOptions (PPTX: slide selection incl.
  reordered, notes/titles off, footers excluded; EPUB: navigation exclusion), Markdown, MarkdownWithOptions,
  MarkdownWithRAGOptions (metadata, TOC), Document, SlideCount/PageCount/ChapterCount, Slide(i)/Chapters()[i], EPUB
  TableOfContents} on ONE pptx.Reader / epubdoc.Reader over packages with a declared-but-absent part, names needing
  decoding with wrongly decoded decoys, three rootfiles, declared order different from every other order. Each call
  must (b) return byte for byte what it returns on a freshly opened reader and (a) present the tokens of the parts it
  selects in the selected order. The content of the table of contents is only compared with the fresh reader's.
* the XML SPELLING of the declarations never matters: attribute order (r:id before id / name; Target, Type, Id; linear,
  idref; media-type, href, id), another prefix bound to the relationships namespace, single quotes, an extra attribute
  with local name "id" from a namespace made ignorable through Markup Compatibility (EPUB: the itemref's own optional
  id attribute), start/end tags instead of empty-element tags, line breaks and comments between entries, the XML
  declaration present / absent / behind a byte order mark - for workbook.xml, presentation.xml, their relationship
  parts, /_rels/.rels, container.xml and the package documents. Relationship parts carry no foreign attributes (OPC
  forbids Markup Compatibility there).
* ENTRY POINTS (audit). Views of the parts in order, all driven:
    tabula.Extractor: PageCount, Text, ToMarkdown, ToMarkdownWithOptions, Document, Chunks, ChunksWithConfig,
      ExcludeHeadersAndFooters().Text, Pages(k).Text, PageRange(a,b).Document.
    xlsx.Reader: SheetNames, SheetCount, Sheet(i), SheetByName, Text, Markdown, Document, Tables.
    pptx.Reader: SlideCount, PageCount, Slide(i).GetText / GetMarkdown, Text, TextWithOptions (SlideNumbers, IncludeNotes,
      IncludeTitles, ExcludeHeaders, ExcludeFooters), Markdown, MarkdownWithOptions, MarkdownWithRAGOptions, Document.
    epubdoc: Open and OpenReader (from bytes), ChapterCount, Chapters() (Content, Href, Index), Text, TextWithOptions,
      Markdown, MarkdownWithOptions, Document, TableOfContents (its entries, by href, list the declared parts of the
      default rendition's navigation document in declared order).
  Pages / PageRange: the statement says nothing about selections (C10): a selection must show the selected parts
  ascending or - where the format does not take selections, as on the current tree - all parts in order.
  NOT observable for these formats: the PDF-only Extractor operations (Fragments ... Elements, IsCharacterLevel,
  IsMultiColumn return an error), Metadata (no parts), tabula.FromReader / FromHTML* (other formats).
* conformance class: XLSX / PPTX packages are generated in the Transitional and in the ISO/IEC 29500 Strict class
  (purl.oclc.org namespaces for the main document, DrawingML and r:, purl.oclc.org relationship Types, conformance=
  "strict" on the root), consistently per package; the other relationships (styles, theme, sharedStrings, slideMaster,
  props) precede, follow or are interleaved with the worksheet / slide relationships. A chartsheet / dialogsheet listed
  in <sheets> is NOT generated (it needs drawing and chart parts to be valid, and the statement speaks of worksheets).
  EPUB: OPF 2.0 (NCX, guide) and 3.0 (nav) were already a dimension.
* attachments: a PPTX slide may have a notes slide (on all / odd / even slides, also next to a declared-but-absent slide).
  Its text (token id+200) belongs to the slide's page: in every view it may only appear with its own slide, and the views
  that include speaker notes (tabula Text / ToMarkdown / ToMarkdownWithOptions, pptx TextWithOptions{IncludeNotes},
  Slide.Notes) must show it. An unreadable slide takes its notes with it. XLSX worksheets and EPUB chapters have no
  attachment whose text the readers expose (sheet comments and linked resources are not read): nothing to assert.
* references may contain "./" (and for EPUB "../") segments: resolved as RFC 3986 5.2.4 says, relative and absolute.
* OPC relationship targets are tried relative to the source part ('worksheets/sheet1.xml') and absolute
  ('/xl/worksheets/sheet1.xml'); '..' segments are generated only for EPUB. Speaker notes, slide masters and
  layouts carry no tokens; nothing is asserted about them.
"""

EVIDENCE = dict(
    level="model_checking",
    rule="cases = every package PartsOrderMC.tla builds from K parts (K=3 quick, 4 thorough) x three independent permutations "
         "(declared order, relationship/manifest listing order, archive order; file-name order = part number) x 90 layout profiles "
         "(XLSX, PPTX, EPUB 2/3; nested / renamed / ../ paths; absolute targets; %20, '+', %2B; decoys; optional parts; one declared part "
         "absent from the archive, with other parts or decoys under the conventional sheet<k>/slide<k> names; member names with space, '+', "
         "'%20', lone '%', e-acute, parentheses, '&' in their encoded / raw spellings with decoys named like the doubly decoded, undecoded "
         "or form-decoded reading; './' segments; EPUB containers with 1-3 rootfiles, OOXML relationship order; four XML spellings of the declarations) plus -simulate "
         "packages over the full option product; TLC proves DeclaredOrder for the declared/path reader and refutes the file-name, archive, "
         "query-decoding, twice-decoding, last-rootfile and conventional-name-fallback readers. Each package is rendered by an independent writer and opened through tabula.Open (PageCount, Text, "
         "ToMarkdown, Document) and the format reader; random packages of up to 10 parts are validated by PartsOrderTrace.tla. "
         "Non-trivial = declared order differs from file-name order; distinct by case text.",
    assumptions=["a reader that refuses a package with an absent declared part is not judged (only silent substitution / miscounting is)",
                 "notes/masters/layouts carry no content tokens",
                 "TLC 1.8.0 + CommunityModules (Json) and the harness writer ooxmlw (audited per run with python zipfile/xml.etree) are trusted"],
)


def _selftest(ctx, cases):
    res = ctx.run_driver(["c18", "selftest"], cases)
    for r in res:
        info = r.get("replay") or {}
        try:
            d, ab = info["declared"], tuple(info.get("absent") or ())
            if info["fmt"] == "xlsx":
                audit.audit_xlsx(info["path"], info["members"], declared=[(x[2], x[0]) for x in d], absent=ab, strict=info.get("strict", False))
            elif info["fmt"] == "pptx":
                audit.audit_pptx(info["path"], info["members"], declared=[(x[0], x[1]) for x in d], absent=ab, strict=info.get("strict", False))
            else:
                audit.audit_epub(info["path"], info["members"], declared=[(x[0], x[1]) for x in d], absent=ab, nroots=info.get("nroots"))
            # the parts appear in the archive in exactly the order the case asked for
            pos = [info["members"].index(n) for n in info["ziporder"]]
            if pos != sorted(pos):
                raise audit.AuditError("archive order of the parts differs from the case: %r" % info["ziporder"])
        except audit.AuditError as e:
            raise vlib.MachineryError("writer self-test failed (%s): %s" % (info.get("fmt"), e))
        except vlib.MachineryError:
            raise
        except Exception as e:
            raise vlib.MachineryError("writer self-test failed (%s): %r" % (info.get("fmt"), e))
    ctx.extra["writer_selftest_files"] = len(res)


def _name_orders(results):
    """A wrong order is named by the explanation (file-name / listing / archive order) that fits ALL failing
    cases of a format, so one defect gets one signature however the permutations of a single case coincide."""
    common = {}
    for r in results:
        sig = r.get("sig") or ""
        if not r["ok"] and ":order:" in sig:
            fmt, fits = sig.split(":")[1], set(sig.split(":order:")[1].split("+"))
            common[fmt] = fits if fmt not in common else (common[fmt] & fits)
    for r in results:
        sig = r.get("sig") or ""
        if not r["ok"] and ":order:" in sig:
            fmt = sig.split(":")[1]
            best = [x for x in ("file-name", "listing", "archive") if x in common.get(fmt, ())]
            r["sig"] = "C18:%s:order:%s" % (fmt, best[0] if best else "other")
    return results


def _features(text):
    m = vlib.re.search(r"\{([^}]*)\}", text or "")
    return [x for x in m.group(1).split(",")] if m else []


def _name_features(results):
    """Open errors / missing parts carry all layout options of the case ("{enc=paren,paths=dot,tgt=rel,opf=root}").
    The signature names the option value(s) that explain the failure: a value all of whose cases (of that format)
    fail in this run; pairs of values are tried when no single value does. Priority paths > tgt > opf > enc for ties,
    'plain' for the default value of an option."""
    import itertools
    tot, bad = {}, {}
    for r in results:
        if r["ok"]:
            fm, feats = (r.get("clause") or "").split(":")[1:2], _features(r.get("clause"))
        else:
            fm, feats = (r.get("sig") or "").split(":")[1:2], _features(r.get("sig"))
        if not fm or not feats:
            continue
        feats = sorted(feats)
        for k in (1, 2):
            for combo in itertools.combinations(feats, k):
                key = (fm[0], combo)
                tot[key] = tot.get(key, 0) + 1
                if not r["ok"]:
                    bad[key] = bad.get(key, 0) + 1
    prio = {"paths": 0, "tgt": 1, "opf": 2, "enc": 3, "foreign-id-last": 4, "foreign-id-first": 5, "rev": 6, "conf": 6, "chain": 6, "prefix": 6, "quotes": 7, "oc": 8, "gaps": 9, "decl": 10}
    for r in results:
        sig = r.get("sig") or ""
        feats = _features(sig)
        if r["ok"] or not feats:
            continue
        fm = sig.split(":")[1]
        best = None
        for k in (1, 2):
            cands = [c for c in itertools.combinations(sorted(feats), k) if bad.get((fm, c), 0) == tot.get((fm, c), -1)]
            if cands:
                cands.sort(key=lambda c: [prio.get(x.split("=")[0], 9) for x in c])
                best = "+".join(cands[0])
                break
        r["sig"] = vlib.re.sub(r"\{[^}]*\}", best or "mixed", sig)
    return results


def _validate_segments(ctx, events, max_report=4):
    segs = []
    for e in events:
        if e["event"] == "Pkg" or not segs:
            segs.append([])
        segs[-1].append(e)
    reported = 0
    seen_sigs = set()
    while segs:
        flat = [e for s in segs for e in s]
        tv = ctx.validate_trace("PartsOrderTrace", "PartsOrderTrace.cfg", flat)
        if tv["accepted"]:
            ctx.traces_validated += len(segs)
            return
        line = tv["depth"]
        k, n = 0, 0
        while k < len(segs) and n + len(segs[k]) < line:
            n += len(segs[k])
            k += 1
        if k >= len(segs) or tv.get("inv_violated"):
            raise vlib.MachineryError("PartsOrderTrace: cannot locate rejected line %d\n%s" % (line, tv["out"][-1500:]))
        ev = segs[k][line - n - 1]
        if ev["event"] == "Pkg":
            raise vlib.MachineryError("PartsOrderTrace rejects a Pkg event: the harness generated a package that is not well formed: %s"
                                      % vlib.json.dumps(ev)[:1500])
        head = segs[k][0]
        hint = head.get("hint") or "%s:trace-%s" % (head.get("fmt"), ev["event"].lower())
        if ":order:" in hint:   # larger packages: name the symptom only
            hint = hint.split(":order:")[0] + ":order:trace"
        hint = vlib.re.sub(r"\{[^}]*\}", "trace", hint)
        sig = "C18:" + hint
        ctx.violation(sig, "PartsOrderTrace rejects the recorded execution at event %s: the real code does not present the declared "
                           "parts of this %s package in declared order" % (vlib.json.dumps(ev), head.get("fmt")),
                      {"request": head.get("request"), "seed": ctx.seed, "rejected_event": ev, "package": head,
                       "trace_segment": segs[k][1:line - n][-40:]})
        seen_sigs.add(sig)
        reported += 1
        del segs[k]
        if reported >= max_report:
            ctx.extra["trace_segments_not_validated"] = len(segs)
            return


def run(ctx):
    q = ctx.tier == "quick"
    # ---- R1 -------------------------------------------------------------------
    # the exhaustive run checks the invariants AND emits one case per package (terminal states)
    gen = ctx.tlc("PartsOrderMC", "PartsOrder_mc_quick.cfg" if q else "PartsOrder_mc_thorough.cfg", collect=True, timeout=3000)
    ctx.tlc("PartsOrderMC", "PartsOrder_mc_impl_filename.cfg", expect_violation=True)
    ctx.tlc("PartsOrderMC", "PartsOrder_mc_impl_zip.cfg", expect_violation=True)
    ctx.tlc("PartsOrderMC", "PartsOrder_mc_impl_query.cfg", expect_violation=True)
    ctx.tlc("PartsOrderMC", "PartsOrder_mc_impl_convention.cfg", expect_violation=True)
    ctx.tlc("PartsOrderMC", "PartsOrder_mc_impl_twice.cfg", expect_violation=True)
    ctx.tlc("PartsOrderMC", "PartsOrder_mc_impl_lastroot.cfg", expect_violation=True)
    ctx.exhaustive = True
    # ---- R2 -------------------------------------------------------------------
    sim = ctx.tlc("PartsOrderMC", "PartsOrder_sim.cfg", workers=1, simulate=400 if q else 20000, depth=6,
                  collect=True, count=False, timeout=3000)
    seen, cases = set(), []
    for c in gen["cases"] + sim["cases"]:
        k = vlib.json.dumps(c, sort_keys=True)
        if k not in seen:
            seen.add(k)
            cases.append(c)
    if not gen["cases"] or not sim["cases"]:
        raise vlib.MachineryError("TLC emitted no cases")
    ctx.extra["packages_exhaustive"] = len(gen["cases"])
    ctx.extra["packages_simulated"] = len(cases) - len(gen["cases"])
    ng = len(gen["cases"])
    miss = [c for c in cases if c["prof"]["missing"] > 0]
    chains = [c for c in cases if c["prof"]["chain"] != "one"]
    spelled = [c for c in cases if c["prof"]["xml"]["rev"] or c["prof"]["xml"]["foreign"] or c["prof"]["xml"]["decl"] != "std"]
    strictc = [c for c in cases if c["prof"].get("conf") == "strict"]
    chains = [strictc[i * len(strictc) // 5] for i in range(5)] + [spelled[i * len(spelled) // 7] for i in range(7)] + chains
    picks = [chains[0], chains[len(chains) // 3], chains[2 * len(chains) // 3], chains[-1], miss[0], miss[len(miss) // 2], miss[-1], cases[0], cases[ng // 5], cases[2 * ng // 5], cases[3 * ng // 5], cases[4 * ng // 5], cases[ng - 1], cases[-1], cases[-2], cases[-3]]
    _selftest(ctx, picks)
    for c in (cases[ng // 3], cases[-1]):
        ctx.sample({"fmt": c["fmt"], "profile": c["prof"], "parts": [{"id": p["id"], "decl": p["decl"], "rel": p["rel"], "zip": p["zip"],
                    "n": p["name"]["n"]} for p in c["parts"]], "expected_pages": c["pages"]})
    absorb(ctx, _name_features(_name_orders(ctx.run_driver(["c18", "replay"], cases))), label="pkg")
    # ---- R3 -------------------------------------------------------------------
    nreq, per = (8, 8) if q else (40, 25)
    reqs = [{"n": per, "k": 10, "salt": i} for i in range(nreq)]
    rec = ctx.run_driver(["c18", "record"], reqs)
    events = []
    for i, r in enumerate(rec):
        ev = r.get("events") or []
        if not ev:
            raise vlib.MachineryError("record driver logged no events")
        for e in ev:
            if e["event"] == "Pkg":
                e["request"] = reqs[i]
        events += ev
        ctx.evaluations += r.get("evals", 0)
    ctx.extra["trace_events"] = len(events)
    _validate_segments(ctx, events)
    _histories(ctx, q)
    ctx.notes.append(NOTES)


def _histories(ctx, q):
    """Purity of rendering (PartsHistory.tla): histories of calls on ONE pptx.Reader / epubdoc.Reader."""
    gen = ctx.tlc("PartsHistoryMC", "PartsHistory_mc_quick.cfg" if q else "PartsHistory_mc_thorough.cfg", workers=8,
                  collect=True, timeout=1800)
    ctx.tlc("PartsHistoryMC", "PartsHistory_mc_impl.cfg", workers=1, expect_violation=True)
    cases = gen["cases"]
    if not cases:
        raise vlib.MachineryError("PartsHistoryMC emitted no histories")
    ctx.extra["histories"] = len(cases)
    c0 = cases[len(cases) // 2]
    ctx.sample({"history_on_one_%s_reader" % c0["fmt"]: [[c["op"], c["sel"], c["view"]] for c in c0["calls"]], "declared": c0["pages"]})
    absorb(ctx, ctx.run_driver(["c18", "history"], cases), label="hist")
    reqs = [{"n": 6, "k": 8, "calls": 6 if q else 10, "salt": i} for i in range(8 if q else 60)]
    rec = ctx.run_driver(["c18", "histrecord"], reqs)
    events = []
    for r in rec:
        ctx.evaluations += r.get("evals", 0)
        events += r.get("events") or []
    if not events:
        raise vlib.MachineryError("history record driver logged no events")
    ctx.extra["history_trace_events"] = len(events)
    tv = ctx.validate_trace("PartsHistoryTrace", "PartsHistoryTrace.cfg", events)
    if tv["accepted"]:
        ctx.traces_validated += sum(1 for e in events if e["event"] == "Pkg")
        return
    line = tv["depth"]
    ev = events[line - 1] if 0 < line <= len(events) else None
    if not ev or ev["event"] == "Pkg":
        raise vlib.MachineryError("PartsHistoryTrace rejects event %d (%s): the history generator built a package that is not well formed"
                                  % (line, vlib.json.dumps(ev)[:400]))
    start = max(i for i in range(line) if events[i]["event"] == "Pkg")
    before = [e.get("op") for e in events[start + 1:line - 1]]
    ctx.violation("C18:%s:history-trace:%s" % (events[start].get("fmt"), ev.get("op") or ev["event"].lower()),
                  "PartsHistoryTrace rejects %s on one %s reader after %s: what it presents is not what a freshly opened reader presents: %s"
                  % (ev.get("op"), events[start].get("fmt"), before, vlib.json.dumps(ev)[:500]),
                  {"trace_segment": events[start:line], "rejected_line": line})


def replay(ctx, rp):
    r0 = rp.get("replay") or {}
    if isinstance(r0, dict) and "request" in r0 and "case" not in r0:
        ctx.seed = int(r0.get("seed", ctx.seed))
        rec = ctx.run_driver(["c18", "record"], [r0["request"]])
        events = [e for r in rec for e in (r.get("events") or [])]
        before = len(ctx.violations)
        _validate_segments(ctx, events)
        if len(ctx.violations) > before:
            for v in ctx.violations[before:]:
                print("REPRODUCED sig=%s: %s" % (v["sig"], v["what"]))
            print("VIOLATION property=%s replay=(replayed)" % ctx.prop)
            return 1
        print("not reproduced: the recorded request passes on the current tree")
        return 0
    if isinstance(r0.get("case"), dict) and r0["case"].get("kind") == "history":
        return replay_generic(ctx, rp, ["c18", "history"])
    return replay_generic(ctx, rp, ["c18", "replay"])
