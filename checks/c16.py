"""C16 — word-processor documents keep their order and structure
(WordDoc.tla, DocxOrderImpl.tla, WordDocTrace.tla)."""
from lib import vlib
from checks.common import absorb, replay_generic

EVIDENCE = dict(
    level="model_checking",
    rule="cases = every document of the families of WordDoc.tla (quick: one combined TLC run, family B then with single-atom second children), enumerated exhaustively by TLC together with the items "
         "the reader contract emits: A interleavings of <= 3 (thorough 4) blocks over 11 block shapes, B one paragraph with every "
         "arrangement of <= 2 children x <= 2 atoms over the wrapper/atom alphabets, C every table <= 2x2 (thorough 3x3) with "
         "merges, a two-paragraph cell and a cell paragraph with mixed inline content plus every 2x3 table with <= 2+2 merges, "
         "S every style sheet that is a basedOn / parent-style chain of 1..4 styles in which each style independently declares "
         "nothing or a heading level (built-in style, name only in either case, outline level only; ODT: with / without "
         "default-outline-level) and whose root is based on nothing / the default style / an undefined style / a style of the "
         "chain (cycle), with the spec-computed level (nearest declaration wins), D every heading declaration x header/footer parts and nested list runs; each for DOCX and "
         "ODT. O every sheet of 2..3 (thorough 4) independent styles x place (styles.xml / content.xml automatic styles) x the style used (first / middle / last declared) x heading with / without its own outline level, alone or mixed, with a cross-place parent chain; W every properly nested arrangement of <= 5 blocks over paragraph, table, wrapper open / close and marker (thorough: both wrapper kinds, all markers, cell-level wrappers, a heading); N every nesting of inline containers around a run (in paragraph, heading, list item, table cell); L every list tree of <= 3 (thorough 4) items over depths 0..3 with empty items, restarts, level jumps and (ODT) item-less wrappers / continuation paragraphs, also checked in the Lists() view; H every history of 3 calls out of {Text, Markdown, MarkdownWithOptions, MarkdownWithRAGOptions x heading options x ExcludeHeaders/ExcludeFooters, Document, ModelTables} on ONE reader over documents with headings of level 1..9 (ODT ..10), each call compared with the spec's levels for a fresh reader and with a fresh reader's result. Each case is rendered by the independent writers and read through docx.Open/odt.Open and tabula.Open "
         "(Text, Markdown, Document). Non-trivial = body with a table or a paragraph mixing >= 3 inline kinds; distinct by "
         "format + body. Traces = documents (a sample of the cases + larger random ones) whose observed model WordDocTrace.tla accepted.",
    assumptions=["the DOCX/ODT writers (harness/internal/wpw) are trusted; they are audited for XML well-formedness, token numbering "
                 "and table grid against the spec on every case",
                 "nested tables, block-level content controls, footnotes, text boxes, change-tracked deletions/moves and "
                 "section/column breaks are not generated",
                 "TLC and the CommunityModules (Json, SequencesExt) are trusted"],
)

NOTES = """Interpretation choices (soundness first):
* Tokens: every text/symbol atom carries a unique token; presence, multiplicity and order of tokens are asserted for
  Text, Markdown and Document, for the reader and the tabula.Open entry.
* Tabs / line breaks / spaces are asserted only as *separation*: if the source has such an element between two tokens the
  output must have some whitespace there (a tab, newline or plain space are all accepted); if the source has nothing
  between two tokens the output must not have a tab or newline there (a plain space is tolerated).  Leading/trailing
  whitespace of a paragraph is never asserted.
* Heading level: asserted on model.Heading.Level and on the number of '#' in Markdown (levels 1..6 only).  A heading is
  whatever ECMA-376 / ODF make one: built-in heading style, a style whose basedOn chain reaches one (outlineLvl is
  inherited through basedOn, 17.7.4.3), a direct w:outlineLvl; text:h with text:outline-level.
* Style sheets (family S, DOCX): the level of a paragraph styled with style s is the nearest declaration along the
  basedOn chain starting at s itself; a declaration is: the built-in heading style (id HeadingN, name "heading N",
  outline level), the built-in heading NAME alone ("heading N" or "Heading N" as other producers write it), or an
  outline level alone.  A w:styleId alone is an opaque identifier and is never asserted to mean anything.  A chain
  without declaration that ends at nothing / Normal is a plain paragraph.  Unconstrained (P or H of any level, but the
  text must be there and nothing may crash or hang): chains that are cyclic (invalid by ECMA-376) and chains that
  run into an undefined style before any declaration.
* Style order and place (family O): 2..4 independent styles declared in every combination of declarations, the heading
  using the first / a middle / the last one declared; ODT styles in styles.xml (office:styles) or among the automatic
  styles of content.xml, parent chains across the two places.  An ODT text:h WITHOUT a text:outline-level of its own:
  ODF 1.2 puts it at level 1, readers commonly use the default-outline-level of the heading's own style - both are
  accepted when that style declares one (alt level), any level when it does not; it is always a heading.
  An ODT text:h WITH its own level keeps it whatever the styles say (conflicting styles are generated now).
* Style sheets (ODT): a text:h's own text:outline-level decides (ODF 1.2 part 1, 5.1.2); the sheet's styles that
  carry a default-outline-level agree with it (no conflicting documents are generated); cyclic / dangling parent
  chains are unconstrained.  text:p is never asserted to become a heading through its style.
* Heading levels run 1..9 in DOCX (outline levels 0..8, Heading1..Heading9) and 1..10 in ODT (text:outline-level is a
  positive integer; writers offer ten levels).  Expectation per view: the document model reports the authored level,
  Markdown writes min(level, 6) '#'; MarkdownWithRAGOptions(offset, max) writes clamp(level + offset, 1, min(max, 6))
  (max = 0: no cap of its own).
* Histories (WordHistory.tla): a docx.Reader / odt.Reader is a state machine whose calls (Text, Markdown,
  MarkdownWithOptions, MarkdownWithRAGOptions, Document, ModelTables) must not change what it holds: every call of every
  history of <= 3 calls must present the heading levels the spec computes for a freshly opened reader, keep all tokens in
  order, and return byte-for-byte what the same call returns on a fresh reader.  The write-back reader (Markdown
  stores its capped level into the parsed paragraph) is refuted by TLC.
* Extraction options in histories: Text, MarkdownWithOptions and MarkdownWithRAGOptions take the call's own
  ExtractOptions (ExcludeHeaders / ExcludeFooters: none, h, f, hf - the only fields docx.ExtractOptions and
  odt.ExtractOptions have).  The history documents have a header and a footer part and body paragraphs that equal the
  header line, the footer line, or neither.  Asserted: the header / footer parts themselves never add text to the body
  (the line occurs at most as often as the body has paragraphs equal to it); a paragraph equal to a line that the
  call's OWN options do not cover is body content and is shown; paragraphs the options cover may be filtered - there
  only purity is asserted (same result as a fresh reader for the same call; in traces: the same call repeats its
  result).  The reader that collects the lines to filter for the options of its first excluding call is refuted by TLC.
* Nested inline containers (family N): a run inside every nesting (depth 2..3) of hyperlink, tracked insertion,
  run-level content control, smart tag, simple field, bidirectional override (DOCX; also each alone) / span, link and
  ruby (ODT; the ruby base is the text, the ruby-text annotation is not asserted), between two plain runs, in a body
  paragraph, a heading, a list item, and in table cells: every run's text once, in order.  ODT change marks and
  w:dir / w:customXml / w:moveTo nestings are not generated.
* Block-level wrappers and markers (family W): DOCX w:sdt/w:sdtContent (also nested, also around the paragraphs of
  every table cell), w:customXml, bookmarkStart/End, proofErr, an empty content control; ODT text:section (nested, also
  inside table cells), text:table-of-content/text:index-body, text:soft-page-break, an empty section, and
  text:tracked-changes holding a deleted paragraph.  Two clauses:
  (1) ORDER - the relative order and structure of the blocks that are presented must hold whatever wrappers stand
      between them; it is checked on the tokens that are there, before and independently of (2).
  (2) PRESENCE - the statement says the views present "the body ... paragraphs, headings, list items and tables ... as in
      the source": what a content control, custom XML element, section or index body holds IS body text (Word and
      LibreOffice show it in place), so it is asserted present, once, in order, with its structure.  /repo dropped all
      of it for DOCX (genuine defect, proposed_fixes/C16-docx-block-containers-single-pass.patch) and the paragraphs of
      a section inside an ODT table cell (C16-odt-cell-paragraphs-in-sections.patch).  Deleted text kept in
      text:tracked-changes is NOT part of the body: asserted absent (/repo showed it at the top of the document:
      C16-odt-tracked-changes-not-body.patch).
  Not generated: mc:AlternateContent (which branch counts is a separate question), w:ins/w:del/w:moveFrom/w:moveTo at
  block level (run-level ins is covered in family B), draw:frame / text boxes (floating content has no place in the
  block order), row-level content controls, nested tables.
* List trees (family L): a list is written as a sequence of item depths that may start deep, jump levels, contain
  empty items and - ODT - a further paragraph of an item after its nested list; DOCX numbering may use a second
  instance that restarts.  Every item text must be present once, in document order, at its depth (relative to the
  shallowest item of the document) in Text / Markdown / Document and in the readers' Lists() view.  A paragraph that
  follows a nested list inside its item is expected as a list entry of the item's depth; two paragraphs of one item
  without a list between them (merge or split is a matter of taste) are not generated.  Empty items show nothing.
* List nesting: model.ListItem.Level relative to the shallowest item; in Text/Markdown only the *direction* of the
  indentation change between consecutive items.  Ordered/unordered and the numbers themselves are not asserted.
* Table grid: in the model every anchor cell at its (row, col) with its spans and tokens, nothing else non-empty, and
  the authored dimensions; in Markdown each row on one line; in Text only "different rows on different lines".
  Column positions inside Markdown rows are C15's subject and not asserted here.
* Tables as grids with both kinds of spans together (family C: every 2x4 table with <= 1 horizontal and <= 2 vertical
  merges, thorough 2x4 with 2+2 and 3x4 with 1+2): a horizontal span before / at / after the column of a vertical
  merge, merges in the first / a middle / the last column, two merges in one row, a merge under a spanning cell.  The
  statement promises "the table grid (including merged cells ...) as authored": text views are held to the cell texts
  in grid order (and rows on lines); every view that exposes cells - Document()'s model table and the readers'
  Tables() - to each source cell at its own grid position with its own row and column span; covered positions are
  empty / continuation cells and carry no span of their own.
* Header/footer: their tokens must never occur in any body output ("unless requested": no API requests them into the
  body; HeaderTexts()/FooterTexts() are not asserted).
* Paragraphs without any token are not generated, so an implementation may drop or keep empty paragraphs.
"""


def _machinery(results):
    for r in results:
        if r.get("sig") == "panic" and "machinery:" in r.get("what", ""):
            raise vlib.MachineryError(r["what"][:2000])


def _trace(ctx, events, label):
    if not events:
        raise vlib.MachineryError("no trace events recorded (%s)" % label)
    segs = sum(1 for e in events if e["event"] == "Doc")
    tv = ctx.validate_trace("WordDocTrace", "WordDocTrace.cfg", events)
    if tv["accepted"]:
        ctx.traces_validated += segs
        return
    line = tv["depth"]
    ev = events[line - 1] if 0 < line <= len(events) else None
    start = max([i for i in range(min(line, len(events))) if events[i]["event"] == "Doc"] or [0])
    kind = "%s:%s" % ((ev or {}).get("event", "?"), (ev or {}).get("k", ""))
    fmt = events[start].get("fmt", "?")
    ctx.violation("C16:trace:%s:%s" % (fmt, kind.rstrip(":")),
                  "WordDocTrace rejects the recorded document model at event %d (%s): the element the real reader "
                  "produced is not the item the reader contract emits next for this document"
                  % (line, vlib.json.dumps(ev)[:600]),
                  {"trace_segment": events[start:line], "rejected_line": line})


def run(ctx):
    q = ctx.tier == "quick"
    ctx.notes.append(NOTES)
    # R1: the pinned two-pass matcher (depth-blind) is refuted, the depth-aware one proved
    ctx.tlc("DocxOrderImplMC", "DocxOrderImpl_depth.cfg", workers=1)
    neg = ctx.tlc("DocxOrderImplMC", "DocxOrderImpl_blind.cfg", workers=1, expect_violation=True)
    ctx.extra["docx_order_impl_refuted"] = neg["violated"]
    # ... and with block-level wrappers in the body: the depth-counting pass keeps the ordinary blocks in order,
    # the pass that skips registered subtrees instead of counting depth is refuted
    ctx.tlc("DocxOrderImplMC", "DocxOrderImpl_depthw.cfg", workers=2)
    neg = ctx.tlc("DocxOrderImplMC", "DocxOrderImpl_skip.cfg", workers=1, expect_violation=True)
    ctx.extra["docx_skip_matcher_refuted"] = neg["violated"]
    # R1 + R2: invariants checked and cases emitted in the same exhaustive runs
    # quick: all families with their quick bounds in ONE TLC run (WordDoc_Q.cfg = A<=3, B 2x2, C 2x2 + wide, D, S<=4, L<=3, O<=3)
    cfgs = ["WordDoc_Q.cfg"] if q else \
           ["WordDoc_A_thorough.cfg", "WordDoc_B_quick.cfg", "WordDoc_B_thorough.cfg", "WordDoc_B_thorough2.cfg",
            "WordDoc_C_thorough.cfg", "WordDoc_D.cfg", "WordDoc_S.cfg", "WordDoc_L_thorough.cfg", "WordDoc_O_thorough.cfg", "WordDoc_W_thorough.cfg", "WordDoc_N.cfg"]
    cases, seen = [], set()
    for cfg in cfgs:
        gen = ctx.tlc("WordDocMC", cfg, workers=8, collect=True, timeout=3000)
        if not gen["cases"]:
            raise vlib.MachineryError("TLC emitted no cases for %s" % cfg)
        ctx.extra["cases_" + cfg.replace("WordDoc_", "").replace(".cfg", "")] = len(gen["cases"])
        for c in gen["cases"]:
            k = vlib.json.dumps([c["fmt"], c["body"], c["hdr"], c["ftr"], c["sheet"]], sort_keys=True)
            if k not in seen:
                seen.add(k)
                cases.append(c)
    ctx.exhaustive = True
    for c in (cases[7], cases[len(cases) // 2], cases[-1]):
        ctx.sample({"fmt": c["fmt"], "body": c["body"], "expected_items": c["items"]})
    res = ctx.run_driver(["c16", "replay"], cases)
    _machinery(res)
    absorb(ctx, res)
    # R3: trace validation — a seeded sample of the replays + larger random documents
    events = {"docx": [], "odt": []}
    for r in res:
        ev = r.get("events") or []
        if ev:
            events[ev[0]["fmt"]] += ev
    reqs = [{"n": 6, "blocks": 12 if q else 25} for _ in range(10 if q else 120)]
    rec = ctx.run_driver(["c16", "record"], reqs)
    _machinery(rec)
    for r in rec:
        ctx.evaluations += r.get("evals", 0)
        ev = r.get("events") or []
        # split the segments by format
        seg = []
        for e in ev:
            if e["event"] == "Doc" and seg:
                events[seg[0]["fmt"]] += seg
                seg = []
            seg.append(e)
        if seg:
            events[seg[0]["fmt"]] += seg
    ctx.extra["trace_events"] = {k: len(v) for k, v in events.items()}
    if q:       # one validation run for both formats
        _trace(ctx, events["docx"] + events["odt"], "docx+odt")
    else:
        for f in ("docx", "odt"):
            _trace(ctx, events[f], f)
    _histories(ctx, q)


def _histories(ctx, q):
    """Purity of rendering (WordHistory.tla): histories of calls on ONE docx.Reader / odt.Reader."""
    gen = ctx.tlc("WordHistoryMC", "WordHistory_mc_quick.cfg" if q else "WordHistory_mc_thorough.cfg", workers=8,
                  collect=True, timeout=1800)
    neg = ctx.tlc("WordHistoryMC", "WordHistory_mc_impl.cfg", workers=1, expect_violation=True)
    ctx.extra["writeback_reader_refuted"] = neg["violated"]
    neg = ctx.tlc("WordHistoryMC", "WordHistory_mc_implxo.cfg", workers=1, expect_violation=True)
    ctx.extra["first_call_exclusion_set_reader_refuted"] = neg["violated"]
    cases = gen["cases"]
    if not cases:
        raise vlib.MachineryError("WordHistoryMC emitted no histories")
    ctx.extra["histories"] = len(cases)
    c0 = cases[len(cases) // 2]
    ctx.sample({"history_on_one_reader": [[c["op"], c["off"], c["mx"], c["xo"], c["levels"], c["eh"], c["ef"]] for c in c0["calls"]],
                "fmt": c0["fmt"]})
    res = ctx.run_driver(["c16", "history"], cases)
    _machinery(res)
    absorb(ctx, res, label="hist")
    # R3: random longer histories on random documents
    rec = ctx.run_driver(["c16", "histrecord"], [{"n": 6, "blocks": 10, "calls": 6 if q else 10} for _ in range(8 if q else 80)])
    _machinery(rec)
    events = []
    for r in rec:
        ctx.evaluations += r.get("evals", 0)
        events += r.get("events") or []
    if not events:
        raise vlib.MachineryError("history record driver logged no events")
    segs = sum(1 for e in events if e["event"] == "Open")
    ctx.extra["history_trace_events"] = len(events)
    tv = ctx.validate_trace("WordHistoryTrace", "WordHistoryTrace.cfg", events)
    if tv["accepted"]:
        ctx.traces_validated += segs
        return
    line = tv["depth"]
    ev = events[line - 1] if 0 < line <= len(events) else None
    if not ev or ev["event"] != "Call":
        raise vlib.MachineryError("WordHistoryTrace rejects event %d (%s): the history generator left the specification's "
                                  "document language" % (line, vlib.json.dumps(ev)[:400]))
    start = max(i for i in range(line) if events[i]["event"] == "Open")
    before = ["%s{%s}" % (e["op"], e.get("xo")) for e in events[start + 1:line - 1]]
    ctx.violation("C16:history-trace:%s:%s" % (events[start].get("fmt"), ev.get("op")),
                  "WordHistoryTrace rejects call %s(offset=%s, max=%s, exclude=%s) on a %s reader after %s: the heading levels read back "
                  "per block %s / the body paragraphs equal to the header and footer line it shows (%s, %s) are not what a freshly "
                  "opened reader presents for this call"
                  % (ev.get("op"), ev.get("off"), ev.get("mx"), ev.get("xo"), events[start].get("fmt"), before, ev.get("levels"),
                     ev.get("eh"), ev.get("ef")),
                  {"trace_segment": events[start:line], "rejected_line": line})


def replay(ctx, rp):
    r = rp.get("replay") or {}
    if isinstance(r.get("case"), dict) and r["case"].get("kind") == "history":
        return replay_generic(ctx, rp, ["c16", "history"])
    return replay_generic(ctx, rp, ["c16", "replay"])
