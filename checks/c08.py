"""C08 — fragment positions follow the PDF imaging model (GState.tla)."""
from lib import vlib
from checks.common import absorb, replay_generic

EVIDENCE = dict(
    level="model_checking",
    rule="cases = every reachable state of GState.tla over the operator alphabet (one state = one program, "
         "exhaustive to MaxLen) plus -simulate behaviours over the wide alphabet; each is replayed on "
         "graphicsstate.GraphicsState and through text.Extractor.ExtractFromBytes. Non-trivial = program with "
         ">= 2 cm operators or a Td/TD/T*/'/\" executed after a non-identity Tm; distinct by program text.",
    assumptions=["integer matrices only (exact in float64)", "glyph advance, TJ kerning and text rise are not modelled",
                 "TLC 1.8.0 and the CommunityModules Json module are trusted"],
)


def run(ctx):
    q = ctx.tier == "quick"
    # R1: exhaustive model check of the ISO machine (+ negative control: the
    # post-multiplying variant must be refuted)
    ctx.tlc("GStateMC", "GState_mc_quick.cfg" if q else "GState_mc_thorough.cfg")
    ctx.tlc("GStateMC", "GState_mc_impl.cfg", expect_violation=True)
    # R2: case emission and replay
    gen = ctx.tlc("GStateMC", "GState_gen_quick.cfg" if q else "GState_gen_thorough.cfg",
                  workers=1 if q else 8, collect=True, count=False, timeout=1800)
    cases = gen["cases"]
    ctx.exhaustive = True
    sim = ctx.tlc("GStateMC", "GState_sim.cfg", workers=1, simulate=300 if q else 6000, depth=40,
                  collect=True, count=False, timeout=1800)
    seen = set()
    simcases = []
    for c in sim["cases"]:
        k = vlib.json.dumps(c["prog"])
        if k not in seen:
            seen.add(k)
            simcases.append(c)
    if not cases or not simcases:
        raise vlib.MachineryError("TLC emitted no cases")
    ctx.extra["cases_exhaustive"] = len(cases)
    ctx.extra["cases_simulated"] = len(simcases)
    for c in (cases[len(cases) // 2], simcases[0]):
        ctx.sample({"prog": c["prog"], "expected_ctm": c["ctm"], "expected_fragments": c["out"]})
    absorb(ctx, ctx.run_driver(["c08", "replay"], cases + simcases))
    # R3: long random programs recorded from the real GraphicsState
    nseg, ln = (60, 40) if q else (1500, 60)
    reqs = [{"n": 10, "len": ln} for _ in range(nseg // 10)]
    rec = ctx.run_driver(["c08", "record"], reqs)
    events = [e for r in rec for e in r.get("events", [])]
    segs = sum(1 for e in events if e["event"] == "Reset")
    tv = ctx.validate_trace("GStateTrace", "GStateTrace.cfg", events)
    if tv["accepted"]:
        ctx.traces_validated += segs
        ctx.evaluations += segs
    else:
        line = tv["depth"]
        ev = events[line - 1] if 0 < line <= len(events) else None
        # find the segment start for the replay
        start = max(i for i in range(line) if events[i]["event"] == "Reset") if line > 0 else 0
        op = ev.get("op") if ev else "?"
        ctx.violation("C08:trace:" + str(op),
                      "GStateTrace rejects the recorded execution at event %d (%s): the state logged by the "
                      "real GraphicsState is not a successor the ISO machine allows" % (line, vlib.json.dumps(ev)),
                      {"trace_segment": events[start:line], "rejected_line": line})


def replay(ctx, rp):
    return replay_generic(ctx, rp, ["c08", "replay"])
