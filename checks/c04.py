"""C04 — object lookup returns the newest revision, in any access order (XrefHistory.tla)."""
from lib import vlib
from checks.common import absorb, replay_generic

NOTES = """Every generated file is a valid incremental-update chain: each revision's cross-reference section lists only
the objects it changes (7.5.6), compressed entries only occur in cross-reference streams (7.5.8), object-stream members
are non-stream objects (7.5.7), a freed object is live before it is freed, the length holder is a direct integer object
whose value never changes. Generation numbers other than 0/65535 and hybrid-reference files are not generated."""

EVIDENCE = dict(
    level="model_checking",
    rule="cases = every revision history TLC reaches for N=2 objects, <= 2 revisions (per revision: xref kind, per object "
         "keep/free/plain/instm/stream/streamref, length-holder placement) x 4 physical option sets; each rendered as a PDF and "
         "probed with every lookup sequence of length <= 2 (3 in thorough) over objects, length holder and cache clear on a fresh "
         "reader; thorough adds -simulate histories for N=3, 3 revisions. Every sequence also exists with two more steps: the deep resolution (Reader.ResolveDeep) of an index array that references every object of the history, and the lookup of that array, which must keep returning the references as the file spells them; and the lookup of every object stream ITSELF by its number before and after its members (a stream of type ObjStm with /N members and its data). Non-trivial = some object defined in >= 2 revisions or "
         "freed; distinct by (history, options).",
    assumptions=["pdfw (independent writer, self-audited) renders the history faithfully", "zlib is trusted"],
)


def run(ctx):
    q = ctx.tier == "quick"
    ctx.tlc("XrefHistoryMC", "XrefHistory_mc_quick.cfg" if q else "XrefHistory_mc_thorough.cfg", timeout=1800)
    ctx.tlc("XrefHistoryMC", "XrefHistory_mc_impl.cfg", expect_violation=True)
    gen = ctx.tlc("XrefHistoryMC", "XrefHistory_gen_quick.cfg", workers=1 if q else 4, collect=True, count=False)
    cases = gen["cases"]
    ctx.exhaustive = True
    if not cases:
        raise vlib.MachineryError("no histories emitted")
    if q:
        # quick: every history, one option set each (rotating), all option sets for a seeded sample
        import random
        rnd = random.Random(ctx.seed)
        byhist = {}
        for c in cases:
            byhist.setdefault(vlib.json.dumps(c["revs"]), []).append(c)
        sel = []
        for i, (h, cs) in enumerate(sorted(byhist.items())):
            sel.append(cs[(i + ctx.seed) % len(cs)])
            if rnd.random() < 0.1:
                sel += [x for x in cs if x is not sel[-1]]
        cases = sel
    ctx.extra["histories_replayed"] = len(cases)
    sim3 = []
    seen = set()
    sims = [("XrefHistory_sim6.cfg", 150 if q else 1500, 9)]       # long histories: up to 6 revisions of 3 objects
    if not q:
        sims.append(("XrefHistory_sim3.cfg", 3000, 6))
    for cfg, num, depth in sims:
        s = ctx.tlc("XrefHistoryMC", cfg, workers=1, simulate=num, depth=depth, collect=True, count=False, timeout=1800)
        for c in s["cases"]:
            k = vlib.json.dumps(c)
            if k not in seen:
                seen.add(k)
                sim3.append(c)
    ctx.extra["histories_simulated_n3"] = len(sim3)
    ctx.extra["histories_simulated_4plus_revisions"] = sum(1 for c in sim3 if len(c["revs"]) >= 4)
    ctx.sample(cases[len(cases) // 3])
    ctx.sample(cases[-1])
    res = absorb(ctx, ctx.run_driver(["c04", "replay"], cases))
    res3 = absorb(ctx, ctx.run_driver(["c04", "replay"], sim3)) if sim3 else []
    mach = [r for r in res + res3 if (r.get("sig") or "").startswith("MACHINERY")]
    if mach:
        raise vlib.MachineryError("writer failure: " + mach[0].get("what", ""))
    # R3: recorded lookup sequences against the spec's own Lookup action
    for results, cfg in ((res, "XrefHistoryTrace.cfg"), (res3, "XrefHistoryTrace3.cfg")):
        events = [e for r in results if r["ok"] for e in r.get("events", [])]
        for part in split_on_open(events, 60000):
            tv = ctx.validate_trace("XrefHistoryTrace", cfg, part)
            segs = sum(1 for e in part if e["event"] == "Open")
            if tv["accepted"]:
                ctx.traces_validated += segs
            else:
                line = tv["depth"]
                ev = part[line - 1] if 0 < line <= len(part) else None
                start = max(i for i in range(line) if part[i]["event"] == "Open") if line > 0 else 0
                ctx.violation("C04:trace", "XrefHistoryTrace rejects event %d (%s): the logged result is not what the newest-revision "
                              "rule yields" % (line, vlib.json.dumps(ev)), {"trace_segment": part[start:line]})


def split_on_open(events, size):
    part = []
    for e in events:
        if e["event"] == "Open" and len(part) >= size:
            yield part
            part = []
        part.append(e)
    if part:
        yield part


def replay(ctx, rp):
    return replay_generic(ctx, rp, ["c04", "replay"])
