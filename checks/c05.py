"""C05 — stream decoding exactly inverts every supported encoding (Filters.tla)."""
from lib import vlib
from checks.common import absorb, replay_generic

NOTES = """Conforming encoder output only: PNG rows carry independent filter types 0-4, Predictor in the dictionary is any
value >= 10 (10+type when uniform, 15 otherwise); TIFF predictor 2 with 8-bit components; ASCIIHex with upper/lower case
digits, interleaved white space, an omitted final 0 digit, with or without '>' (7.4.2 allows EOD '>' ... data without it is
tolerated by the statement's 'tolerating the end-of-data markers'); ASCII85 with 'z' for zero groups, a partial final group,
'~>' and interleaved white space. Undecodable: filter type 5, row-size mismatch, a non-hex digit, an ASCII85 character above
'u', and an ASCII85 group whose value exceeds 2^32-1 (7.4.3). BitsPerComponent other than 8 is not claimed."""

EVIDENCE = dict(
    level="model_checking",
    rule="cases = every (payload over a 4-byte alphabet, geometry, per-row filter types, pipeline, policy) FiltersMC.tla reaches "
         "(rows <= 2, row length <= 2, ASCII payloads <= 5 bytes) with encoded bytes computed by the spec and the reference's own "
         "round trip checked by TLC; -simulate adds wider geometries (row length <= 8, 4 rows, 11-byte alphabet); recorded large "
         "images (up to 64 KiB, rows up to 256 bytes, Colors 1-4) are validated row by row by FiltersTrace.tla. Non-trivial = a "
         "non-zero row filter type, a non-canonical policy or a chain; distinct by case record.",
    assumptions=["zlib (Go standard library) is trusted for deflate", "the harness's ASCII encoders are validated against the reference in every run"],
)


def run(ctx):
    q = ctx.tier == "quick"
    gen = ctx.tlc("FiltersMC", "Filters_quick.cfg", workers=1 if q else 8, collect=True, timeout=1800)
    # a second small alphabet whose values make the three Paeth distances tie (left 8 / above 11 / upper-left 10 ...)
    gen2 = ctx.tlc("FiltersMC", "Filters_quick_paeth.cfg", workers=1 if q else 8, collect=True, timeout=1800)
    gen["cases"] += gen2["cases"]
    cases = gen["cases"]
    ctx.exhaustive = True
    sim = ctx.tlc("FiltersMC", "Filters_sim.cfg", workers=1, simulate=2000 if q else 40000, depth=60, collect=True, count=False, timeout=1800)
    seen = set()
    for c in sim["cases"]:
        k = vlib.json.dumps(c)
        if k not in seen:
            seen.add(k)
            cases.append(c)
    ctx.extra["cases_exhaustive"] = len(gen["cases"])
    ctx.extra["cases_simulated"] = len(seen)
    if not gen["cases"] or not seen:
        raise vlib.MachineryError("no cases")
    ctx.sample([c for c in cases if c["kind"] == "png" and len(c["tags"]) == 2][5])
    ctx.sample([c for c in cases if c["kind"] == "a85" and len(c["x"]) >= 4][3])
    res = absorb(ctx, ctx.run_driver(["c05", "replay"], cases))
    if any((r.get("sig") or "").startswith("MACHINERY") for r in res):
        raise vlib.MachineryError("harness failure: " + [r for r in res if (r.get("sig") or "").startswith("MACHINERY")][0]["what"])
    # R3
    reqs = []
    n = 6 if q else 40
    for i in range(n):
        colors = 1 + i % 4
        cols = [64, 17, 256 // colors, 5][i % 4] if not q else [32, 17, 8, 5][i % 4]
        reqs.append({"rows": (24 if q else min(256, 65536 // (cols * colors))), "cols": cols, "colors": colors, "mode": i % 4})
    rec = absorb(ctx, ctx.run_driver(["c05", "record"], reqs))
    for r in rec:
        ev = r.get("events", [])
        if not ev:
            if r["ok"]:
                raise vlib.MachineryError("record produced no events")
            continue
        tv = ctx.validate_trace("FiltersTrace", "FiltersTrace.cfg", ev, timeout=1800)
        if tv["accepted"]:
            ctx.traces_validated += 1
        else:
            e = ev[tv["depth"] - 1] if 0 < tv["depth"] <= len(ev) else {}
            if e.get("event") == "Enc":
                raise vlib.MachineryError("the harness's %s encoder disagrees with Filters.tla on %s" % (e.get("filter"), e.get("x")))
            ctx.violation("C05:trace:%s:t%s:bpp=%s" % (e.get("event"), e.get("tag", "-"), e.get("bpp", e.get("colors", "-"))),
                          "FiltersTrace rejects a decoded row: the real decoder's output is not the reference decoding of the row "
                          "(tag %s, bytes per pixel %s)" % (e.get("tag"), e.get("bpp")), {"event": e})


def replay(ctx, rp):
    return replay_generic(ctx, rp, ["c05", "replay"])
