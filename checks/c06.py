"""C06 — PDF object syntax has one meaning for both parsers (PdfSyntax.tla)."""
from lib import vlib
from checks.common import absorb, replay_generic

NOTES = """Reading: every spelling PdfSyntax.Spell produces is legal by ISO 32000-1 7.2/7.3 (white-space set incl. NUL,
comments as white space, separators omitted only next to a delimiter, CR always escaped inside literal strings,
#-escapes in names, odd hex digit count). References are not content-stream operands (7.8.2): programs never contain
them and single objects containing one are only given to the document-level parser. Everything else must be accepted
by both parsers with the same value."""

EVIDENCE = dict(
    level="model_checking",
    rule="cases = (token sequence, spelling policy) pairs: every well-nested sequence TLC's pushdown generator reaches "
         "(leaf: full 41-leaf alphabet x 20 policies at <= 2 tokens; pair: 16 leaves x 6 ws policies at <= 3 tokens; deep: "
         "9 leaves x 6 policies, <= 4/5 tokens, depth 3) with bytes = Spell computed by TLC; plus random depth-4 trees "
         "spelled by the Go speller and validated against Spell by PdfSyntaxTrace. Leaves include a grid of 633 short decimals (read as one correctly rounded conversion) and strings / names whose value is the text of a keyword (stream, endstream, endobj, obj, R, null, false, xref, trailer, startxref). Non-trivial = policy other than "
         "(one space, literal strings, plain names); distinct by (tokens, policy).",
    assumptions=["integers beyond int64 and reals in exponent notation (not PDF syntax) are not generated",
                 "dictionary keys are distinct and ascending (core.Dict is a Go map, order is not observable)"],
)


def run(ctx):
    q = ctx.tier == "quick"
    cases = []
    for cfg in ["PdfSyntax_gen_leaf.cfg", "PdfSyntax_gen_pair.cfg", "PdfSyntax_gen_reals.cfg",
                "PdfSyntax_gen_deep_quick.cfg" if q else "PdfSyntax_gen_deep.cfg"]:
        g = ctx.tlc("PdfSyntaxMC", cfg, workers=1 if q else 4, collect=True, timeout=1800)
        if not g["cases"]:
            raise vlib.MachineryError("no cases from " + cfg)
        ctx.extra["cases_" + cfg.split("_gen_")[1].split(".")[0]] = len(g["cases"])
        cases += g["cases"]
    ctx.exhaustive = True
    ctx.sample({"toks": cases[100]["toks"], "pol": cases[100]["pol"], "bytes": bytes(cases[100]["bytes"]).decode("latin1")})
    ctx.sample({"toks": cases[-1]["toks"], "pol": cases[-1]["pol"], "bytes": bytes(cases[-1]["bytes"]).decode("latin1")})
    absorb(ctx, ctx.run_driver(["c06", "replay"], cases))
    # R3: random deep trees, Go speller validated against Spell
    n = 300 if q else 4000
    rec = ctx.run_driver(["c06", "record"], [{"n": 50} for _ in range(n // 50)])
    absorb(ctx, rec)
    events = [e for r in rec for e in r.get("events", [])]
    for part in vlib.chunks(events, 1000):
        tv = ctx.validate_trace("PdfSyntaxTrace", "PdfSyntaxTrace.cfg", part)
        if tv["accepted"]:
            ctx.traces_validated += len(part)
        else:
            ev = part[tv["depth"] - 1] if 0 < tv["depth"] <= len(part) else None
            if ev is not None and ev.get("ok"):
                # bytes differ from Spell(toks, pol): the harness's own speller is wrong
                raise vlib.MachineryError("Go speller disagrees with PdfSyntax.Spell on %s" % vlib.json.dumps(ev)[:600])
            # ok = false: a parser did not return the written tree; already reported by the driver result
            if not any(not r["ok"] for r in rec):
                raise vlib.MachineryError("trace rejected without a driver-side failure: %s" % vlib.json.dumps(ev)[:600])


def replay(ctx, rp):
    return replay_generic(ctx, rp, ["c06", "replay"])
