"""C02 — no input can crash, hang or exhaust the process (Faults.tla, ParserLoop.tla, GraphWalk.tla)."""
from lib import vlib
from checks.common import absorb, replay_generic

NOTES = """'Bounded' = 20 s without progress and a 6 GiB address-space cap for documents of a few KiB (two to three orders of
magnitude above what the valid document needs). Outcomes are observed from outside the process: a recovered panic is "panic",
a dead child is "abort", a stalled child is "timeout"; only "value" and "error" are steps of Faults.tla. The fault catalogue is
the structural one of the property text (truncate at token boundaries, numeric fields set to 0 / -1 / 2^31 / 2^63-1, references
retargeted to self / an ancestor / a missing object, objects or ZIP members dropped or duplicated, delimiters unbalanced,
compressed data corrupted). Coverage-guided byte mutation is a different technique and is not done."""

EVIDENCE = dict(
    level="model_checking",
    rule="(1) every token stream of <= 4 (thorough 5) tokens over {name,int,<<,>>,[,],lone '>'} from ParserLoop.tla through "
         "core.Parser / contentstream.Parser, each followed by an operator, by white space and the end of the data, and by the end of the data at once; (1b) every sequence of <= 3 CMap section keywords / hex tokens / counts / brackets from CMapRobust.tla, with and without white space between them, through font.ParseToUnicodeCMap and a lookup; (2) every reference graph on 3 nodes from GraphWalk.tla rendered as a /Kids tree and a "
         "/Prev chain and walked by every entry point incl. ResolveDeep; (3) Faults.tla: every (format, fault kind, site selector, "
         "parameter) single fault over 10 base documents (4 PDF layouts: classic table / xref+object streams / PNG-predicted streams incl. predicted xref streams / TIFF-predicted streams; DOCX, ODT, XLSX, PPTX, EPUB, HTML), every numeric field x 4 extreme values - rewritten in the finished file ('number') and replaced before the file is laid out so that all offsets and lengths stay consistent ('field') - and what sits inside the streams ('payload': every token boundary of every page content part, ToUnicode program and embedded font program cut there, cut with a white-space character left, or one token removed, the file laid out around the damaged payload) - including the fields inside encoded streams: every number of every object-stream header and every field of every cross-reference-stream row, rebuilt by the writer - and every reference x 3 retargets at every site; thorough adds "
         "truncation at every token boundary and -simulate double faults; each damaged input goes through 11-20 public entry "
         "points (for PDF also the three text modes PreserveLayout / ByColumn / JoinParagraphs, ReadingOrder, Paragraphs, Headings / Lists / Blocks / IsMultiColumn) inside watched child processes. ParserLoop / GraphWalk are checked for Termination under weak fairness, their "
         "pinned variants refuted. Recorded Call events validated by FaultsTrace.tla. Non-trivial = input actually damaged.",
    assumptions=["a dead or stalled child process is attributed to the case it announced last", "zlib/zip/xml of the Go standard library are in the trusted base"],
)


def run(ctx):
    q = ctx.tier == "quick"
    ctx.extra_prefixes = ["c20", "docs_"]
    ctx.tlc("ParserLoop", "ParserLoop_mc.cfg")
    ctx.tlc("ParserLoop", "ParserLoop_mc_impl.cfg", expect_violation=True)
    ctx.tlc("GraphWalk", "GraphWalk_mc.cfg")
    ctx.tlc("GraphWalk", "GraphWalk_mc_impl.cfg", expect_violation=True)
    ctx.tlc("Faults", "Faults_mc.cfg")
    toks = ctx.tlc("RobustMC", "Robust_gen_quick.cfg" if q else "Robust_gen.cfg", workers=1, collect=True, count=False)["cases"]
    graphs = ctx.tlc("GraphWalkMC", "GraphWalk_gen.cfg", workers=1, collect=True, count=False)["cases"]
    faults = ctx.tlc("FaultsMC", "Faults_gen_quick.cfg" if q else "Faults_gen_thorough.cfg", workers=1, collect=True, count=False)["cases"]
    k = 6 if q else 16
    cases = []
    seen = set()
    for t in toks:
        key = vlib.json.dumps(t)
        if key not in seen:
            seen.add(key)
            cases.append({"toks": t["toks"], "bad": t.get("bad", "gt"), "ends": t.get("ends", ["op"])})
    for g in graphs:
        cases.append({"graph": g["graph"]})
    # token streams for the third parser, the ToUnicode CMap reader: every sequence of <= 3 section keywords, hex tokens,
    # counts and brackets, with and without white space between two of them
    cm_seen = set()
    for t in ctx.tlc("CMapRobust", "CMapRobust_gen.cfg", workers=1, collect=True, count=False)["cases"]:
        key = vlib.json.dumps(t)
        if key not in cm_seen:
            cm_seen.add(key)
            cases.append({"cmaptoks": t["cmaptoks"], "tight": t["tight"]})
    ctx.extra["cmap_token_streams"] = len(cm_seen)
    for sp in ("lenstm", "len2cycle",        # cycles that run through stream /Length entries
               "ladder-kids", "ladder-dict",   # acyclic graphs that are not trees: 2^28 paths through 28 levels
               "xref-index-odd", "xref-w000",  # /Index of odd length; zero-width entries x 2^31 announced entries
               "ttf-segments",                 # an embedded font whose cmap repeats the whole code range 32767 times
               "count-size-huge",              # page count and trailer /Size both huge (a bound taken from the other field)
               "xml-case-shrink"):             # XHTML whose head holds letters that get shorter (or longer) in UTF-8 when case-folded
        cases.append({"special": sp})
    for f in faults:
        cases.append({"fmt": f["fmt"], "faults": f["faults"], "k": k})
    # numeric fields: every site of every base document, every extreme value (sizes, counts, widths, offsets)
    for fmt in ("pdf-classic", "pdf-stream", "pdf-png", "pdf-tiff", "pdf-ttf", "docx", "odt", "xlsx", "pptx", "epub", "html"):
        for val in ("0", "-1", "2147483648", "9223372036854775807"):
            cases.append({"fmt": fmt, "faults": [{"kind": "number", "site": 0, "param": val}], "all": True})
    # ... the same fields replaced before the file is laid out (offsets and lengths stay consistent with the bytes)
    for fmt in ("pdf-classic", "pdf-stream", "pdf-png", "pdf-tiff", "pdf-ttf"):
        for val in ("0", "-1", "2147483648", "9223372036854775807"):
            cases.append({"fmt": fmt, "faults": [{"kind": "field", "site": 0, "param": val}], "all": True})
    # ... and the numeric fields inside encoded streams: object-stream headers, cross-reference-stream rows
    for fmt in ("pdf-stream", "pdf-png", "pdf-ttf"):
        for val in ("0", "-1", "2147483648", "9223372036854775807"):
            cases.append({"fmt": fmt, "faults": [{"kind": "instream", "site": 0, "param": val}], "all": True})
    # ... and what sits inside the streams: every token boundary of every page content part, ToUnicode program and font program
    if q:
        pl = [("pdf-classic", "cut"), ("pdf-classic", "cutsp"), ("pdf-stream", "drop"), ("pdf-ttf", "cut"), ("pdf-ttf", "cutsp"), ("pdf-ttf", "drop")]
    else:
        pl = [(f, d) for f in ("pdf-classic", "pdf-stream", "pdf-png", "pdf-tiff", "pdf-ttf") for d in ("cut", "cutsp", "drop")]
    # ... and the numbers inside the streams (operands of the page content, counts and codes of the CMap programs)
    if q:
        pl += [("pdf-classic", "num=2147483648"), ("pdf-classic", "num=900719925474099"), ("pdf-ttf", "num=9223372036854775807")]
    else:
        pl += [(f, "num=" + v) for f in ("pdf-classic", "pdf-stream", "pdf-png", "pdf-tiff", "pdf-ttf")
               for v in ("-1", "2147483648", "9223372036854775807", "900719925474099")]
    for fmt, dmg in pl:
        cases.append({"fmt": fmt, "faults": [{"kind": "payload", "site": 0, "param": dmg}], "all": True})
    for fmt in ("pdf-classic", "pdf-stream", "pdf-png", "pdf-tiff"):
        for tgt in ("self", "ancestor", "missing"):
            cases.append({"fmt": fmt, "faults": [{"kind": "retarget", "site": 0, "param": tgt}], "all": True})
    if not q:
        for fmt in ("pdf-classic", "pdf-stream", "pdf-png", "pdf-tiff", "html"):
            cases.append({"fmt": fmt, "faults": [{"kind": "truncate", "site": 0, "param": "-"}], "all": True})
        for fmt in ("pdf-classic", "pdf-stream", "pdf-png", "pdf-tiff"):
            for kind in ("unbalance", "dropobj", "corruptstream"):
                cases.append({"fmt": fmt, "faults": [{"kind": kind, "site": 0, "param": "-"}], "all": True})
        sim = ctx.tlc("FaultsMC", "Faults_sim.cfg", workers=1, simulate=3000, depth=3, collect=True, count=False)["cases"]
        s2 = set()
        for f in sim:
            key = vlib.json.dumps(f)
            if len(f["faults"]) == 2 and key not in s2:
                s2.add(key)
                cases.append({"fmt": f["fmt"], "faults": f["faults"], "k": 16})
        ctx.extra["double_faults"] = len(s2)
    if not toks or not graphs or not faults:
        raise vlib.MachineryError("no cases")
    ctx.exhaustive = True
    ctx.extra.update(token_streams=len(toks), graphs=len(graphs), single_faults=len(faults))
    ctx.sample(cases[len(toks) // 2])
    ctx.sample(cases[len(toks) + 5])
    ctx.sample(cases[-1])
    res = absorb(ctx, ctx.run_driver(["c02", "replay"], cases, timeout=6000))
    mach = [r for r in res if (r.get("sig") or "").startswith("MACHINERY")]
    if mach:
        raise vlib.MachineryError(mach[0]["what"])
    events = [e for r in res if r["ok"] for e in r.get("events", [])]
    for part in split_on(events, "Case", 40000):
        tv = ctx.validate_trace("FaultsTrace", "FaultsTrace.cfg", part, timeout=1800)
        if tv["accepted"]:
            ctx.traces_validated += sum(1 for e in part if e["event"] == "Case")
        else:
            ev = part[tv["depth"] - 1] if 0 < tv["depth"] <= len(part) else None
            ctx.violation("C02:trace", "FaultsTrace rejects %s" % vlib.json.dumps(ev), {"event": ev})


def split_on(events, name, size):
    part = []
    for e in events:
        if e["event"] == name and len(part) >= size:
            yield part
            part = []
        part.append(e)
    if part:
        yield part


def replay(ctx, rp):
    ctx.extra_prefixes = ["c20", "docs_"]
    return replay_generic(ctx, rp, ["c02", "replay"])
