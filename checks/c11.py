"""C11 — header/footer exclusion removes only repeated marginal text (HeaderFooter.tla)."""
from lib import vlib
from checks.common import absorb, replay_generic

NOTES = """Band = 72 pt from the page edge (the documented default); generated fragments sit well inside one band (header y=760/740,
footer y=40/25, body y<=700+10 on a 792 pt page), so the threshold itself is never probed. Allowed removals: margin-band fragments
whose text (modulo digits) repeats at the same band and position on another page, or page-number patterns. Mandatory removals: a
margin line present at the same position on EVERY page of a >= 2 page document, in the band(s) the option requests (with
ExcludeHeaders alone bottom-band removals are permitted, not required). Odd/even headers are permitted, not mandatory. With
identical lines on one page the public-API comparison accepts any embedding that is legal (the outputs are indistinguishable)."""

EVIDENCE = dict(
    level="model_checking",
    rule="cases = all 2304 generated documents (1-4 pages; running header none/all/odd-even; page number none/'Page N'/bare; footer "
         "line; repeating body line; numeric body line; body line equal to the header; title; short last page) x 3 options; for "
         "each the real code's removals per page are judged by the contract's guard FilterOK (allowed/mandatory sets computed by "
         "TLC), through layout.HeaderFooterDetector, through tabula.Open(..).Pages(p).Exclude*().Text() and through the other page-rendering operations of the fluent API, each of which has its own header/footer pass (Lines, Paragraphs, ReadingOrder, Analyze, Blocks, Elements, Document, ToMarkdown: one per page and case in quick, all in thorough; what an operation removes is read off the occurrence counts of each fragment text with and without the option); for documents whose pages share one content extent the detector also runs on the pages in top-down coordinates that overflow the page height; the recorded Filter "
         "events are validated by HeaderFooterTrace.tla. Non-trivial = some fragment is removable.",
    assumptions=["pdfdoc.BuildSimple places each fragment on its own line", "text identity is used to recognise fragments in Text() output"],
)


def run(ctx):
    q = ctx.tier == "quick"
    gen = ctx.tlc("HeaderFooterMC", "HeaderFooter_gen.cfg", workers=1 if q else 4, collect=True)
    seen, cases = set(), []
    for c in gen["cases"]:
        k = vlib.json.dumps(c, sort_keys=True)
        if k not in seen:
            seen.add(k)
            cases.append(c)
    if not cases:
        raise vlib.MachineryError("no cases")
    ctx.exhaustive = True
    if q:
        # quick: option 'both' for every document, the single options for a seeded third
        import random
        rnd = random.Random(ctx.seed)
        cases = [c for c in cases if c["opt"] == "both" or rnd.random() < 0.34]
    ctx.extra["documents_x_options"] = len(cases)
    ctx.sample(cases[len(cases) // 2])
    res = absorb(ctx, ctx.run_driver(["c11", "replay"], cases))
    mach = [r for r in res if (r.get("sig") or "").startswith("MACHINERY")]
    if mach:
        raise vlib.MachineryError(mach[0]["what"])
    events = [e for r in res if r["ok"] for e in r.get("events", [])]
    for part in split_on(events, "Doc", 30000):
        tv = ctx.validate_trace("HeaderFooterTrace", "HeaderFooterTrace.cfg", part)
        if tv["accepted"]:
            ctx.traces_validated += sum(1 for e in part if e["event"] == "Doc")
        else:
            ev = part[tv["depth"] - 1] if 0 < tv["depth"] <= len(part) else None
            ctx.violation("C11:trace", "HeaderFooterTrace rejects %s" % vlib.json.dumps(ev), {"event": ev})


def split_on(events, name, size):
    part = []
    for e in events:
        if e["event"] == name and len(part) >= size:
            yield part
            part = []
        part.append(e)
    if part:
        yield part


def replay(ctx, rp):
    return replay_generic(ctx, rp, ["c11", "replay"])
