"""C15 — Markdown output keeps table, heading and list structure (Markdown.tla, DocModel.tla)."""
from concurrent.futures import ThreadPoolExecutor
from lib import vlib
from checks.common import absorb, replay_generic

NOTES = """
Interpretation choices (soundness first):
* "Reads back as the same rows x columns of cell texts": cell texts are compared as word sequences (white space
  collapsed, cells trimmed): a newline inside a cell cannot survive in a pipe table, so "x\\ny" may come out as
  "x y" or "x<br>y"; " padded " is "padded"; a cell "a|b" must read back as the single word a|b.  GFM rules:
  header row + delimiter row with the same number of cells, "\\|" is a literal pipe, short body rows are padded
  and long ones truncated by the parser (so a shifted cell shows up as a wrong cell text).
* Merged cells: the grid keeps its nr x nc shape, the text of the merged cell is at its anchor, positions it
  covers are free (empty or a repeat - the statement does not say).  Merges that cover a whole row or a whole
  column are not generated for markup formats (HTML/DOCX/ODT/PPTX), where such a grid is debatable.
* Header marking of the source is a generated dimension of every table (none / first row / first two / first
  three / a row that is not at the top / all rows), expressed per format: DOCX rows with w:tblHeader, ODT rows
  wrapped in table:table-header-rows (a run of marked rows per wrapper), HTML thead with 1..3 rows, rows of th
  cells in the body, several tbody, a tfoot for the last row, model.Cell.IsHeader, PPTX firstRow (none/first
  only), XLSX (no header notion: none/first only).  Whatever the source marks, the contract is C15's: the same
  rows x columns read back, i.e. exactly one delimiter row directly after the first line.  Wrappers / row groups
  are not placed where they would cut a merged cell (HTML and ODF table models); thead after tbody is not
  generated (non-conforming HTML, presentation-dependent row order).
* Documents are sequences of blocks (family S): every sequence of 2-3 blocks of kinds table / heading / list /
  paragraph with at least one table, plus three 4-block ones - tables next to each other (two and three in a
  row), next to every other block kind, first and last.  Every source table must read back as its OWN pipe
  table (GFM block separation: a blank line or another block between two tables).  Per format: consecutive
  w:tbl (no paragraph between), consecutive table:table, adjacent <table>, several graphic frames on one slide
  AND one table per consecutive slide, one sheet per table, adjacent model.Table elements.  The tables of one
  document have different cell words (row numbers shifted by `off`).  Not generated: two lists in a row
  (Markdown cannot keep two adjacent lists of the same marker apart; the property is about items) and a
  table nested in a table cell (a pipe table cannot nest; what the outer cell should then hold is not stated).
* Repeated content (families R, RX): documents of 2..MaxRepeat headings over two texts in which a heading text
  occurs again (same / other level, next to its twin / apart, same / other parent, with and without paragraphs
  between, TOC on and off), and documents in which a paragraph, a list item, a table cell or a later heading
  repeats a heading's text.  Elements are therefore matched in document order: the n-th source heading with a
  text is the n-th ATX heading with that text, its level must be the expected one, no text may come out as a
  heading more often than in the source, and a word must occur in the output at least as often as in the
  source elements rendered.  Table-of-contents entries ([text](#anchor) list items) are not source list items.
* Ragged tables (family G): rows with differing numbers of cells - a first row narrower than the rest (a one-cell
  caption row without a span), a first row wider, a short row in the middle or at the end - as ODT rows with
  fewer cells, DOCX rows with fewer w:tc than the grid, HTML rows with fewer / more cells than the first row,
  model.Table with uneven rows (directly and through the rag pipeline).  Expected: rows x widest-row columns,
  every existing cell in its row and column; the positions a short row lacks are free (whatever the writer pads
  with).  A trailing colspan is the merged-cell dimension.  Not generated: a row without any cell (no text to
  keep; ODF forbids it) and ragged PPTX / XLSX tables (every a:tr has one a:tc per grid column; a sheet has
  no short rows).
* A header-less table may use its first row as the Markdown header row (GFM has no header-less table); what is
  required is that the grid reads back with the same rows once.
* Heading level = clamp(level + offset, 1, min(max, 6)) for max in 1..6 (the statement's range; max = 0 "unset"
  is not exercised).  HTML has h1..h6 only, so levels 7..9 go through the writers whose model has them (rag
  document pipeline, rag chunk, DOCX/ODT heading styles).  Sheet names (XLSX) and slide titles (PPTX) are
  synthesised headings without a source level: their level is not asserted.
* Lists: depth is read with the rule "an item is nested in the open items whose marker indent + 2 it reaches"
  (CommonMark-exact for "- " bullets, lenient for "1. " parents where CommonMark needs 3 spaces): two-space
  indentation under an ordered parent is accepted.  Numbering values are not asserted, only ordered/unordered.
  Siblings of one (sub)list share the kind; writers whose input model has one kind per list (model.List,
  layout.List) only get uniform lists.
* Purity of rendering (MdHistory.tla): a reader is a state machine whose calls (Markdown, MarkdownWithRAGOptions
  with heading offset/max/front matter/TOC, Text, Document; navigation-exclusion modes none/explicit/standard/
  aggressive) must each return what a freshly opened reader returns for the same options - no call may change
  what the reader holds.  Histories of 2-4 calls are run on ONE htmldoc.Reader, ONE tabula Extractor over an
  HTML / DOCX / ODT file (the facade fixes the navigation mode per operation, calls it cannot express are left
  out of the history), ONE docx.Reader and ONE odt.Reader.  Only <nav> is used as excluded content (excluded by
  every mode but "none"); what is excluded is not asserted, only that visible elements keep their structure.
  For Document calls the heading level of the model is the source level; for Text calls only the words.
* Extra blocks a writer adds (document title, front matter, table of contents, separators, page references,
  sheet/slide headings) are ignored; every source word must be present in the output.
"""

EVIDENCE = dict(
    level="model_checking",
    rule="cases = every document of MarkdownMC: tables <= 3x3 with <= MaxSpecial special cells (a|b, x\\ny, empty, "
         "padded) at every position x six header markings of the source (none, first, first two, first three, a middle row, "
         "all rows; per format: w:tblHeader, table-header-rows, thead/th/tbody/tfoot, IsHeader, firstRow) x every fitting "
         "2-cell/4-cell merge, small tables over the full "
         "cell alphabet, block sequences (every 2-3 block sequence over table/heading/list/paragraph with a table, tables "
         "adjacent to each other and to every other kind, first and last), ragged tables (every row-width vector over "
         "2..3 x 2..3 with a full and a short row, header marking none/first), repeated content (every heading sequence of "
         "<= MaxRepeat over 2 texts x 2 levels with a repeated text, with/without paragraphs, TOC on/off; paragraph / "
         "item / cell / heading repeating a heading text), 540 heading cases (9 levels x offsets -2..7 x max 1..6), every well-formed list shape <= 5 items "
         "x depth <= 3 x kinds, 24 combined documents (front matter, TOC, offsets) - enumerated by TLC with the expected "
         "parsed-back structure computed by Markdown.tla; each is rendered by every tabula Markdown writer that can express "
         "it and parsed back by the harness's GFM reader (itself validated on the spec's reference rendering of every case). "
         "Non-trivial = table with a special cell / merge / no header, heading with offset != 0, nested list; distinct by "
         "case hash x writer.  Random larger documents are validated by MarkdownTrace.tla.  Histories: every sequence of <= MaxLen "
         "calls over a call alphabet (Markdown/Text/Document x navigation modes, RAG options offset x max) from MdHistoryMC, "
         "each run on one reader object per target (htmldoc.Reader, Extractor over HTML/DOCX/ODT file, docx.Reader, odt.Reader) "
         "and compared call by call with the fresh-reader expectation; non-trivial = >= 2 calls executed; random longer "
         "histories validated by MdHistoryTrace.tla.",
    assumptions=["cell texts are compared up to white space (see NOTES)",
                 "list depth by the marker-indent + 2 rule; numbering values not asserted",
                 "the harness's GFM reader is trusted after agreeing with Markdown.tla's reader on every reference rendering",
                 "container files (DOCX/ODT/XLSX/PPTX) are minimal hand-written ZIP/XML packages",
                 "TLC 1.8.0 and the CommunityModules Json module are trusted"],
)

WRITERS = ["model.Table", "rag", "rag-chunk", "htmldoc", "layout", "docx", "odt", "xlsx", "pptx"]


def dedupe(cases):
    seen, out = set(), []
    for c in cases:
        k = vlib.json.dumps(c, sort_keys=True)
        if k not in seen:
            seen.add(k)
            out.append(c)
    return out


def run(ctx):
    q = ctx.tier == "quick"
    # R1 + R2 generation: invariants (RoundTrip, HeadingLevelOK, PrefixStable) and case emission in one exhaustive run
    # the negative controls and the history model run side by side with the large enumeration
    pool = ThreadPoolExecutor(max_workers=8)
    side = [pool.submit(ctx.tlc, "MarkdownMC", "Markdown_mc_impl_%s.cfg" % v, expect_violation=True, workers=2,
                        extra=["-noGenerateSpecTE"]) for v in ("esc", "hdr", "hdrlast", "merge", "sep", "dedup", "width")]
    side.append(pool.submit(ctx.tlc, "MdHistoryMC", "MdHistory_mc_impl.cfg", expect_violation=True, workers=2,
                            extra=["-noGenerateSpecTE"]))
    hruns = [pool.submit(ctx.tlc, "MdHistoryMC", cfg, workers=4, collect=True, timeout=1800, count=False)
             for cfg in (["MdHistory_mc_quick.cfg"] if q else ["MdHistory_mc_thorough.cfg", "MdHistory_mc_wide.cfg"])]
    gen = ctx.tlc("MarkdownMC", "Markdown_mc_quick.cfg" if q else "Markdown_mc_thorough.cfg", workers=8,
                  collect=True, timeout=3000)
    for f in side:
        f.result()              # re-raises the MachineryError of a control that was not refuted
    ctx.hist_runs = [f.result() for f in hruns]
    pool.shutdown()
    for r in ctx.hist_runs:      # counted here, in one thread
        ctx.states += r["distinct"]
        ctx.transitions += r["generated"]
    cases = dedupe(gen["cases"])
    if not cases:
        raise vlib.MachineryError("MarkdownMC emitted no cases")
    ctx.exhaustive = True
    kinds = {}
    for c in cases:
        kinds[c["kind"]] = kinds.get(c["kind"], 0) + 1
    ctx.extra["cases_by_kind"] = kinds
    # the GFM reader on the reference rendering of every case
    ref = ctx.run_driver(["c15", "replay"], [dict(c, writer="ref") for c in cases])
    bad = [r for r in ref if not r["ok"]]
    if bad:
        raise vlib.MachineryError("the harness's GFM reader disagrees with Markdown.tla: %s" % bad[0].get("what"))
    ctx.extra["reader_reference_cases"] = len(ref)
    for c in cases:
        if c["kind"] == "T" and c["els"][0]["merged"] and c["els"][0]["nr"] == 2 and c["els"][0]["nc"] == 3:
            ctx.sample({"table_src": [[x["raw"] for x in row] for row in c["els"][0]["src"]],
                        "expected_grid": c["exp"][0]["grid"], "reference_markdown": c["ref"]})
            break
    for c in cases:
        if c["kind"] == "H" and c["off"] == 3 and c["mx"] == 4 and c["els"][0]["level"] == 2:
            ctx.sample({"heading_level": 2, "offset": 3, "max": 4, "expected_atx_level": c["exp"][0]["level"]})
    for c in cases:
        if c["kind"] == "L" and len(c["els"][0]["items"]) == 4 and c["els"][0]["items"][3]["d"] == 2:
            ctx.sample({"list_items": c["els"][0]["items"], "reference_markdown": c["ref"]})
            break
    # every writer on every case
    work = [dict(c, writer=w) for c in cases for w in WRITERS]
    res = ctx.run_driver(["c15", "replay"], work)
    res = [r for r in res if r.get("evals")]          # runs the writer could not express are not evaluations
    for r in res:
        r["key"] = "%s/%s" % (r.get("key"), work[r["case"]]["writer"])
    absorb(ctx, res)
    per = {}
    for r in res:
        w = work[r["case"]]["writer"]
        per[w] = per.get(w, 0) + (r.get("evals") or 0)
    ctx.extra["writer_runs"] = per

    # R3: random larger documents, per writer, validated by MarkdownTrace.tla
    nreq, nseg = (4, 12) if q else (32, 60)
    rec = ctx.run_driver(["c15", "record"], [{"n": nseg, "writers": WRITERS} for _ in range(nreq)])
    byw = {}
    for r in rec:
        for e in r.get("events", []):
            byw.setdefault(e.get("writer", "?"), []).append(e)
    if not byw:
        raise vlib.MachineryError("record driver logged no events")
    # one run over everything first; only a rejected trace is split by writer to find every rejected event
    allev = [dict((k, v) for k, v in e.items() if k != "md") for w in sorted(byw) for e in byw[w]]
    if ctx.validate_trace("MarkdownTrace", "MarkdownTrace.cfg", allev)["accepted"]:
        ctx.traces_validated += len(allev)
        ctx.evaluations += len(allev)
        byw_iter = []
    else:
        byw_iter = sorted(byw.items())
    for w, evs in byw_iter:
        rest = [dict((k, v) for k, v in e.items() if k != "md") for e in evs]
        mds = [e.get("md") for e in evs]
        runs = 0
        while rest and runs < (4 if q else 12):
            runs += 1
            tv = ctx.validate_trace("MarkdownTrace", "MarkdownTrace.cfg", rest)
            if tv["accepted"]:
                ctx.traces_validated += len(rest)
                ctx.evaluations += len(rest)
                rest = []
                break
            d = tv["depth"]
            if d < 1 or d > len(rest):
                raise vlib.MachineryError("trace validation of %s stopped at an impossible depth %d" % (w, d))
            ev = rest[d - 1]
            ctx.traces_validated += d - 1
            ctx.evaluations += d
            el = ev.get("el", {})
            ctx.violation("C15:trace:%s:%s" % (w, el.get("t", "error")),
                          "MarkdownTrace rejects what %s wrote for a %s (offset %s, max %s): read back %s%s"
                          % (w, el.get("t"), ev.get("off"), ev.get("mx"), vlib.json.dumps(ev.get("got")),
                             (" error " + ev["err"]) if "err" in ev else ""),
                          {"event": ev, "markdown": mds[len(mds) - len(rest) + d - 1]})
            rest = rest[d:]
    ctx.extra["trace_events_by_writer"] = dict((w, len(v)) for w, v in byw.items())
    histories(ctx, q)
    ctx.notes.append(NOTES)


HIST_TARGETS = ["htmldoc", "htmlfile", "docx", "docxfile", "odt", "odtfile"]


def histories(ctx, q):
    """Purity of rendering (MdHistory.tla): histories of calls on ONE reader; every call must return what the
    specification says a freshly opened reader returns for its options."""
    # R1: every history up to MaxLen over the call alphabet keeps Purity / CacheFaithful; the write-back reader is refuted
    cases = []
    for r in ctx.hist_runs:
        cases += r["cases"]
    cases = dedupe(cases)
    if not cases:
        raise vlib.MachineryError("MdHistoryMC emitted no histories")
    ctx.extra["histories"] = len(cases)
    c0 = cases[len(cases) // 3]
    ctx.sample({"history_on_one_reader": [dict((k, c[k]) for k in ("op", "nav", "off", "mx")) for c in c0["calls"]],
                "expected_heading_levels_per_call": [[b["level"] for b in c["exp"] if b["t"] == "heading"] for c in c0["calls"]]})
    # R2: the histories on one htmldoc.Reader, one Extractor over an HTML/DOCX/ODT file, one docx.Reader, one odt.Reader
    work = [dict(c, writer=w) for c in cases for w in HIST_TARGETS]
    res = [r for r in ctx.run_driver(["c15", "history"], work) if r.get("evals")]
    for r in res:
        r["key"] = "hist/%s/%s" % (r.get("key"), work[r["case"]]["writer"])
    absorb(ctx, res)
    # R3: random longer histories with random options, validated by MdHistoryTrace.tla
    nreq, nseg = (4, 40) if q else (16, 120)
    rec = ctx.run_driver(["c15", "histrecord"], [{"n": nseg, "targets": HIST_TARGETS} for _ in range(nreq)])
    events = [e for r in rec for e in r.get("events", [])]
    if not events:
        raise vlib.MachineryError("history record driver logged no events")
    rest = events
    runs = 0
    while rest and runs < (4 if q else 12):
        runs += 1
        tv = ctx.validate_trace("MdHistoryTrace", "MdHistoryTrace.cfg",
                                [dict((k, v) for k, v in e.items() if k not in ("md", "target")) for e in rest])
        if tv["accepted"]:
            ctx.traces_validated += sum(1 for e in rest if e["event"] == "Open")
            ctx.evaluations += sum(1 for e in rest if e["event"] == "Call")
            break
        d = tv["depth"]
        if d < 1 or d > len(rest):
            raise vlib.MachineryError("history trace validation stopped at an impossible depth %d" % d)
        start = max(i for i in range(d) if rest[i]["event"] == "Open")
        ev = rest[d - 1]
        ctx.traces_validated += sum(1 for e in rest[:start] if e["event"] == "Open")
        before = ["%s(nav=%s,off=%s,max=%s)" % (e.get("op"), e.get("nav"), e.get("off"), e.get("mx")) for e in rest[start + 1:d - 1]]
        ctx.violation("C15:trace-impure:%s" % rest[start].get("target"),
                      "MdHistoryTrace rejects call %s(nav=%s, offset=%s, max=%s) on a %s reader after %s: heading levels read back %s%s"
                      % (ev.get("op"), ev.get("nav"), ev.get("off"), ev.get("mx"), rest[start].get("target"), before,
                         ev.get("levels"), (" error " + ev["err"]) if "err" in ev else ""),
                      {"trace_segment": rest[start:d], "rejected_line": d})
        nxt = [i for i in range(d, len(rest)) if rest[i]["event"] == "Open"]
        rest = rest[nxt[0]:] if nxt else []
    ctx.extra["history_trace_events"] = len(events)


def replay(ctx, rp):
    return replay_generic(ctx, rp, ["c15", "replay"])
