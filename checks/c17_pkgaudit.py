"""Independent audit of the packages the Go writer (harness/internal/ooxmlw) produces,
with python's zipfile and xml.etree only (shares no code with the writer or with tabula).
Used by checks/c17.py and checks/c18.py on a handful of sample cases per run; a failed
audit is a machinery error (exit 2), never a violation."""
import posixpath, zipfile
import urllib.parse
import xml.etree.ElementTree as ET

NS_REL = "{http://schemas.openxmlformats.org/package/2006/relationships}"
NS_CT = "{http://schemas.openxmlformats.org/package/2006/content-types}"
NS_MAIN = "{http://schemas.openxmlformats.org/spreadsheetml/2006/main}"
NS_R = "{http://schemas.openxmlformats.org/officeDocument/2006/relationships}"
NS_P = "{http://schemas.openxmlformats.org/presentationml/2006/main}"
NS_A = "{http://schemas.openxmlformats.org/drawingml/2006/main}"
NS_OPF = "{http://www.idpf.org/2007/opf}"
NS_OCF = "{urn:oasis:names:tc:opendocument:xmlns:container}"
NS_XHTML = "{http://www.w3.org/1999/xhtml}"
NS_NCX = "{http://www.daisy.org/z3986/2005/ncx/}"


STRICT = {
    NS_MAIN: "{http://purl.oclc.org/ooxml/spreadsheetml/main}",
    NS_R: "{http://purl.oclc.org/ooxml/officeDocument/relationships}",
    NS_P: "{http://purl.oclc.org/ooxml/presentationml/main}",
    NS_A: "{http://purl.oclc.org/ooxml/drawingml/main}",
}


def _ns(ns, strict):
    return STRICT[ns] if strict else ns


class AuditError(Exception):
    pass


def _need(cond, msg):
    if not cond:
        raise AuditError(msg)


def _open(path, members):
    z = zipfile.ZipFile(path)
    _need(z.testzip() is None, "zip CRC error")
    names = z.namelist()
    _need(names == list(members), "member order differs: %r vs %r" % (names, members))
    _need(len(set(names)) == len(names), "duplicate member names")
    docs = {}
    for n in names:
        if n.endswith((".xml", ".rels", ".xhtml", ".opf", ".ncx")):
            try:
                docs[n] = ET.fromstring(z.read(n))
            except ET.ParseError as e:
                raise AuditError("%s is not well-formed XML: %s" % (n, e))
    return z, names, docs


def _resolve(source_part, target):
    """OPC: resolve a relationship target against the source part."""
    if target.startswith("/"):
        return posixpath.normpath(target[1:])
    return posixpath.normpath(posixpath.join(posixpath.dirname(source_part), target))


def _rels(docs, part):
    d = posixpath.dirname(part)
    rp = posixpath.join(d, "_rels", posixpath.basename(part) + ".rels") if part else "_rels/.rels"
    if rp not in docs:
        return {}
    out = {}
    for r in docs[rp].findall(NS_REL + "Relationship"):
        _need(r.get("Id") not in out, "duplicate relationship id %s in %s" % (r.get("Id"), rp))
        out[r.get("Id")] = (r.get("Type"), _resolve(part, r.get("Target")))
    return out


def _opc_common(names, docs, main_part, absent=(), strict=False):
    _need("[Content_Types].xml" in docs and "_rels/.rels" in docs, "missing OPC infrastructure")
    ct = docs["[Content_Types].xml"]
    defaults = {d.get("Extension") for d in ct.findall(NS_CT + "Default")}
    overrides = {o.get("PartName") for o in ct.findall(NS_CT + "Override")}
    for o in overrides:
        _need(o[1:] in names, "content type override for missing part %s" % o)
    for n in names:
        if n == "[Content_Types].xml":
            continue
        _need("/" + n in overrides or n.rsplit(".", 1)[-1] in defaults, "no content type for %s" % n)
    root = _rels(docs, "")
    mains = [t for (ty, t) in root.values() if ty.endswith("/officeDocument")]
    _need(mains == [main_part], "root relationship does not name %s" % main_part)
    fam = "http://purl.oclc.org/ooxml/" if strict else "http://schemas.openxmlformats.org/officeDocument/2006/"
    for ty, _ in root.values():
        if ty.endswith("/officeDocument"):
            _need(ty.startswith(fam), "officeDocument relationship type %s is not of the %s family" % (ty, fam))
    # every relationship target of every part exists
    for n in names:
        if n.endswith(".rels"):
            continue
        for rid, (ty, t) in _rels(docs, n).items():
            _need(t in names or t in absent, "%s: relationship %s targets missing part %s" % (n, rid, t))


def audit_xlsx(path, members, declared=None, cells=None, absent=(), strict=False):
    """declared: expected list of (sheet name, part name) in workbook order.
    cells: per declared sheet, sorted list of 'REF=kind=content'."""
    z, names, docs = _open(path, members)
    _opc_common(names, docs, "xl/workbook.xml", absent, strict)
    NS_MAIN, NS_R = _ns(globals()["NS_MAIN"], strict), _ns(globals()["NS_R"], strict)
    _need(docs["xl/workbook.xml"].tag == NS_MAIN + "workbook" and (docs["xl/workbook.xml"].get("conformance") == "strict") == strict, "workbook root / conformance attribute")
    for a in absent:
        _need(a not in names, "%s should be absent from the archive" % a)
    wb = docs["xl/workbook.xml"]
    rels = _rels(docs, "xl/workbook.xml")
    got = []
    sst = None
    for ty, t in rels.values():
        if ty.endswith("/sharedStrings"):
            sst = ["".join(x.text or "" for x in si.iter(NS_MAIN + "t")) for si in docs[t].findall(NS_MAIN + "si")]
    seen_ids = set()
    for sh in wb.find(NS_MAIN + "sheets"):
        rid = sh.get(NS_R + "id")
        _need(rid in rels and rels[rid][0].endswith("/worksheet"), "sheet %s has no worksheet relationship" % sh.get("name"))
        _need(sh.get("sheetId") not in seen_ids, "duplicate sheetId")
        seen_ids.add(sh.get("sheetId"))
        got.append((sh.get("name"), rels[rid][1]))
    if declared is not None:
        _need(got == [tuple(x) for x in declared], "declared sheets %r, wanted %r" % (got, declared))
    if cells is not None:
        for (name, part), want in zip(got, cells):
            have = []
            ws = docs[part]
            for row in ws.find(NS_MAIN + "sheetData"):
                for c in row:
                    t = c.get("t", "n")
                    v = c.find(NS_MAIN + "v")
                    f = c.find(NS_MAIN + "f")
                    isel = c.find(NS_MAIN + "is")
                    if t == "s":
                        _need(sst is not None and int(v.text) < len(sst), "shared index out of range")
                        txt = sst[int(v.text)]
                    elif t == "inlineStr":
                        txt = "".join(x.text or "" for x in isel.iter(NS_MAIN + "t"))
                    elif v is not None:
                        txt = v.text
                    else:
                        txt = ""
                    if row.get("r") is not None:
                        _need(c.get("r").lstrip("ABCDEFGHIJKLMNOPQRSTUVWXYZ") == row.get("r"), "cell %s in row %s" % (c.get("r"), row.get("r")))
                    have.append((c.get("r"), txt, f is not None))
            wantset = sorted((w.split("=")[0], w.split("=", 2)[2]) for w in want)
            _need(sorted((r, t) for r, t, _ in have) == wantset, "%s: cells %r, wanted %r" % (part, sorted(have), wantset))
            _need(len({r for r, _, _ in have}) == len(have), "%s: duplicate cell reference" % part)
    return True


def audit_pptx(path, members, declared=None, absent=(), strict=False):
    """declared: expected list of (part name, token) in slide-list order."""
    z, names, docs = _open(path, members)
    _opc_common(names, docs, "ppt/presentation.xml", absent, strict)
    NS_P, NS_R, NS_A = _ns(globals()["NS_P"], strict), _ns(globals()["NS_R"], strict), _ns(globals()["NS_A"], strict)
    _need(docs["ppt/presentation.xml"].tag == NS_P + "presentation" and (docs["ppt/presentation.xml"].get("conformance") == "strict") == strict, "presentation root / conformance attribute")
    for a in absent:
        _need(a not in names, "%s should be absent from the archive" % a)
    pr = docs["ppt/presentation.xml"]
    rels = _rels(docs, "ppt/presentation.xml")
    got = []
    ids = set()
    for sld in pr.find(NS_P + "sldIdLst"):
        rid = sld.get(NS_R + "id")
        _need(rid in rels and rels[rid][0].endswith("/slide"), "sldId without slide relationship")
        _need(int(sld.get("id")) >= 256 and sld.get("id") not in ids, "bad or duplicate sldId id")
        ids.add(sld.get("id"))
        part = rels[rid][1]
        if part in absent:
            got.append((part, None))
            continue
        text = " ".join(t.text or "" for t in docs[part].iter(NS_A + "t"))
        lay = [t for (ty, t) in _rels(docs, part).values() if ty.endswith("/slideLayout")]
        _need(len(lay) == 1, "%s has no slide layout relationship" % part)
        got.append((part, text))
    masters = [t for (ty, t) in rels.values() if ty.endswith("/slideMaster")]
    _need(len(masters) == 1, "no slide master")
    if declared is not None:
        _need([p for p, _ in got] == [p for p, _ in declared], "declared slides %r, wanted %r" % (got, declared))
        for (p, text), (_, tok) in zip(got, declared):
            _need(text is None or tok in text, "%s does not carry %s" % (p, tok))
    return True


def audit_epub(path, members, declared=None, absent=(), nroots=None):
    """declared: expected list of (member name, token) in spine order."""
    z, names, docs = _open(path, members)
    _need(names[0] == "mimetype", "mimetype is not the first member")
    info = z.getinfo("mimetype")
    _need(info.compress_type == zipfile.ZIP_STORED and z.read("mimetype") == b"application/epub+zip", "mimetype not stored / wrong")
    _need(not info.extra, "mimetype entry has an extra field")
    rf = docs["META-INF/container.xml"].find(NS_OCF + "rootfiles").findall(NS_OCF + "rootfile")
    _need(len(rf) >= 1 and all(r.get("full-path") in names for r in rf), "rootfile missing")
    if nroots is not None:
        _need(len(rf) == nroots, "container lists %d rootfiles, wanted %d" % (len(rf), nroots))
    pk = [r for r in rf if r.get("media-type") == "application/oebps-package+xml"]
    _need(pk, "no package-document rootfile")
    # the default rendition is the FIRST package document listed; the others must at least be sound packages
    for other in pk[1:]:
        o = docs[other.get("full-path")]
        ob = posixpath.dirname(other.get("full-path"))
        items = {it.get("id"): it for it in o.find(NS_OPF + "manifest")}
        for it in items.values():
            m = posixpath.normpath(posixpath.join(ob, urllib.parse.unquote(it.get("href"))))
            _need(m in names or m in absent, "%s: manifest item -> missing member %s" % (other.get("full-path"), m))
        for ir in o.find(NS_OPF + "spine"):
            _need(ir.get("idref") in items, "%s: bad idref" % other.get("full-path"))
    opf_path = pk[0].get("full-path")
    opf = docs[opf_path]
    base = posixpath.dirname(opf_path)
    man = {}
    for it in opf.find(NS_OPF + "manifest"):
        _need(it.get("id") not in man, "duplicate manifest id")
        href = it.get("href")
        _need(" " not in href, "unencoded space in href")
        member = posixpath.normpath(posixpath.join(base, urllib.parse.unquote(href)))
        _need(member in names or member in absent, "manifest item %s -> missing member %s" % (it.get("id"), member))
        man[it.get("id")] = (member, it.get("media-type"), it.get("properties") or "")
    _need(len({m for m, _, _ in man.values()}) == len(man), "two manifest items share a resource")
    spine = opf.find(NS_OPF + "spine")
    got = []
    refs = set()
    for ir in spine:
        _need(ir.get("idref") in man and ir.get("idref") not in refs, "bad or repeated idref")
        refs.add(ir.get("idref"))
        member = man[ir.get("idref")][0]
        _need(man[ir.get("idref")][1] == "application/xhtml+xml", "spine item is not XHTML")
        if member in absent:
            _need(member not in names, "%s should be absent from the archive" % member)
            got.append((member, None))
            continue
        text = " ".join(t.strip() for t in docs[member].find(NS_XHTML + "body").itertext())
        got.append((member, text))
    ver = opf.get("version")
    navs = [i for i, (m, mt, pr) in man.items() if "nav" in pr.split()]
    ncxs = [i for i, (m, mt, pr) in man.items() if mt == "application/x-dtbncx+xml"]
    if ver.startswith("3"):
        _need(len(navs) == 1, "EPUB 3 needs exactly one nav document")
        nav = docs[man[navs[0]][0]]
        hrefs = [a.get("href") for a in nav.iter(NS_XHTML + "a")]
        targets = [posixpath.normpath(posixpath.join(posixpath.dirname(man[navs[0]][0]), urllib.parse.unquote(h))) for h in hrefs]
        _need(targets == [m for m, _ in got], "nav order differs from the spine")
    else:
        _need(len(ncxs) == 1 and spine.get("toc") == ncxs[0], "EPUB 2 needs an NCX named by spine/@toc")
    for n in ncxs:
        srcs = [c.get("src") for c in docs[man[n][0]].iter(NS_NCX + "content")]
        targets = [posixpath.normpath(posixpath.join(posixpath.dirname(man[n][0]), urllib.parse.unquote(h))) for h in srcs]
        _need(targets == [m for m, _ in got], "NCX order differs from the spine")
    if declared is not None:
        _need([m for m, _ in got] == [m for m, _ in declared], "spine %r, wanted %r" % (got, declared))
        for (m, text), (_, tok) in zip(got, declared):
            _need(text is None or tok in text, "%s does not carry %s" % (m, tok))
    return True
