"""C03 — determinism and freedom from cross-call interference
(ParseIsolation.tla, Determinism.tla)."""
import glob, os
from lib import vlib
from checks.common import absorb, replay_generic

EVIDENCE = dict(
    level="model_checking",
    rule="(1) every behaviour of ParseIsolation.tla for 2 processes x 1 call x streams <= 2 tokens (exhaustive) and "
         "-simulate behaviours for 3 processes x 2 calls x streams <= 4 tokens is replayed on real contentstream.Parser "
         "goroutines gated by the verif hook; non-trivial = schedule with >= 1 context switch or >= 2 calls in a process. "
         "(2) histories of extractions of generated documents of every format (each alone in a fresh process / after others / after failing inputs / "
         "concurrent under the race detector) validated by DeterminismTrace.tla; distinct by schedule / history seed. The documents include operation families on ONE object: "
         "one low-level reader and one extractor asked several times and in several page orders (handle-*, incl. tabula.FromReader and multi-revision "
         "files with object streams), selections forked from one base (fork-*), one path rewritten (swap-*), and one chunk collection rendered and "
         "exported repeatedly (coll-*: each operation alone, twice, and after each other operation).",
    assumptions=["real-goroutine schedules outside the gated parser are sampled, not enumerated",
                 "the Go race detector is an observation device"],
)


def run(ctx):
    q = ctx.tier == "quick"
    ctx.extra_prefixes = ["docs_"]   # document generators registered for the history driver
    # R1
    ctx.tlc("ParseIsolationMC", "ParseIsolation_mc_quick.cfg" if q else "ParseIsolation_mc.cfg", timeout=1800)
    ctx.tlc("ParseIsolationMC", "ParseIsolation_mc_impl.cfg", expect_violation=True)
    ctx.tlc("DeterminismMC", "Determinism_mc.cfg")
    # R2: schedules
    gen = ctx.tlc("ParseIsolationMC", "ParseIsolation_gen.cfg", workers=1, collect=True, count=False)
    sim = ctx.tlc("ParseIsolationMC", "ParseIsolation_sim.cfg", workers=1, simulate=300 if q else 5000, depth=60,
                  collect=True, count=False, timeout=1800)
    seen, cases = set(), []
    for c in gen["cases"] + sim["cases"]:
        k = vlib.json.dumps(c, sort_keys=True)
        if k not in seen:
            seen.add(k)
            cases.append(c)
    if len(gen["cases"]) == 0 or len(sim["cases"]) == 0:
        raise vlib.MachineryError("no schedules emitted")
    ctx.exhaustive = True
    ctx.extra["schedules_exhaustive"] = len(gen["cases"])
    ctx.extra["schedules_simulated"] = len(cases) - len(gen["cases"])
    ctx.sample(cases[len(gen["cases"]) // 2])
    ctx.sample(cases[-1])
    res = absorb(ctx, ctx.run_driver(["c03", "sched"], cases))
    ctx.extra["control_flow_mismatch_cases"] = sum(1 for r in res if r.get("what", "").startswith("control-flow"))
    # R3: histories under the race detector
    racelog = os.path.join(ctx.scratch, "race")
    reqs = [{"rounds": 3 if q else 6, "goroutines": 4 if q else 8} for _ in range(1 if q else 4)]
    hres = ctx.run_driver(["c03", "history"], reqs, race=True,
                          env={"GORACE": "log_path=%s exitcode=0 halt_on_error=0" % racelog})
    absorb(ctx, hres)
    races = glob.glob(racelog + "*")
    events = []
    for r in hres:
        events += r.get("events", [])
    if races:
        txt = open(races[0]).read()
        events.append({"event": "Race", "doc": "-", "op": "-", "g": 0})
        where = [l.strip() for l in txt.splitlines() if "/repo/" in l or "tabula/" in l][:6]
        ctx.violation("C03:race", "the Go race detector reported a data race during concurrent extractions: %s" % " | ".join(where),
                      {"race_report": txt[:6000]})
    ctx.extra["history_events"] = len(events)
    # trace validation in slices (one TLC run per history keeps memo small)
    for r in hres:
        ev = r.get("events", [])
        if not ev:
            if not r["ok"]:
                continue       # the history aborted the process (already reported as a violation)
            raise vlib.MachineryError("history driver recorded no events")
        tv = ctx.validate_trace("DeterminismTrace", "DeterminismTrace.cfg", ev + ([{"event": "Race", "doc": "-", "op": "-", "g": 0}] if races else []))
        if tv["accepted"]:
            ctx.traces_validated += 1
        elif r["ok"] and not races:
            line = tv["depth"]
            ctx.violation("C03:determinism-trace", "DeterminismTrace rejects the history at event %d: %s" % (line, vlib.json.dumps(ev[line - 1] if 0 < line <= len(ev) else None)),
                          {"rejected_line": line, "events_before": ev[max(0, line - 5):line]})
    ctx.sample({"history_event": events[1] if len(events) > 1 else None})


def replay(ctx, rp):
    return replay_generic(ctx, rp, ["c03", "sched"])
