"""C07 — character codes decode to the Unicode the font specifies (FontDecode.tla, EncTables.tla)."""
from lib import vlib
from checks.common import absorb, replay_generic

NOTES = """Tables: an entry of EncTables.tla is asserted only where the reference is unambiguous (see tools/gen_enctables.py):
WinAnsi/MacRoman upper halves come from python's codecs and are cross-checked against golang.org/x/text charmap at run time,
minus the documented PDF deviations and undefined codes; PDFDocEncoding/StandardEncoding follow ISO 32000-1 Annex D; Symbol and
ZapfDingbats assert a handful of entries only. CMaps: codes have the width of the code space, entries are disjoint, a bfrange
string target increments its last UTF-16 unit, array targets are taken verbatim; outputs are compared after NFC (the reference
composes the generated combining pairs). Mixed-width code spaces and usecmap are not generated."""

EVIDENCE = dict(
    level="model_checking",
    rule="cases = all 6 x 256 (encoding, code) pairs; all ToUnicode CMaps of <= 2 entries (bfchar / bfrange with string target / "
         "bfrange with array) over 5 target kinds (BMP, non-ASCII, supplementary plane, 3-character expansion, base+combining) for "
         "widths 1-2 x 5 formatting policies, program text rendered by the spec; -simulate adds 3 entries, widths 1-4, 9 targets; "
         "UTF-16BE/LE strings <= 3 code points from a boundary set; precedence cases (ToUnicode over encoding, BOM over encoding). "
         "Random byte strings through every decoder are validated by FontDecodeTrace (reference decoding, valid UTF-8, NFC). "
         "CMap targets include a letter and a combining mark as targets of codes of their own: NFC runs over the whole decoded string (generated pair table, closed under composition). Font dictionaries (FontDict.tla): every way of writing /Encoding (absent, name, dictionary with / without /BaseEncoding, direct or by reference, with or without /Differences) for Type1 and TrueType, through the font constructors and a one-page document. Non-trivial = asserted table entry, or any CMap/UTF-16 case; distinct by case record.",
    assumptions=["golang.org/x/text norm is the NFC oracle of the output invariant", "hand-transcribed Annex D tables (PDFDoc, Standard)"],
)


def run(ctx):
    q = ctx.tier == "quick"
    gen = ctx.tlc("FontDecodeMC", "FontDecode_gen.cfg", workers=1 if q else 4, collect=True)
    cases = gen["cases"]
    ctx.exhaustive = True
    sim = ctx.tlc("FontDecodeMC", "FontDecode_sim.cfg", workers=1, simulate=1500 if q else 30000, depth=12, collect=True, count=False, timeout=1800)
    seen = set()
    for c in sim["cases"]:
        k = vlib.json.dumps(c)
        if k not in seen:
            seen.add(k)
            cases.append(c)
    if not gen["cases"] or not seen:
        raise vlib.MachineryError("no cases")
    ctx.extra["cases_exhaustive"] = len(gen["cases"])
    ctx.extra["cases_simulated"] = len(seen)
    cm = [c for c in cases if c["kind"] == "cmap"]
    ctx.sample({"kind": "cmap", "program": bytes(cm[7]["program"]).decode("latin1"), "codes": cm[7]["codes"], "expect": cm[7]["expect"]})
    ctx.sample([c for c in cases if c["kind"] == "utf16"][9])
    res = absorb(ctx, ctx.run_driver(["c07", "replay"], cases))
    # font dictionaries: which base encoding the dictionary of a simple font selects (FontDict.tla)
    fdc = ctx.tlc("FontDict", "FontDict_gen.cfg", workers=1, collect=True)["cases"]
    if not fdc:
        raise vlib.MachineryError("no font dictionary cases")
    ctx.extra["font_dictionaries"] = len(fdc)
    res += absorb(ctx, ctx.run_driver(["c07", "fontdict"], fdc))
    # one resource name bound to two fonts in one extraction (the page's /F1 and the /F1 of a form's own resources)
    t1 = [c for c in fdc if c["st"] == "Type1" and c["sp"] in ("name", "absent") and not c["indirect"] and not c["diffs"]]
    pairs = [{"A": a, "B": b} for a in t1 for b in t1 if a["effective"] != b["effective"]]
    ctx.extra["font_rebindings"] = len(pairs)
    res += absorb(ctx, ctx.run_driver(["c07", "rebind"], pairs))
    mach = [r for r in res if (r.get("sig") or "").startswith("MACHINERY")]
    if mach:
        raise vlib.MachineryError(mach[0]["what"])
    # R3
    asserted = {}
    for c in gen["cases"]:
        if c["kind"] == "table" and c["expect"] != 0:
            asserted.setdefault(c["enc"], []).append(c["code"])
    reqs = [{"enc": e, "asserted": sorted(a), "n": 40 if q else 600} for e, a in sorted(asserted.items())]
    rec = absorb(ctx, ctx.run_driver(["c07", "record"], reqs))
    for r in rec:
        ev = r.get("events", [])
        if not ev:
            raise vlib.MachineryError("no events")
        tv = ctx.validate_trace("FontDecodeTrace", "FontDecodeTrace.cfg", ev)
        if tv["accepted"]:
            ctx.traces_validated += 1
        elif r["ok"]:
            e = ev[tv["depth"] - 1] if 0 < tv["depth"] <= len(ev) else {}
            ctx.violation("C07:trace:%s" % e.get("enc", e.get("event")), "FontDecodeTrace rejects the recorded decoding %s" % vlib.json.dumps(e)[:500], {"event": e})


def replay(ctx, rp):
    return replay_generic(ctx, rp, ["c07", "replay"])
