SPECIFICATION Spec
CONSTANTS
  Cases <- RepCases
  Expand <- McExpand
  Esc = "escape"
  Header = "first"
  Merge = "grid"
  Sep = "each"
  Dedup = "seen"
  Width = "widest"
  MaxSpecial = 1
  FullCells = 0
  MaxRepeat = 2
INVARIANTS RoundTrip
CHECK_DEADLOCK FALSE
