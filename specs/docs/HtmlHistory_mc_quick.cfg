SPECIFICATION HSpec
CONSTANTS
  Opens = {}
  Forms = {}
  Alpha = "full"
  MaxLen = 0
  MaxDepth = 100
  Lax = FALSE
  DocPlans <- HPlans
  HCalls <- HCallsQ
  HMaxLen = 3
  Verdicts = "permode"
INVARIANTS HPurity HContract WellNested ContentModelOK Lattice
CONSTRAINT EmitHist
CHECK_DEADLOCK FALSE
