SPECIFICATION Spec
CONSTANTS
  Codec = "bijective"
  Place = "byref"
  Window = 3
  WindowRows = 3
  MergeMode = "all"
  Ordered = TRUE
  Offsets <- Off00
  Rects <- WindowRects
  MaxCells = 9
  MaxMerges = 1
  MaxSheets = 1
  KindSeq <- KindsAll
  Rots = {1}
  Layouts <- LayMerge
INVARIANTS TypeOK PlacedByRef FunctionLike MergeBlank RootShown
CONSTRAINT Emit
CHECK_DEADLOCK FALSE
