SPECIFICATION Spec
CONSTANTS
  Codec = "bijective"
  Place = "byref"
  Window = 3
  Offsets <- OffSmall
  Rects <- FewRects
  MaxCells = 3
  MaxMerges = 1
  MaxSheets = 2
  Rots <- RotStep2
  Layouts <- LayAll
CONSTRAINT Emit
CHECK_DEADLOCK FALSE
