SPECIFICATION Spec
CONSTANTS
  Codec = "bijective"
  Place = "byref"
  Window = 3
  WindowRows = 3
  MergeMode = "all"
  Ordered = FALSE
  Offsets <- OffSmall
  Rects <- FewRects
  MaxCells = 3
  MaxMerges = 1
  MaxSheets = 2
  KindSeq <- KindsAll
  Rots = {0, 5}
  Layouts <- LayAll
CONSTRAINT Emit
CHECK_DEADLOCK FALSE
