--------------------------- MODULE HtmlHistoryTrace ---------------------------
(* Trace validation for HtmlHistory: the driver builds a random document from   *)
(* the specification's alphabet (Reset / Open / Text / Close events replayed by  *)
(* the HtmlWalk machine), opens ONE htmldoc.Reader on it and makes a random      *)
(* sequence of calls in random mode order; every HCall carries the tokens that   *)
(* came back.  The results of one reader must satisfy the walker contract in     *)
(* whatever order they were asked for, and repeating a (view, mode) must repeat  *)
(* the result (TraceSeen).                                                       *)
EXTENDS HtmlHistory

Trace == ndJsonDeserialize("trace.ndjson")

VARIABLES l,
          seen      \* results so far on this reader: set of [view, mode, out]

tvars == <<hvars, l, seen>>

Ev == Trace[l]

TraceInit == /\ Init /\ verd = {} /\ hist = <<>> /\ l = 1 /\ seen = {}

TraceReset ==
    /\ l <= Len(Trace) /\ Ev.event = "Reset" /\ l' = l + 1
    /\ stack' = <<Body>> /\ stream' = <<>> /\ toks' = <<>> /\ linky' = {}
    /\ nel' = 0 /\ cost' = 0 /\ outs' = <<>>
    /\ verd' = {} /\ hist' = <<>> /\ seen' = {}

Keep == UNCHANGED <<verd, hist, seen>>

TraceOpen ==
    /\ l <= Len(Trace) /\ Ev.event = "Open" /\ l' = l + 1 /\ seen = {}
    /\ \/ Ev.d \in FullAlphabet /\ FreeOpen(Ev.d)
       \/ Top.planned /\ Top.plan # <<>> /\ Head(Top.plan) = Ev.d /\ PlanStep
    /\ Keep

TraceText ==
    /\ l <= Len(Trace) /\ Ev.event = "Text" /\ l' = l + 1 /\ seen = {}
    /\ Ev.form \in AllForms
    /\ \/ FreeText(Ev.form)
       \/ Top.planned /\ Top.plan # <<>> /\ Head(Top.plan) = TextDesc(Ev.form) /\ PlanStep
    /\ Keep

TraceClose ==
    /\ l <= Len(Trace) /\ Ev.event = "Close" /\ l' = l + 1 /\ seen = {}
    /\ Close /\ Keep

\* a result for (view, m) is compatible with everything this reader returned before
TraceSeen(view, m, obs) ==
    /\ W4(obs)
    /\ m = "none" => W1(obs)
    /\ \A s \in seen : s.view = view =>
          /\ s.mode = m => s.out = obs
          /\ Weaker(s.mode, m) => IsSubseq(obs, s.out)
          /\ Weaker(m, s.mode) => IsSubseq(s.out, obs)
          /\ s.mode = "none" => W3(m, obs, s.out)
          /\ m = "none" => W3(s.mode, s.out, obs)

TraceHCall ==
    /\ l <= Len(Trace) /\ Ev.event = "HCall" /\ l' = l + 1
    /\ Complete
    /\ Ev.mode \in {"none", "explicit", "standard", "aggressive"}
    /\ TraceSeen(Ev.view, Ev.mode, Ev.toks)
    /\ seen' = seen \cup {[view |-> Ev.view, mode |-> Ev.mode, out |-> Ev.toks]}
    /\ UNCHANGED <<vars, verd, hist>>

TraceNext == TraceReset \/ TraceOpen \/ TraceText \/ TraceClose \/ TraceHCall

TraceSpec == TraceInit /\ [][TraceNext]_tvars

TraceAccepted == TLCGet("stats").diameter - 1 = Len(Trace)
=============================================================================
