SPECIFICATION MCSpec
CONSTANTS
  OrderBy = "convention"
  Chain = "first"
  Decode = "path"
  Packages = {}
  K = 3
  Fmts = {"xlsx"}
  Wide = "neg"
INVARIANTS TypeOK ValidPackage DeclaredPrefix DeclaredOrder OwnPage
CHECK_DEADLOCK FALSE
