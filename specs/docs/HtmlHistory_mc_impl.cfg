SPECIFICATION HSpec
CONSTANTS
  Opens = {}
  Forms = {}
  Alpha = "full"
  MaxLen = 0
  MaxDepth = 100
  Lax = FALSE
  DocPlans <- HPlans
  HCalls <- HCallsQ
  HMaxLen = 2
  Verdicts = "bynode"
INVARIANTS HPurity

CHECK_DEADLOCK FALSE
