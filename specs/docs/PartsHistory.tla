----------------------------- MODULE PartsHistory -----------------------------
(***************************************************************************)
(* C18 - renderings are calls on ONE reader.  pptx.Open / epubdoc.Open     *)
(* resolve the declaration chain once and keep the parts in declared       *)
(* order; Text, TextWithOptions, Markdown, MarkdownWithOptions,            *)
(* MarkdownWithRAGOptions, Document, the counts, the per-slide /           *)
(* per-chapter accessors and the EPUB table of contents render from what   *)
(* the reader holds.                                                       *)
(*                                                                         *)
(* The state the property talks about is the sequence of parts the reader  *)
(* holds: Expected(pkg) - declared, present, in declared order.  A call    *)
(* presents the parts it selects (PPTX slide selection, one part for the   *)
(* accessors, all otherwise) in that order and must not change anything:   *)
(*   Purity       every call presents what the same call presents on a      *)
(*                freshly opened reader, whatever was called before         *)
(*   HeldFaithful the reader still holds the declared present parts         *)
(*                                                                         *)
(* Cache = "writeback" is the implementation-shaped reader whose text       *)
(* renderer keeps the slide selection it was given as the reader's slide    *)
(* list; TLC must refute Purity for it (TextWithOptions with a selection,   *)
(* then Text).                                                             *)
(***************************************************************************)
EXTENDS PartsOrder

CONSTANTS HPackages, \* the packages histories run on
          Calls,     \* [op, sel, opt]
          MaxLen,
          Cache      \* "pure" | "writeback"

VARIABLES held,      \* ids of the parts the reader holds, in order
          hist

hvars == <<vars, held, hist>>

SelOps == {"textopt", "mdopt"}

\* the positions a call selects; an empty selection means all; PPTX only has slide selection
Positions(H, c) ==
    IF c.op = "part" THEN SelectSeq(c.sel, LAMBDA i : i \in 1..Len(H))
    ELSE IF c.op \in SelOps /\ pkg.fmt = "pptx" /\ c.sel # <<>> THEN SelectSeq(c.sel, LAMBDA i : i \in 1..Len(H))
    ELSE [i \in 1..Len(H) |-> i]
View(H, c) == IF c.op = "toc" THEN <<>> ELSE [k \in 1..Len(Positions(H, c)) |-> H[Positions(H, c)[k]]]

HInit == /\ pkg \in HPackages /\ pages = <<>> /\ pos = 0
         /\ held = Expected(pkg) /\ hist = <<>>

DoCall(c) ==
    /\ held' = IF Cache = "writeback" /\ c.op = "textopt" /\ pkg.fmt = "pptx" /\ c.sel # <<>> THEN View(held, c) ELSE held
    /\ hist' = Append(hist, [call |-> c, view |-> View(held, c), count |-> Len(held)])
    /\ UNCHANGED vars

HNext == \E c \in Calls : /\ Len(hist) < MaxLen
                          /\ (c.op = "toc" => pkg.fmt = "epub")
                          /\ DoCall(c)

HSpec == HInit /\ [][HNext]_hvars

Purity       == \A n \in 1..Len(hist) : /\ hist[n].view = View(Expected(pkg), hist[n].call)
                                        /\ hist[n].count = Len(Expected(pkg))
HeldFaithful == held = Expected(pkg)
HTypeOK      == Len(hist) <= MaxLen /\ WellFormed(pkg)
=============================================================================
