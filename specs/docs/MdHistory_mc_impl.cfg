SPECIFICATION Spec
CONSTANTS
  Docs <- McDocs
  Calls <- McCalls
  MaxLen = 2
  Cache = "writeback"
  Wide = FALSE
INVARIANTS Purity
CHECK_DEADLOCK FALSE
