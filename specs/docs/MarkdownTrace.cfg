SPECIFICATION TraceSpec
CONSTANTS
  Cases = {}
  Expand <- NoDoc
  Esc = "escape"
  Header = "first"
  Merge = "grid"
POSTCONDITION TraceAccepted
CHECK_DEADLOCK FALSE
