SPECIFICATION TraceSpec
CONSTANTS
  Cases = {}
  Expand <- NoDoc
  Esc = "escape"
  Header = "first"
  Merge = "grid"
  Sep = "each"
  Dedup = "none"
  Width = "widest"
POSTCONDITION TraceAccepted
CHECK_DEADLOCK FALSE
