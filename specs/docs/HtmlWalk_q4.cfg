SPECIFICATION GenSpec
CONSTANTS
  Opens <- AlphaSet
  Forms = {"plain", "amp", "num"}
  Alpha = "q4"
  MaxLen = 3
  MaxDepth = 5
INVARIANTS Lattice WellNested ContentModelOK DocOrder RefOK
CONSTRAINT Emit
CHECK_DEADLOCK FALSE
