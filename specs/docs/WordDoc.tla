------------------------------- MODULE WordDoc -------------------------------
(***************************************************************************)
(* C16 - word-processor documents (DOCX / ODT) keep their order and        *)
(* structure.                                                              *)
(*                                                                         *)
(* A document is a body = sequence of blocks                               *)
(*    P  (children)                 paragraph                              *)
(*    H  (children, lvl, how)       heading, level 1.., declared by        *)
(*                                  how \in {builtin, custom1, custom2,    *)
(*                                  outline} (built-in heading style, a    *)
(*                                  custom style basedOn it directly / in  *)
(*                                  two steps, a direct outline level)     *)
(*    LI (children, lvl, num, how)  list item at depth lvl (0-based) of a  *)
(*                                  bullet / decimal list; lists are trees *)
(*                                  written as depth sequences: they may   *)
(*                                  start deep, jump levels, contain empty *)
(*                                  items and items with a paragraph after *)
(*                                  a nested list (how, see BlockOK)       *)
(*    TBL(rows, cols, hm, vm, mp, rc) table; hm / vm = anchors of          *)
(*                                  horizontal (gridSpan=2 | columns-      *)
(*                                  spanned=2) and vertical (vMerge |      *)
(*                                  rows-spanned=2) merges, mp = anchors   *)
(*                                  with two cell paragraphs, rc = anchors *)
(*                                  whose first paragraph has mixed inline *)
(*                                  content (two tokens: text + symbol in  *)
(*                                  one run | text + span)                 *)
(*    S  (children, sty, lvl)       paragraph styled with style number sty *)
(*                                  of the document's style sheet; whether *)
(*                                  it is a heading, and of which level,   *)
(*                                  follows from the sheet (see HeadOf)    *)
(* The style sheet is a sequence of styles [decl, lvl, based]: decl says    *)
(* what the style itself declares about being a heading (none | builtin =  *)
(* id HeadingN + name "heading N" + outline level | nameL / nameU = name    *)
(* "heading N" / "Heading N" only | outline = outline level only | bare =   *)
(* ODT heading style name without default-outline-level), based is the      *)
(* style it is based on: k = style k of the sheet, 0 = none, -1 = the       *)
(* default style (Normal / Standard), -2 = a style that is not defined.     *)
(* A child is [w, a]: w = the wrapper (r = plain run / bare text, span,    *)
(* link, ins, sdt), a = the sequence of atoms inside it, atoms from        *)
(* {t, sym, tab, br, s}.  t and sym carry a token; tokens are numbered     *)
(* 1, 2, ... in source order over the whole body (the renderer writes      *)
(* token n as the string wNNN, a symbol as one CJK code point 4E00+n).     *)
(* Optional header / footer parts carry tokens 901 / 902.  Between and      *)
(* around the blocks stand block-level wrappers and markers (WO / WC / M,   *)
(* see BlockOK): what is inside a wrapper is body content like any other,   *)
(* and the order and structure of all blocks must hold whatever wrappers    *)
(* stand between them.  Deleted text (tracked changes, token 903) is not    *)
(* part of the body.                                                        *)
(*                                                                         *)
(* The reader contract is a machine with one action per body block: it     *)
(* emits the item the block must be presented as.  An item is              *)
(*   [k, lvl, alt, mdlvl, ids, gaps, rows, cols, cells]                    *)
(* (alt # 0: a second acceptable heading level, -1 = any level)            *)
(* (lvl = the authored heading level / list depth as the document model    *)
(* must report it, mdlvl = the number of # Markdown writes: at most six)    *)
(* ids = the tokens in source order, gaps[j] = "ws" iff a tab / break /    *)
(* space atom (or a cell-paragraph boundary) separates token j and j+1,    *)
(* "none" otherwise; for tables cells = anchor cells in row-major order    *)
(* with their position, spans and tokens.                                  *)
(***************************************************************************)
EXTENDS Integers, Sequences, FiniteSets, SequencesExt, TLC

CONSTANTS Docs          \* the documents explored (defined in the MC module)

VARIABLES doc,          \* the document being read
          pos,          \* number of body blocks consumed
          out           \* items emitted so far

vars == <<doc, pos, out>>

HdrTok == 901
FtrTok == 902

NoTbl == [rows |-> 0, cols |-> 0, hm |-> <<>>, vm |-> <<>>, mp |-> <<>>, rc |-> <<>>]

\* ------------------------------------------------------------ alphabets
Wrappers(f) == IF f = "docx" THEN {"r", "span", "link", "ins", "sdt"} ELSE {"r", "span", "link"}
\* Inline containers nested in one another, written outer>inner (depth 2..3).  DOCX: hyperlink,
\* tracked insertion, run-level content control, smart tag, simple field and bidirectional
\* override in every order of two (a hyperlink never inside a hyperlink), a content control in
\* a content control, and three levels.  ODT: span / link nestings (text:a inside text:a is not
\* legal) and text:ruby, whose ruby-base is the text (its ruby-text annotation carries no token).
InlineBoxes == {"link", "ins", "sdt", "smartTag", "fldSimple", "bdo"}
NestedWrappers(f) ==
    IF f = "docx"
    THEN {"smartTag", "fldSimple", "bdo", "sdt>sdt", "bdo>link>ins", "ins>link>sdt", "link>sdt>ins", "sdt>link>smartTag"}
         \cup {"link>ins", "link>sdt", "link>smartTag", "link>fldSimple", "link>bdo",
               "ins>link", "sdt>link", "smartTag>link", "fldSimple>link", "bdo>link",
               "ins>sdt", "sdt>ins", "smartTag>ins", "sdt>smartTag", "bdo>sdt", "fldSimple>ins"}
    ELSE {"span>link", "link>span", "span>span", "span>link>span", "ruby", "span>ruby", "link>ruby"}
\* "eh" / "ef": the text of the header / footer line (w901 / w902) written in the body - a
\* body paragraph that equals a header / footer line (used by the history documents)
InlineAtoms(f) == IF f = "docx" THEN {"t", "sym", "tab", "br"} ELSE {"t", "tab", "br", "s"}
Atoms(f)    == InlineAtoms(f) \cup {"eh", "ef"}
IsEcho(b, a) == b.k = "P" /\ Len(b.ch) = 1 /\ b.ch[1].w = "r" /\ b.ch[1].a = <<a>>
Hows        == {"builtin", "custom1", "custom2", "outline"}
Bearing(a)  == a \in {"t", "sym"}

Decls       == {"none", "builtin", "nameL", "nameU", "outline", "bare"}

\* ----------------------------------------------------------- style sheets
\* does the basedOn / parent-style chain starting at style s run into a cycle ?
RECURSIVE Cyclic(_, _, _)
Cyclic(sh, cur, seen) == IF cur < 1 THEN FALSE
                         ELSE IF cur \in seen THEN TRUE
                         ELSE Cyclic(sh, sh[cur].based, seen \cup {cur})

\* DOCX (ECMA-376 17.7.4.3, 17.3.1.20): the heading level a paragraph of style s has -
\* the nearest declaration along the basedOn chain wins (the outline level is inherited like
\* every paragraph property; the built-in heading styles are known by their name).
\* 0 = not a heading, -1 = unconstrained (the chain is cyclic, i.e. the sheet is invalid,
\* or it ends in a style that is not defined before any style declared a level).
RECURSIVE Nearest(_, _)
Nearest(sh, cur) == IF cur = -2 THEN -1
                    ELSE IF cur < 1 THEN 0
                    ELSE IF sh[cur].decl # "none" THEN sh[cur].lvl
                    ELSE Nearest(sh, sh[cur].based)
HeadOf(sh, s) == IF Cyclic(sh, s, {}) THEN -1 ELSE Nearest(sh, s)

SheetOK(f, sh) ==
    /\ \A i \in 1..Len(sh) :
          /\ sh[i].decl \in (IF f = "docx" THEN Decls \ {"bare"} ELSE {"none", "builtin", "bare", "outline"})
          /\ sh[i].lvl \in 1..9
          /\ sh[i].based \in {-2, -1, 0} \cup (1..Len(sh))
          \* where the style is declared: "doc" = the named styles of styles.xml (office:styles /
          \* w:styles), "auto" = ODT automatic styles of content.xml; the sheet order is the
          \* declaration order inside each place.  The built-in heading styles are named styles.
          /\ sh[i].loc \in (IF f = "docx" THEN {"doc"} ELSE {"doc", "auto"})
          /\ sh[i].decl \in {"builtin", "bare"} => sh[i].loc = "doc"
    \* style ids and names are unique: a built-in heading identity occurs at most once
    /\ \A i, j \in 1..Len(sh) : (i # j /\ sh[i].decl \in {"builtin", "nameL", "nameU", "bare"}
                                      /\ sh[j].decl \in {"builtin", "nameL", "nameU", "bare"}) => sh[i].lvl # sh[j].lvl

Sum(s) == FoldLeft(LAMBDA x, y : x + y, 0, s)
InS(x, s) == \E i \in 1..Len(s) : s[i] = x

\* ------------------------------------------------------------ paragraphs
FlatCh(ch) == FlattenSeq([i \in 1..Len(ch) |-> ch[i].a])
NBear(s)   == Len(SelectSeq(s, Bearing))
BPos(s)    == SelectSeq([i \in 1..Len(s) |-> i], LAMBDA i : Bearing(s[i]))
GapsOf(s)  == LET bp == BPos(s) IN
              [j \in 1..(Len(bp) - 1) |-> IF bp[j + 1] - bp[j] > 1 THEN "ws" ELSE "none"]

\* ---------------------------------------------------------------- tables
Right(p) == <<p[1], p[2] + 1>>
Below(p) == <<p[1] + 1, p[2]>>

CellK(t, r, c) == IF c > 1 /\ InS(<<r, c - 1>>, t.hm) THEN "hc"
                  ELSE IF r > 1 /\ InS(<<r - 1, c>>, t.vm) THEN "vc"
                  ELSE "a"

\* the rendering plan of a table: one descriptor per grid position
Grid(t) == [r \in 1..t.rows |-> [c \in 1..t.cols |->
              LET kd == CellK(t, r, c) IN
              [kind |-> kd,
               cs |-> IF kd = "a" /\ InS(<<r, c>>, t.hm) THEN 2 ELSE 1,
               rs |-> IF kd = "a" /\ InS(<<r, c>>, t.vm) THEN 2 ELSE 1,
               np |-> IF kd = "a" THEN (IF InS(<<r, c>>, t.mp) THEN 2 ELSE 1) ELSE 0,
               rich |-> kd = "a" /\ InS(<<r, c>>, t.rc)]]]

Positions(t) == FlattenSeq([r \in 1..t.rows |-> [c \in 1..t.cols |-> <<r, c>>]])
Anchors(t)   == SelectSeq(Positions(t), LAMBDA p : CellK(t, p[1], p[2]) = "a")
NPar(t, p)   == IF InS(p, t.mp) THEN 2 ELSE 1
\* tokens of an anchor cell: one per paragraph, one more if the first is rich
NCell(t, p)  == NPar(t, p) + (IF InS(p, t.rc) THEN 1 ELSE 0)

TblOK(t) ==
    /\ t.rows >= 1 /\ t.cols >= 1
    /\ \A i \in 1..Len(t.hm) : t.hm[i][1] \in 1..t.rows /\ t.hm[i][2] \in 1..(t.cols - 1)
    /\ \A i \in 1..Len(t.vm) : t.vm[i][1] \in 1..(t.rows - 1) /\ t.vm[i][2] \in 1..t.cols
    /\ \A i, j \in 1..Len(t.hm) : i # j => {t.hm[i], Right(t.hm[i])} \cap {t.hm[j], Right(t.hm[j])} = {}
    /\ \A i, j \in 1..Len(t.vm) : i # j => {t.vm[i], Below(t.vm[i])} \cap {t.vm[j], Below(t.vm[j])} = {}
    /\ \A i \in 1..Len(t.hm), j \in 1..Len(t.vm) :
           {t.hm[i], Right(t.hm[i])} \cap {t.vm[j], Below(t.vm[j])} = {}
    /\ \A i \in 1..Len(t.mp) : InS(t.mp[i], Anchors(t))
    /\ \A i, j \in 1..Len(t.mp) : i # j => t.mp[i] # t.mp[j]
    /\ \A i \in 1..Len(t.rc) : InS(t.rc[i], Anchors(t))
    /\ \A i, j \in 1..Len(t.rc) : i # j => t.rc[i] # t.rc[j]

\* ---------------------------------------------------------------- blocks
NTok(b) == IF b.k \in {"WO", "WC", "M"} THEN 0 ELSE IF b.k = "TBL"
           THEN Sum([i \in 1..Len(Anchors(b.tb)) |-> NCell(b.tb, Anchors(b.tb)[i])])
           ELSE NBear(FlatCh(b.ch))

\* Block-level wrappers and markers.  "WO" / "WC" open / close a wrapper of kind how around
\* the blocks between them; "M" is a childless marker between blocks.  They carry no token.
\*   DOCX wrappers: sdt = w:sdt / w:sdtContent (block-level content control, e.g. a table of
\*                  contents), customXml = w:customXml
\*        markers:  bookmark = w:bookmarkStart + w:bookmarkEnd, proofErr, sdtempty = an empty
\*                  block-level content control
\*   ODT  wrappers: section = text:section, toc = text:table-of-content / text:index-body
\*        markers:  softbreak = text:soft-page-break, sectionempty = an empty section,
\*                  tracked = text:tracked-changes holding a deleted paragraph (token DelTok),
\*                  only as the first child of office:text (its place in the schema)
Brackets == {"WO", "WC", "M"}
WrapKinds(f) == IF f = "docx" THEN {"sdt", "customXml"} ELSE {"section", "toc"}
MarkKinds(f) == IF f = "docx" THEN {"bookmark", "proofErr", "sdtempty"} ELSE {"softbreak", "sectionempty", "tracked"}
DelTok == 903

BlockOK(f, b) ==
    /\ b.k \in {"P", "H", "LI", "TBL", "S"} \cup Brackets
    \* a table may wrap the paragraphs of every cell in a content control / a section
    \* ("cellnest": the run of every cell's first paragraph sits in nested inline containers)
    /\ b.k = "TBL" => TblOK(b.tb) /\ b.ch = <<>> /\ b.how \in {"", IF f = "docx" THEN "cellsdt" ELSE "cellsec", "cellnest"}
    /\ b.k \in Brackets => (b.ch = <<>> /\ b.tb = NoTbl)
    /\ b.k = "WO" => b.how \in WrapKinds(f)
    /\ b.k = "WC" => b.how = ""
    /\ b.k = "M" => b.how \in MarkKinds(f)
    /\ b.k \notin Brackets \cup {"TBL"} =>
          /\ b.tb = NoTbl
          /\ Len(b.ch) >= 1
          /\ \A i \in 1..Len(b.ch) : /\ b.ch[i].w \in Wrappers(f) \cup NestedWrappers(f)
                                     /\ Len(b.ch[i].a) >= 1
                                     /\ \A j \in 1..Len(b.ch[i].a) : b.ch[i].a[j] \in Atoms(f)
          \* no token-less paragraphs, except the echo of the header / footer line, which is
          \* a paragraph of its own (the whole paragraph equals the line)
          /\ NTok(b) >= 1 \/ IsEcho(b, "eh") \/ IsEcho(b, "ef")
          /\ \A i \in 1..Len(b.ch) : \A j \in 1..Len(b.ch[i].a) :
                 b.ch[i].a[j] \in {"eh", "ef"} => IsEcho(b, b.ch[i].a[j])
    \* DOCX has nine heading levels (outline levels 0..8, Heading1..Heading9), ODT ten
    /\ b.k = "H" => b.lvl \in 1..(IF f = "docx" THEN 9 ELSE 10) /\ b.how \in Hows
    \* list items: any depth (a list may start deep or jump levels); "decimalR" is a second
    \* numbering instance that restarts the numbering.  how: "" an item | "emp" an item
    \* preceded by an empty item of its level | "cont" a further paragraph of the still
    \* open item of this depth, after a nested list (ODT) | "wrapp" the item-less wrappers
    \* a level jump needs carry an empty paragraph instead of nothing (ODT)
    /\ b.k = "LI" => /\ b.lvl \in 0..8 /\ b.num \in {"bullet", "decimal", "decimalR"}
                      /\ b.how \in (IF f = "docx" THEN {"", "emp"} ELSE {"", "emp", "cont", "wrapp"})
    /\ b.k = "S" => b.lvl \in 1..9
    /\ b.k # "S" => b.sty = 0

\* wrappers are properly nested (at most MaxWrap deep) and every one is closed
WrapDepth(body, i) == Cardinality({q \in 1..i : body[q].k = "WO"}) - Cardinality({q \in 1..i : body[q].k = "WC"})
Balanced(body) == /\ \A i \in 1..Len(body) : WrapDepth(body, i) \in 0..3
                  /\ WrapDepth(body, Len(body)) = 0

\* a continuation paragraph belongs to an item that is still open: an earlier item of the
\* same list at the same depth with only deeper blocks (at least one) in between
ListOK(body) ==
    \A i \in 1..Len(body) : (body[i].k = "LI" /\ body[i].how = "cont") =>
        /\ i > 1 /\ body[i - 1].k = "LI" /\ body[i - 1].lvl > body[i].lvl
        /\ \E j \in 1..(i - 1) :
              /\ body[j].k = "LI" /\ body[j].lvl = body[i].lvl
              /\ \A q \in j..i : body[q].k = "LI" /\ body[q].num = body[i].num
              /\ \A q \in (j + 1)..(i - 1) : body[q].lvl > body[i].lvl

\* list depths are compared relative to the shallowest item of the document
MinLI(body) == LET ls == {body[i].lvl : i \in {q \in 1..Len(body) : body[q].k = "LI"}} IN
               IF ls = {} THEN 0 ELSE CHOOSE m \in ls : \A x \in ls : m <= x

IsDoc(d) ==
    /\ d.fmt \in {"docx", "odt"}
    /\ d.hdr \in {0, 1} /\ d.ftr \in {0, 1}
    \* a body paragraph can only equal a header / footer line that exists
    /\ \A i \in 1..Len(d.body) : (IsEcho(d.body[i], "eh") => d.hdr = 1) /\ (IsEcho(d.body[i], "ef") => d.ftr = 1)
    /\ \A i \in 1..Len(d.body) : BlockOK(d.fmt, d.body[i])
    /\ ListOK(d.body)
    /\ SheetOK(d.fmt, d.sheet)
    /\ Balanced(d.body)
    /\ \A i \in 1..Len(d.body) : (d.body[i].k = "M" /\ d.body[i].how = "tracked") => i = 1
    \* a document with a sheet of its own defines exactly the styles of the sheet: its other
    \* headings are declared by a direct outline level, not by the fixed heading styles
    /\ d.sheet # <<>> => \A i \in 1..Len(d.body) : d.body[i].k = "H" => d.body[i].how = "outline"
    /\ \A i \in 1..Len(d.body) : d.body[i].k = "S" =>
          /\ d.body[i].sty \in 1..Len(d.sheet)
          \* ODT: the heading is a text:h whose text:outline-level is lvl - or, how = "noattr",
          \* a text:h without an outline level of its own
          /\ d.body[i].how \in (IF d.fmt = "odt" THEN {"", "noattr"} ELSE {""})

Bases(body) == [i \in 1..Len(body) |-> Sum([j \in 1..(i - 1) |-> NTok(body[j])])]

\* Markdown has six heading levels: a deeper heading is written with six #; the document
\* model keeps the authored level
MdLvl(l) == IF l > 6 THEN 6 ELSE l

\* ------------------------------------------------- the item of one block
Item(d, i) ==
    LET b    == d.body[i]
        base == Bases(d.body)[i]
        n    == NTok(b)
        ids  == [j \in 1..n |-> base + j]
    IN IF b.k = "TBL"
       THEN LET an  == Anchors(b.tb)
                off == [q \in 1..Len(an) |-> Sum([j \in 1..(q - 1) |-> NCell(b.tb, an[j])])]
            IN [k |-> "TBL", lvl |-> 0, alt |-> 0, mdlvl |-> 0, ids |-> ids, gaps |-> <<>>,
                rows |-> b.tb.rows, cols |-> b.tb.cols,
                cells |-> [q \in 1..Len(an) |->
                    [r |-> an[q][1], c |-> an[q][2],
                     rs |-> IF InS(an[q], b.tb.vm) THEN 2 ELSE 1,
                     cs |-> IF InS(an[q], b.tb.hm) THEN 2 ELSE 1,
                     ids |-> [j \in 1..NCell(b.tb, an[q]) |-> base + off[q] + j]]]]
       ELSE IF b.k \in Brackets
       THEN [k |-> b.k, lvl |-> 0, alt |-> 0, mdlvl |-> 0, ids |-> <<>>, gaps |-> <<>>, rows |-> 0, cols |-> 0, cells |-> <<>>]
       ELSE IF b.k = "S" /\ b.how = "noattr"
       THEN \* ODT text:h without text:outline-level: ODF 1.2 says such a heading is at level 1;
            \* readers commonly take the default-outline-level of the heading's own style.  Both
            \* are accepted (alt).  If the own style declares none, any level is (alt = -1).
            LET own == d.sheet[b.sty].decl \in {"builtin", "outline"} IN
            [k |-> "H", lvl |-> IF own THEN d.sheet[b.sty].lvl ELSE 1, alt |-> IF own THEN 1 ELSE -1,
             mdlvl |-> IF own THEN MdLvl(d.sheet[b.sty].lvl) ELSE 1, ids |-> ids,
             gaps |-> GapsOf(FlatCh(b.ch)), rows |-> 0, cols |-> 0, cells |-> <<>>]
       ELSE IF b.k = "S"
       THEN LET h == IF d.fmt = "docx" THEN HeadOf(d.sheet, b.sty)
                     \* ODT: text:outline-level of the text:h decides (ODF 1.2 5.1.2); an
                     \* invalid sheet (cycle, undefined parent) leaves the result open
                     ELSE IF HeadOf(d.sheet, b.sty) = -1 THEN -1 ELSE b.lvl
            IN [k |-> IF h = -1 THEN "PH" ELSE IF h = 0 THEN "P" ELSE "H",
                lvl |-> IF h < 1 THEN 0 ELSE h, alt |-> 0, mdlvl |-> IF h < 1 THEN 0 ELSE MdLvl(h), ids |-> ids,
                gaps |-> GapsOf(FlatCh(b.ch)), rows |-> 0, cols |-> 0, cells |-> <<>>]
       ELSE [k |-> b.k, lvl |-> IF b.k = "P" THEN 0 ELSE IF b.k = "LI" THEN b.lvl - MinLI(d.body) ELSE b.lvl,
             alt |-> 0, mdlvl |-> IF b.k = "H" THEN MdLvl(b.lvl) ELSE 0, ids |-> ids,
             gaps |-> GapsOf(FlatCh(b.ch)), rows |-> 0, cols |-> 0, cells |-> <<>>]

\* ------------------------------------------------------------- behaviour
Init == doc \in Docs /\ pos = 0 /\ out = <<>>

EmitKind(kk) ==
    /\ pos < Len(doc.body) /\ doc.body[pos + 1].k = kk
    /\ pos' = pos + 1
    /\ out' = Append(out, Item(doc, pos + 1))
    /\ UNCHANGED doc

EmitP   == EmitKind("P")
EmitH   == EmitKind("H")
EmitLI  == EmitKind("LI")
EmitTbl == EmitKind("TBL")
EmitSty == EmitKind("S")
\* wrappers and markers are passed over: the blocks inside a wrapper are body blocks like any other
PassBracket == EmitKind("WO") \/ EmitKind("WC") \/ EmitKind("M")

Next == EmitP \/ EmitH \/ EmitLI \/ EmitTbl \/ EmitSty \/ PassBracket

Spec == Init /\ [][Next]_vars

Done == pos = Len(doc.body)

\* ------------------------------------------------------------ properties
AllIds(o) == FlattenSeq([i \in 1..Len(o) |-> o[i].ids])

TypeOK == IsDoc(doc) /\ pos \in 0..Len(doc.body) /\ Len(out) = pos

\* tokens come out in source order, each exactly once (tokens are numbered in
\* source order, so the emitted ids are 1, 2, 3, ...)
Order == AllIds(out) = [i \in 1..Len(AllIds(out)) |-> i]

\* every block is presented as what it is, where it is
Structure == \A i \in 1..pos :
                /\ doc.body[i].k # "S" => out[i].k = doc.body[i].k
                /\ doc.body[i].k = "S" => out[i].k \in {"P", "H", "PH"} /\ (out[i].k = "H" <=> out[i].lvl >= 1)
                /\ doc.body[i].k = "H" => out[i].lvl = doc.body[i].lvl
                /\ doc.body[i].k = "LI" => out[i].lvl = doc.body[i].lvl - MinLI(doc.body)
                /\ Len(out[i].ids) = NTok(doc.body[i])
                /\ Len(out[i].gaps) = (IF doc.body[i].k \in Brackets \cup {"TBL"} THEN 0 ELSE Len(out[i].ids) - 1)

\* a table's cells partition its tokens, in row-major order
CellsOK == \A i \in 1..pos : out[i].k = "TBL" =>
              /\ FlattenSeq([q \in 1..Len(out[i].cells) |-> out[i].cells[q].ids]) = out[i].ids
              /\ \A q \in 1..Len(out[i].cells) :
                     /\ out[i].cells[q].r + out[i].cells[q].rs - 1 <= out[i].rows
                     /\ out[i].cells[q].c + out[i].cells[q].cs - 1 <= out[i].cols

\* header / footer tokens are never part of the body
NoLeak == \A i \in 1..Len(AllIds(out)) : AllIds(out)[i] < HdrTok

Complete == Done => Len(AllIds(out)) = Sum([i \in 1..Len(doc.body) |-> NTok(doc.body[i])])
=============================================================================
