---------------------------- MODULE PartsHistoryMC ----------------------------
(* Bounded instance of PartsHistory: PPTX and EPUB packages that hold what a      *)
(* per-call transformation could damage (declared order differs from file-name,   *)
(* listing and archive order; a declared part absent with a conventional-name      *)
(* decoy; names needing decoding with wrongly-decoded decoys; an EPUB container    *)
(* with three rootfiles), every history of MaxLen calls, emission.                 *)
EXTENDS PartsHistory, PartsOrderMC

HPkgs == { MkPkg("pptx", Notes(Conf(ChainOf(Miss(OProf("renamed", "rel", "conv", TRUE, FALSE), 2), "infraMixed"), "strict"), "all"), <<3, 1, 2>>, <<2, 3, 1>>, <<1, 3, 2>>),
           MkPkg("pptx", Xml(Alias(Enc(OProf("dot", "abs", "last", FALSE, TRUE), "sp20"), "decoded"), XmlProf(TRUE, "ns1", TRUE, TRUE, TRUE, TRUE, "std")), <<2, 3, 1>>, <<3, 2, 1>>, <<2, 1, 3>>),
           MkPkg("epub", Alias(Miss(EProf("nested", "pct2520", "two", 3, "first", TRUE, TRUE, FALSE), 1), "decoded"),
                 <<2, 1, 3>>, <<3, 1, 2>>, <<3, 2, 1>>),
           MkPkg("epub", Xml(ChainOf(EProf("renamed", "plusLit", "one", 2, "last", FALSE, TRUE, TRUE), "three"), XmlProf(FALSE, "r", FALSE, TRUE, FALSE, TRUE, "bom")),
                 <<3, 1, 2>>, <<1, 3, 2>>, <<2, 3, 1>>) }

C(op, sel, opt) == [op |-> op, sel |-> sel, opt |-> opt]
\* opt: PPTX text options 1 = notes and titles off, footers excluded; EPUB 1 = navigation exclusion "explicit";
\*      rag 1 = metadata and table of contents
HCalls == { C("text", <<>>, 0), C("textopt", <<2, 1>>, 1), C("textopt", <<>>, 1), C("md", <<>>, 0), C("mdopt", <<2>>, 1),
            C("rag", <<>>, 1), C("doc", <<>>, 0), C("count", <<>>, 0), C("part", <<2>>, 0), C("part", <<1>>, 0), C("toc", <<>>, 0) }
HCallsQ == HCalls \ { C("textopt", <<>>, 1), C("part", <<1>>, 0) }

EmitHist == (Len(hist) = MaxLen) => PrintT(ToJson(
    [kind |-> "history", fmt |-> pkg.fmt, base |-> pkg.base, prof |-> pkg.prof, parts |-> pkg.parts, roots |-> pkg.roots,
     pages |-> Expected(pkg), count |-> Len(Expected(pkg)),
     calls |-> [n \in 1..Len(hist) |-> [op |-> hist[n].call.op, sel |-> hist[n].call.sel, opt |-> hist[n].call.opt,
                                        view |-> hist[n].view, count |-> hist[n].count]]]))
=============================================================================
