SPECIFICATION GenSpec
CONSTANTS
  Opens <- AlphaSet
  Forms = {"plain"}
  Alpha = "q6"
  MaxLen = 9
  MaxDepth = 7
  Lax = TRUE
INVARIANTS Lattice WellNested ContentModelOK DocOrder RefOK
CONSTRAINT Emit
CHECK_DEADLOCK FALSE
