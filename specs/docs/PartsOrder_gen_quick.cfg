SPECIFICATION MCSpec
CONSTANTS
  OrderBy = "declared"
  Chain = "first"
  Decode = "path"
  Packages = {}
  K = 3
  Fmts = {"xlsx", "pptx", "epub"}
  Wide = "some"
CONSTRAINT Emit
CHECK_DEADLOCK FALSE
