------------------------------- MODULE Sheet -------------------------------
(***************************************************************************)
(* SpreadsheetML worksheet grid (ECMA-376 Part 1, 18.3.1: sheetData, row,  *)
(* c, v, is, f, mergeCells; 18.4: shared string table, rich text runs).    *)
(*                                                                         *)
(* A workbook file is written one item at a time (one action per item):    *)
(*   AddMerge(m)          one <mergeCell ref="A1:B2"/>                     *)
(*   WriteCell(c,r,t,v)   one <c r="B7" t=".."> in the row element of r,   *)
(*                        appended in FILE order (any order of rows and of *)
(*                        cells inside a row)                              *)
(*   NewSheet             the next worksheet part                          *)
(* and `grid` is what a reader shows after those items.  The contract is   *)
(* that the file order is irrelevant: a cell's displayed value is at the   *)
(* (column,row) its reference names, nothing else is there, positions      *)
(* covered by a merged region are blank except its top-left cell.          *)
(*                                                                         *)
(* Place = "byref"      the reader places a cell by its reference.         *)
(* Place = "sequential" the reader ignores references and appends cells    *)
(*                      left to right in each row - the behaviour the      *)
(*                      existing tests cannot tell from the right one      *)
(*                      (dense sheets only); TLC must refute it.           *)
(*                                                                         *)
(* Cell kinds (attribute t of <c>, 18.18.11 ST_CellType):                  *)
(*   s    shared string, <si><t>..</t></si>                                *)
(*   sr   shared string made of rich-text runs <si><r><t>..</t></r>..</si> *)
(*   is   inline string <is><t>..</t></is>                                 *)
(*   isr  inline string of rich-text runs <is><r><t>..</t></r>..</is>      *)
(*   str  formula with cached string value  <f>..</f><v>text</v>           *)
(*   b    boolean <v>0|1</v>            e   error <v>#DIV/0!</v>           *)
(*   n    number                        fn  formula with cached number     *)
(*   z    a cell element without value (styled blank), shows nothing      *)
(* The value of cell number v is the token v (strings), v mod 2 (boolean), *)
(* error number v mod 7, or the number 1000 + v.                           *)
(***************************************************************************)
EXTENDS SheetRef

CONSTANTS
    Place,
    Window,      \* bounded exploration: items fall in a Window x Window square
    Offsets,     \* ... whose top-left corner is Offsets-shifted: <<dc, dr>>
    Rects,       \* ... the merged regions tried, as rectangles inside the window
    MaxCells, MaxMerges, MaxSheets,   \* per workbook: cells, merged regions, sheets
    Rots,        \* rotations of the kind list (kind of cell v = Kinds[(v-1+rot) mod 10 + 1])
    Layouts      \* physical layout profiles [rowR, sstRev] (see SheetMC)

VARIABLES
    off, rot, lay,   \* chosen once per workbook (bounded exploration only)
    cur,             \* current worksheet, 1..MaxSheets
    items,           \* items[sh]  : cell items of sheet sh in file order
    mseq,            \* mseq[sh]   : merged regions of sheet sh in file order
    grid,            \* grid[sh]   : set of [c, r, d] - the displayed sheet
    nv               \* number of cells written so far = last value id

vars == <<off, rot, lay, cur, items, mseq, grid, nv>>

Kinds == <<"s", "sr", "is", "isr", "str", "b", "e", "n", "fn", "z">>
NK == Len(Kinds)
KindSet == {Kinds[i] : i \in 1..NK}
StringKinds == {"s", "sr", "is", "isr", "str"}

\* what the cell shows
Display(t, v) ==
    CASE t \in StringKinds   -> [k |-> "t", v |-> v]
      [] t = "b"             -> [k |-> "b", v |-> v % 2]
      [] t = "e"             -> [k |-> "e", v |-> v % 7]
      [] t \in {"n", "fn"}   -> [k |-> "n", v |-> 1000 + v]

\* merged regions are <<c1, r1, c2, r2>> with at least two cells
IsRect(m)     == m[1] <= m[3] /\ m[2] <= m[4] /\ (m[1] < m[3] \/ m[2] < m[4])
InRect(m, c, r) == m[1] <= c /\ c <= m[3] /\ m[2] <= r /\ r <= m[4]
IsRoot(m, c, r) == c = m[1] /\ r = m[2]
Disjoint(a, b) == a[3] < b[1] \/ b[3] < a[1] \/ a[4] < b[2] \/ b[4] < a[2]
Covered(m)    == {<<c, r>> : c \in m[1]..m[3], r \in m[2]..m[4]} \ {<<m[1], m[2]>>}
MergeSet(sh)  == {mseq[sh][i] : i \in 1..Len(mseq[sh])}
ItemSet(sh)   == {items[sh][i] : i \in 1..Len(items[sh])}

Init ==
    /\ off \in Offsets /\ rot \in Rots /\ lay \in Layouts
    /\ cur = 1 /\ nv = 0
    /\ items = << <<>> >> /\ mseq = << <<>> >> /\ grid = << {} >>

\* -------------------------------- actions --------------------------------

\* where the reader puts the new cell
PlaceAt(c, r) ==
    IF Place = "byref" THEN <<c, r>>
    ELSE << 1 + Cardinality({i \in 1..Len(items[cur]) : items[cur][i].r = r}), r >>

WriteCell(c, r, t, v) ==
    /\ c >= 1 /\ r >= 1 /\ t \in KindSet
    /\ v = nv + 1
    \* a sheet holds at most one cell element per address
    /\ \A it \in ItemSet(cur) : ~(it.c = c /\ it.r = r)
    \* positions covered by a merged region hold no value (only blanks)
    /\ \A m \in MergeSet(cur) : (InRect(m, c, r) /\ ~IsRoot(m, c, r)) => t = "z"
    /\ items' = [items EXCEPT ![cur] = Append(@, [c |-> c, r |-> r, t |-> t, v |-> v])]
    /\ grid' = IF t = "z" THEN grid
               ELSE [grid EXCEPT ![cur] = @ \cup {[c |-> PlaceAt(c, r)[1], r |-> PlaceAt(c, r)[2],
                                                     d |-> Display(t, v)]}]
    /\ nv' = v
    /\ UNCHANGED <<off, rot, lay, cur, mseq>>

AddMerge(m) ==
    /\ IsRect(m) /\ m[1] >= 1 /\ m[2] >= 1
    /\ \A o \in MergeSet(cur) : Disjoint(m, o)
    /\ \A it \in ItemSet(cur) : (InRect(m, it.c, it.r) /\ ~IsRoot(m, it.c, it.r)) => it.t = "z"
    /\ mseq' = [mseq EXCEPT ![cur] = Append(@, m)]
    /\ UNCHANGED <<off, rot, lay, cur, items, grid, nv>>

NewSheet ==
    /\ items[cur] # <<>>
    /\ cur' = cur + 1
    /\ items' = Append(items, <<>>) /\ mseq' = Append(mseq, <<>>) /\ grid' = Append(grid, {})
    /\ UNCHANGED <<off, rot, lay, nv>>

\* ------------------------- bounded exploration -------------------------
WindowRects == {m \in (1..Window) \X (1..Window) \X (1..Window) \X (1..Window) : IsRect(m)}
RECURSIVE CountMerges(_)
CountMerges(k) == IF k = 0 THEN 0 ELSE CountMerges(k - 1) + Len(mseq[k])
Shift(m) == <<m[1] + off[1], m[2] + off[2], m[3] + off[1], m[4] + off[2]>>
KindOf(v) == Kinds[((v - 1 + rot) % NK) + 1]

Next ==
    \/ \E m \in Rects :
          \* regions are declared before the cells in the exploration; in the file they
          \* live in their own element, so their position among the cells means nothing
          /\ items[cur] = <<>> /\ CountMerges(cur) < MaxMerges
          /\ AddMerge(Shift(m))
    \/ \E c \in 1..Window, r \in 1..Window :
          /\ nv < MaxCells
          /\ WriteCell(off[1] + c, off[2] + r, KindOf(nv + 1), nv + 1)
    \/ cur < MaxSheets /\ NewSheet

Spec == Init /\ [][Next]_vars

\* ------------------------------ properties ------------------------------
TypeOK ==
    /\ cur \in 1..MaxSheets /\ nv \in 0..MaxCells
    /\ Len(items) = cur /\ Len(mseq) = cur /\ Len(grid) = cur
    /\ \A sh \in 1..cur : \A g \in grid[sh] : g.c >= 1 /\ g.r >= 1

\* THE property: the displayed sheet is exactly "value at the address its
\* reference names", whatever the file order was.
PlacedByRef ==
    \A sh \in 1..cur :
        grid[sh] = { [c |-> it.c, r |-> it.r, d |-> Display(it.t, it.v)] : it \in {x \in ItemSet(sh) : x.t # "z"} }

\* one value per address, every value exactly once in the whole workbook
FunctionLike ==
    \A sh \in 1..cur : \A g, h \in grid[sh] : (g.c = h.c /\ g.r = h.r) => g = h

\* merged regions: blank everywhere but the top-left cell
MergeBlank ==
    \A sh \in 1..cur : \A m \in MergeSet(sh) : \A p \in Covered(m) :
        ~ \E g \in grid[sh] : g.c = p[1] /\ g.r = p[2]

\* a later item never moves or removes an earlier cell, and adds at most one
Locality ==
    [][ \A sh \in 1..cur : /\ grid[sh] \subseteq grid'[sh]
                           /\ Cardinality(grid'[sh] \ grid[sh]) <= 1 ]_vars

\* ------------------------------ the views ------------------------------
\* sheet grid and tab-separated text are absolute: row r is line r, column c is
\* field c.  The Markdown table and the model table may drop empty leading /
\* trailing rows and columns, i.e. they are the grid translated by one offset
\* for the whole sheet; Bounds is the content box such a translation refers to.
NonBlank(sh) == grid[sh]
Bounds(sh) ==
    IF grid[sh] = {} THEN [c1 |-> 0, r1 |-> 0, c2 |-> 0, r2 |-> 0]
    ELSE [c1 |-> CHOOSE x \in {g.c : g \in grid[sh]} : \A g \in grid[sh] : x <= g.c,
          r1 |-> CHOOSE x \in {g.r : g \in grid[sh]} : \A g \in grid[sh] : x <= g.r,
          c2 |-> CHOOSE x \in {g.c : g \in grid[sh]} : \A g \in grid[sh] : x >= g.c,
          r2 |-> CHOOSE x \in {g.r : g \in grid[sh]} : \A g \in grid[sh] : x >= g.r]
CoveredSet(sh) == UNION {Covered(m) : m \in MergeSet(sh)}

=============================================================================
