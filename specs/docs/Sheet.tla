------------------------------- MODULE Sheet -------------------------------
(***************************************************************************)
(* SpreadsheetML worksheet grid (ECMA-376 Part 1, 18.3.1: sheetData, row,  *)
(* c, v, is, f, mergeCells; 18.4: shared string table, rich text runs).    *)
(*                                                                         *)
(* A workbook file is written one item at a time (one action per item):    *)
(*   AddMerge(m)          one <mergeCell ref="A1:B2"/>                     *)
(*   WriteCell(c,r,t,v)   one <c r="B7" t=".."> in the row element of r,   *)
(*                        appended in FILE order (any order of rows and of *)
(*                        cells inside a row)                              *)
(*   NewSheet             the next worksheet part                          *)
(* and `grid` is what a reader shows after those items.  The contract is   *)
(* that the file order is irrelevant: a cell's displayed value is at the   *)
(* (column,row) its reference names, nothing else is there, positions      *)
(* covered by a merged region are blank except its top-left cell.          *)
(*                                                                         *)
(* Place = "byref"      the reader places a cell by its reference.         *)
(* Place = "sequential" the reader ignores references and appends cells    *)
(*                      left to right in each row - the behaviour the      *)
(*                      existing tests cannot tell from the right one      *)
(*                      (dense sheets only); TLC must refute it.           *)
(*                                                                         *)
(* Cell kinds (attribute t of <c>, 18.18.11 ST_CellType):                  *)
(*   s    shared string, <si><t>..</t></si>                                *)
(*   sr   shared string made of rich-text runs <si><r><t>..</t></r>..</si> *)
(*   is   inline string <is><t>..</t></is>                                 *)
(*   isr  inline string of rich-text runs <is><r><t>..</t></r>..</is>      *)
(*   str  formula with cached string value  <f>..</f><v>text</v>           *)
(*   b    boolean <v>0|1</v>            e   error <v>#DIV/0!</v>           *)
(*   n    number                        fn  formula with cached number     *)
(*   z    a cell element without value (styled blank), shows nothing      *)
(*   se   shared string cell that references an EMPTY item <si/>: nothing  *)
(* The value of cell number v is the token v (strings), v mod 2 (boolean), *)
(* error number v mod 7, or the number 1000 + v.                           *)
(***************************************************************************)
EXTENDS SheetRef

CONSTANTS
    Place,
    MergeMode,   \* "all": every merged region blanks its covered cells.  "interior": regions
                 \* whose top-left cell lies in the last populated row or column are ignored
                 \* (extent taken as a count where it is a maximum) - TLC must refute it
    Ordered,     \* bounded exploration: TRUE = cells are written in row-major order only, so
                 \* every SET of populated cells is one state (used to enumerate all subsets)
    Window, WindowRows,   \* bounded exploration: items fall in a window of Window columns x WindowRows rows
    Offsets,     \* ... whose top-left corner is Offsets-shifted: <<dc, dr>>
    Rects,       \* ... the merged regions tried, as rectangles inside the window
    MaxCells, MaxMerges, MaxSheets,   \* per workbook: cells, merged regions, sheets
    KindSeq,     \* the kind list the exploration cycles through
    Rots,        \* rotations of it (kind of cell v = KindSeq[(v-1+rot) mod Len(KindSeq) + 1])
    Layouts      \* physical layout profiles [rowR, sstRev] (see SheetMC)

VARIABLES
    off, rot, lay,   \* chosen once per workbook (bounded exploration only)
    cur,             \* current worksheet, 1..MaxSheets
    items,           \* items[sh]  : cell items of sheet sh in file order
    mseq,            \* mseq[sh]   : merged regions of sheet sh in file order
    grid,            \* grid[sh]   : set of [c, r, d] - the values the reader stored (incl. values
                     \*              of cells covered by a merged region); Shown(sh) is displayed
    nv               \* number of cells written so far = last value id

vars == <<off, rot, lay, cur, items, mseq, grid, nv>>

Kinds == <<"s", "sr", "is", "isr", "str", "b", "e", "n", "fn", "z", "se">>
NK == Len(Kinds)
KindSet == {Kinds[i] : i \in 1..NK}
StringKinds == {"s", "sr", "is", "isr", "str"}
Blank == {"z", "se"}      \* kinds that show nothing

\* what the cell shows
Display(t, v) ==
    CASE t \in StringKinds   -> [k |-> "t", v |-> v]
      [] t = "b"             -> [k |-> "b", v |-> v % 2]
      [] t = "e"             -> [k |-> "e", v |-> v % 7]
      [] t \in {"n", "fn"}   -> [k |-> "n", v |-> 1000 + v]

\* merged regions are <<c1, r1, c2, r2>> with at least two cells
IsRect(m)     == m[1] <= m[3] /\ m[2] <= m[4] /\ (m[1] < m[3] \/ m[2] < m[4])
InRect(m, c, r) == m[1] <= c /\ c <= m[3] /\ m[2] <= r /\ r <= m[4]
IsRoot(m, c, r) == c = m[1] /\ r = m[2]
Disjoint(a, b) == a[3] < b[1] \/ b[3] < a[1] \/ a[4] < b[2] \/ b[4] < a[2]
Covered(m)    == {<<c, r>> : c \in m[1]..m[3], r \in m[2]..m[4]} \ {<<m[1], m[2]>>}
MergeSet(sh)  == {mseq[sh][i] : i \in 1..Len(mseq[sh])}
ItemSet(sh)   == {items[sh][i] : i \in 1..Len(items[sh])}

Init ==
    /\ off \in Offsets /\ rot \in Rots /\ lay \in Layouts
    /\ cur = 1 /\ nv = 0
    /\ items = << <<>> >> /\ mseq = << <<>> >> /\ grid = << {} >>

\* -------------------------------- actions --------------------------------

\* where the reader puts the new cell
PlaceAt(c, r) ==
    IF Place = "byref" THEN <<c, r>>
    ELSE << 1 + Cardinality({i \in 1..Len(items[cur]) : items[cur][i].r = r}), r >>

WriteCell(c, r, t, v) ==
    /\ c >= 1 /\ r >= 1 /\ t \in KindSet
    /\ v = nv + 1
    \* a sheet holds at most one cell element per address
    /\ \A it \in ItemSet(cur) : ~(it.c = c /\ it.r = r)
    \* a cell covered by a merged region MAY carry a (stale) value in the file - the schema
    \* does not forbid it and writers that merge without clearing produce it; it is not shown
    /\ items' = [items EXCEPT ![cur] = Append(@, [c |-> c, r |-> r, t |-> t, v |-> v])]
    /\ grid' = IF t \in Blank THEN grid
               ELSE [grid EXCEPT ![cur] = @ \cup {[c |-> PlaceAt(c, r)[1], r |-> PlaceAt(c, r)[2],
                                                     d |-> Display(t, v)]}]
    /\ nv' = v
    /\ UNCHANGED <<off, rot, lay, cur, mseq>>

AddMerge(m) ==
    /\ IsRect(m) /\ m[1] >= 1 /\ m[2] >= 1
    /\ \A o \in MergeSet(cur) : Disjoint(m, o)
    /\ mseq' = [mseq EXCEPT ![cur] = Append(@, m)]
    /\ UNCHANGED <<off, rot, lay, cur, items, grid, nv>>

NewSheet ==
    /\ items[cur] # <<>>
    /\ cur' = cur + 1
    /\ items' = Append(items, <<>>) /\ mseq' = Append(mseq, <<>>) /\ grid' = Append(grid, {})
    /\ UNCHANGED <<off, rot, lay, nv>>

\* ------------------------- bounded exploration -------------------------
WindowRects == {m \in (1..Window) \X (1..WindowRows) \X (1..Window) \X (1..WindowRows) : IsRect(m)}
RECURSIVE CountMerges(_)
CountMerges(k) == IF k = 0 THEN 0 ELSE CountMerges(k - 1) + Len(mseq[k])
Shift(m) == <<m[1] + off[1], m[2] + off[2], m[3] + off[1], m[4] + off[2]>>
KindOf(v) == KindSeq[((v - 1 + rot) % Len(KindSeq)) + 1]

Next ==
    \/ \E m \in Rects :
          \* regions are declared before the cells in the exploration; in the file they
          \* live in their own element, so their position among the cells means nothing
          /\ items[cur] = <<>> /\ CountMerges(cur) < MaxMerges
          /\ AddMerge(Shift(m))
    \/ \E c \in 1..Window, r \in 1..WindowRows :
          /\ nv < MaxCells
          /\ Ordered => \A it \in ItemSet(cur) : it.r < off[2] + r \/ (it.r = off[2] + r /\ it.c < off[1] + c)
          /\ WriteCell(off[1] + c, off[2] + r, KindOf(nv + 1), nv + 1)
    \/ cur < MaxSheets /\ NewSheet

Spec == Init /\ [][Next]_vars

\* ------------------------------ properties ------------------------------
TypeOK ==
    /\ cur \in 1..MaxSheets /\ nv \in 0..MaxCells
    /\ Len(items) = cur /\ Len(mseq) = cur /\ Len(grid) = cur
    /\ \A sh \in 1..cur : \A g \in grid[sh] : g.c >= 1 /\ g.r >= 1

\* populated extent of a sheet: largest column / row that has a cell element
Max(S) == IF S = {} THEN 0 ELSE CHOOSE x \in S : \A y \in S : x >= y
Extent(sh) == [c |-> Max({it.c : it \in ItemSet(sh)}), r |-> Max({it.r : it \in ItemSet(sh)})]

\* the merged regions the reader honours, and what it therefore displays
Effective(sh) ==
    IF MergeMode = "all" THEN MergeSet(sh)
    ELSE {m \in MergeSet(sh) : m[1] < Extent(sh).c /\ m[2] < Extent(sh).r}
Hidden(sh, c, r) == \E m \in Effective(sh) : InRect(m, c, r) /\ ~IsRoot(m, c, r)
Shown(sh) == {g \in grid[sh] : ~Hidden(sh, g.c, g.r)}

\* THE property, part 1: every value is stored at the address its reference names,
\* whatever the file order was.
PlacedByRef ==
    \A sh \in 1..cur :
        grid[sh] = { [c |-> it.c, r |-> it.r, d |-> Display(it.t, it.v)] : it \in {x \in ItemSet(sh) : x.t \notin Blank} }

\* one value per address, every value exactly once in the whole workbook
FunctionLike ==
    \A sh \in 1..cur : \A g, h \in grid[sh] : (g.c = h.c /\ g.r = h.r) => g = h

\* part 2, merged regions: blank everywhere but the top-left cell - wherever the region
\* lies relative to the populated grid (first / interior / last row and column, reaching
\* beyond it) and whether or not the covered cells carry stale values in the file
MergeBlank ==
    \A sh \in 1..cur : \A m \in MergeSet(sh) : \A p \in Covered(m) :
        ~ \E g \in Shown(sh) : g.c = p[1] /\ g.r = p[2]

\* ... and the top-left value itself stays visible
RootShown ==
    \A sh \in 1..cur : \A g \in grid[sh] :
        (\A m \in MergeSet(sh) : InRect(m, g.c, g.r) => IsRoot(m, g.c, g.r)) => g \in Shown(sh)

\* merge metadata a grid exposes: the root of region m spans Rows(m) x Cols(m)
SpanRows(m) == m[4] - m[2] + 1
SpanCols(m) == m[3] - m[1] + 1

\* a later item never moves or removes an earlier cell, and adds at most one
Locality ==
    [][ \A sh \in 1..cur : /\ grid[sh] \subseteq grid'[sh]
                           /\ Cardinality(grid'[sh] \ grid[sh]) <= 1 ]_vars

\* ------------------------------ the views ------------------------------
\* sheet grid and tab-separated text are absolute: row r is line r, column c is
\* field c.  The Markdown table and the model table may drop empty leading /
\* trailing rows and columns, i.e. they are the grid translated by one offset
\* for the whole sheet; Bounds is the content box such a translation refers to.
NonBlank(sh) == Shown(sh)
Bounds(sh) ==
    IF Shown(sh) = {} THEN [c1 |-> 0, r1 |-> 0, c2 |-> 0, r2 |-> 0]
    ELSE [c1 |-> CHOOSE x \in {g.c : g \in Shown(sh)} : \A g \in Shown(sh) : x <= g.c,
          r1 |-> CHOOSE x \in {g.r : g \in Shown(sh)} : \A g \in Shown(sh) : x <= g.r,
          c2 |-> CHOOSE x \in {g.c : g \in Shown(sh)} : \A g \in Shown(sh) : x >= g.c,
          r2 |-> CHOOSE x \in {g.r : g \in Shown(sh)} : \A g \in Shown(sh) : x >= g.r]
CoveredSet(sh) == UNION {Covered(m) : m \in MergeSet(sh)}

=============================================================================
