SPECIFICATION Spec
CONSTANTS
  Codec = "bijective"
  Place = "byref"
  Window = 3
  WindowRows = 3
  MergeMode = "all"
  Ordered = FALSE
  Offsets <- Off00
  Rects <- WindowRects
  MaxCells = 3
  MaxMerges = 1
  MaxSheets = 2
  KindSeq <- KindsAll
  Rots = {0}
  Layouts <- LayStd
INVARIANTS TypeOK PlacedByRef FunctionLike MergeBlank
PROPERTIES Locality
CHECK_DEADLOCK FALSE
