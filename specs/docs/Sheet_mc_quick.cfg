SPECIFICATION Spec
CONSTANTS
  Codec = "bijective"
  Place = "byref"
  Window = 3
  Offsets <- OffSmall
  Rects <- WindowRects
  MaxCells = 3
  MaxMerges = 1
  MaxSheets = 2
  Rots = {0, 5}
  Layouts <- LayStd
INVARIANTS TypeOK PlacedByRef FunctionLike MergeBlank
PROPERTIES Locality
CHECK_DEADLOCK FALSE
