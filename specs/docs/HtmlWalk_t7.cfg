SPECIFICATION GenSpec
CONSTANTS
  Opens <- AlphaSet
  Forms = {"plain"}
  Alpha = "q7"
  MaxLen = 4
  MaxDepth = 4
  Lax = FALSE
INVARIANTS Lattice WellNested ContentModelOK DocOrder RefOK
CONSTRAINT Emit
CHECK_DEADLOCK FALSE
