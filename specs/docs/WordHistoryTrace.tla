--------------------------- MODULE WordHistoryTrace ---------------------------
(* Trace validation for WordHistory: "Open" starts a segment (one reader opened *)
(* on a rendered document, the abstract document re-checked against IsDoc),     *)
(* every "Call" is one public call on that reader with the heading level read   *)
(* back per body block (0: not presented as a heading).  The spec's reader is   *)
(* the pure one: a call is accepted only if it presents the levels a freshly    *)
(* opened reader presents.                                                      *)
EXTENDS WordHistory, Json

Trace == ndJsonDeserialize("trace.ndjson")

VARIABLES l,
          seen      \* what this reader showed so far: set of [call, eh, ef]
tvars == <<hvars, l, seen>>

Ev == Trace[l]

NoDoc == [fmt |-> "docx", body |-> <<>>, hdr |-> 0, ftr |-> 0, sheet |-> <<>>]

TraceInit == l = 1 /\ doc = NoDoc /\ pos = 0 /\ out = <<>> /\ held = <<>> /\ xheld = "" /\ hist = <<>> /\ seen = {}

TraceOpen ==
    /\ l <= Len(Trace) /\ Ev.event = "Open" /\ l' = l + 1
    /\ doc' = [fmt |-> Ev.fmt, body |-> Ev.body, hdr |-> Ev.hdr, ftr |-> Ev.ftr, sheet |-> Ev.sheet]
    /\ IsDoc(doc')
    \* (documents whose style sheet leaves a kind open are not used for histories)
    /\ \A i \in 1..Len(doc'.body) : Item(doc', i).k # "PH"
    /\ held' = SrcLevels(doc') /\ xheld' = "" /\ hist' = <<>> /\ seen' = {}
    /\ UNCHANGED <<pos, out>>

TraceCall ==
    /\ l <= Len(Trace) /\ Ev.event = "Call" /\ l' = l + 1
    /\ Ev.op \in {"text", "md", "mdopt", "rag", "doc", "tables"}
    /\ Ev.xo \in {"none", "h", "f", "hf"}
    /\ DoCall([op |-> Ev.op, off |-> Ev.off, mx |-> Ev.mx, xo |-> Ev.xo])
    /\ Ev.levels = hist'[Len(hist')].levels
    \* body paragraphs equal to a header / footer line: all shown unless the call's own options
    \* cover them (then the reader may filter them); never more than the body has
    /\ LET h == hist'[Len(hist')] IN
         /\ Ev.eh <= NEcho(doc, "eh") /\ (h.eh = NEcho(doc, "eh") => Ev.eh = h.eh)
         /\ Ev.ef <= NEcho(doc, "ef") /\ (h.ef = NEcho(doc, "ef") => Ev.ef = h.ef)
    \* and the same call repeats its result on this reader
    /\ LET c == [op |-> Ev.op, off |-> Ev.off, mx |-> Ev.mx, xo |-> Ev.xo] IN
         /\ \A x \in seen : x.call = c => (x.eh = Ev.eh /\ x.ef = Ev.ef)
         /\ seen' = seen \cup {[call |-> c, eh |-> Ev.eh, ef |-> Ev.ef]}

TraceNext == TraceOpen \/ TraceCall

TraceSpec == TraceInit /\ [][TraceNext]_tvars

TraceAccepted == TLCGet("stats").diameter - 1 = Len(Trace)
=============================================================================
