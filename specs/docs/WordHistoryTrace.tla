--------------------------- MODULE WordHistoryTrace ---------------------------
(* Trace validation for WordHistory: "Open" starts a segment (one reader opened *)
(* on a rendered document, the abstract document re-checked against IsDoc),     *)
(* every "Call" is one public call on that reader with the heading level read   *)
(* back per body block (0: not presented as a heading).  The spec's reader is   *)
(* the pure one: a call is accepted only if it presents the levels a freshly    *)
(* opened reader presents.                                                      *)
EXTENDS WordHistory, Json

Trace == ndJsonDeserialize("trace.ndjson")

VARIABLE l
tvars == <<hvars, l>>

Ev == Trace[l]

NoDoc == [fmt |-> "docx", body |-> <<>>, hdr |-> 0, ftr |-> 0, sheet |-> <<>>]

TraceInit == l = 1 /\ doc = NoDoc /\ pos = 0 /\ out = <<>> /\ held = <<>> /\ hist = <<>>

TraceOpen ==
    /\ l <= Len(Trace) /\ Ev.event = "Open" /\ l' = l + 1
    /\ doc' = [fmt |-> Ev.fmt, body |-> Ev.body, hdr |-> Ev.hdr, ftr |-> Ev.ftr, sheet |-> Ev.sheet]
    /\ IsDoc(doc')
    \* (documents whose style sheet leaves a kind open are not used for histories)
    /\ \A i \in 1..Len(doc'.body) : Item(doc', i).k # "PH"
    /\ held' = SrcLevels(doc') /\ hist' = <<>>
    /\ UNCHANGED <<pos, out>>

TraceCall ==
    /\ l <= Len(Trace) /\ Ev.event = "Call" /\ l' = l + 1
    /\ Ev.op \in {"text", "md", "mdopt", "rag", "doc", "tables"}
    /\ DoCall([op |-> Ev.op, off |-> Ev.off, mx |-> Ev.mx])
    /\ Ev.levels = hist'[Len(hist')].levels

TraceNext == TraceOpen \/ TraceCall

TraceSpec == TraceInit /\ [][TraceNext]_tvars

TraceAccepted == TLCGet("stats").diameter - 1 = Len(Trace)
=============================================================================
