SPECIFICATION HSpec
CONSTANTS
  Docs <- HDocs
  Calls <- HCalls
  MaxLen = 2
  Cache = "firstxo"
INVARIANTS Purity

CHECK_DEADLOCK FALSE
