SPECIFICATION ImplSpec
CONSTANTS
  Docs <- ImplDocs
  Matcher = "blind"
  MaxB = 4
INVARIANTS ImplSane ImplOrder
CHECK_DEADLOCK FALSE
