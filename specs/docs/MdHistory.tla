------------------------------ MODULE MdHistory ------------------------------
(***************************************************************************)
(* Renderings are actions on a Reader.  A Reader is opened on a document   *)
(* and parses it into cached elements (one cache per navigation-exclusion  *)
(* mode, filled on first use; the unfiltered one at open time).  Every     *)
(* later call - Markdown, Markdown with RAG options (heading offset / max, *)
(* front matter, table of contents), Text, Document - renders from the     *)
(* cache of its mode.                                                      *)
(*                                                                         *)
(* Property (purity of rendering): whatever was called before, a call      *)
(* returns what the same call returns on a freshly opened Reader; equally: *)
(* no call changes the cached elements.  What a fresh Reader returns is    *)
(* Markdown.tla's Expected for the call's options.                         *)
(*                                                                         *)
(* Cache = "writeback" is an implementation-shaped Reader whose Markdown   *)
(* renderer stores the mapped heading level back into the cached element;  *)
(* TLC must refute purity for it.                                          *)
(***************************************************************************)
EXTENDS DocModel, SequencesExt

CONSTANTS Docs,      \* documents: sequences of elements (Markdown.tla's elements plus nav |-> BOOLEAN:
                     \* the element sits inside a <nav> block)
          Calls,     \* [op |-> "md" | "rag" | "text" | "doc", nav, off, mx, meta, toc]
          MaxLen,    \* calls per history
          Cache      \* "pure" | "writeback"

NoExpand(d) == [els |-> <<>>, off |-> 0, mx |-> 6, meta |-> FALSE]
M == INSTANCE Markdown WITH Cases <- {}, Expand <- NoExpand, Esc <- "escape", Header <- "first", Merge <- "grid", Sep <- "each", Dedup <- "none", Width <- "widest",
                            cas <- 0, pc <- 0, out <- <<>>, done <- TRUE

Modes == {"none", "explicit", "standard", "aggressive"}

VARIABLES doc,       \* the document the Reader was opened on
          cache,     \* mode -> [parsed, levels]: heading level per element position (0: not a heading)
          hist       \* the calls so far with the heading levels each returned

hvars == <<doc, cache, hist>>

SrcLevels(d) == [n \in 1..Len(d) |-> IF d[n].t = "heading" THEN d[n].level ELSE 0]

\* <nav> content is excluded by every mode but "none"
Visible(el, mode) == ~el.nav \/ mode = "none"

EffOff(c) == IF c.op = "rag" THEN c.off ELSE 0
EffMx(c)  == IF c.op = "rag" THEN c.mx ELSE 6

\* the heading levels a call writes when the Reader holds levels L
OutLevels(L, c) ==
    [n \in 1..Len(L) |-> IF L[n] = 0 THEN 0
                         ELSE IF c.op \in {"md", "rag"} THEN Out(L[n], EffOff(c), EffMx(c))
                         ELSE L[n]]

Init == /\ doc \in Docs
        /\ cache = [m \in Modes |-> [parsed |-> m = "none", levels |-> SrcLevels(doc)]]
        /\ hist = <<>>

\* one public call on the Reader
DoCall(c) ==
    LET L == IF cache[c.nav].parsed THEN cache[c.nav].levels ELSE SrcLevels(doc)
        O == OutLevels(L, c)
    IN /\ cache' = [cache EXCEPT ![c.nav] = [parsed |-> TRUE,
                                             levels |-> IF Cache = "writeback" /\ c.op \in {"md", "rag"} THEN O ELSE L]]
       /\ hist' = Append(hist, [call |-> c, levels |-> O])
       /\ UNCHANGED doc

Next == \E c \in Calls : Len(hist) < MaxLen /\ DoCall(c)

Spec == Init /\ [][Next]_hvars

\* ------------------------------------------------------------- properties
Fresh(d, c) == OutLevels(SrcLevels(d), c)

\* every rendering equals the rendering of a fresh Reader for the same options
Purity == \A n \in 1..Len(hist) : hist[n].levels = Fresh(doc, hist[n].call)

\* no call changes what the Reader holds
CacheFaithful == \A m \in Modes : cache[m].levels = SrcLevels(doc)

\* what a fresh Reader returns for a call: the structure of the visible elements
VisibleEls(d, c) == SelectSeq(d, LAMBDA el : Visible(el, c.nav))
ExpectedFor(d, c) == M!Expected([els |-> VisibleEls(d, c), off |-> EffOff(c), mx |-> EffMx(c), meta |-> c.meta])

TypeOK == Len(hist) <= MaxLen /\ \A n \in 1..Len(hist) : hist[n].call \in Calls
=============================================================================
