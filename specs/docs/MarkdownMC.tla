----------------------------- MODULE MarkdownMC -----------------------------
(* Bounded instances of Markdown: tables <= 3x3 over the cell alphabet with  *)
(* merged cells, the heading arithmetic (9 levels x offsets -2..7 x max      *)
(* 1..6), list shapes <= 5 items x depth <= 3, combined documents; emission. *)
EXTENDS Markdown, Json

CONSTANTS MaxSpecial,   \* special (non-plain) cells per enumerated table
          FullCells,    \* tables with at most this many cells are enumerated over the full alphabet
          MaxRepeat     \* headings per document of the repeated-content family

\* ---------------------------------------------------------------- tables
SpecialKinds == {"pipe", "nl", "empty", "padded", "uni"}
Pos(nr, nc) == (1..nr) \X (1..nc)
\* assignments of special kinds to at most n positions: sequences of <<r, c, kind>> with
\* distinct, increasing positions (descriptors are tuples: cheap to compare and fingerprint)
Later(nr, nc, p) == {x \in Pos(nr, nc) : x[1] > p[1] \/ (x[1] = p[1] /\ x[2] > p[2])}
Specials(nr, nc, n) ==
    {<<>>} \cup (IF n >= 1 THEN {<<<<p[1], p[2], kd>>>> : p \in Pos(nr, nc), kd \in SpecialKinds} ELSE {})
           \cup (IF n >= 2 THEN UNION {{<<<<p[1], p[2], kd>>, <<q[1], q[2], ke>>>> :
                                           q \in Later(nr, nc, p), kd \in SpecialKinds, ke \in SpecialKinds} : p \in Pos(nr, nc)}
                           ELSE {})
Merges(nr, nc) == {<<r, c, rs, cs>> : r \in 1..nr, c \in 1..nc, rs \in 1..2, cs \in 1..2} 
MergesFit(nr, nc) == {m \in Merges(nr, nc) : m[3] * m[4] > 1 /\ m[1] + m[3] - 1 <= nr /\ m[2] + m[4] - 1 <= nc}

KindOf(sp, r, c) == IF \E n \in 1..Len(sp) : sp[n][1] = r /\ sp[n][2] = c
                    THEN sp[CHOOSE n \in 1..Len(sp) : sp[n][1] = r /\ sp[n][2] = c][3] ELSE "plain"

\* <<"T", nr, nc, hm, specials, merge>>       merge = <<0,0,1,1>>: none;  hm: header marking
Shapes == (1..3) \X (1..3)
MarksFor(nr, S) == {hm \in S : HMarkFits(hm, nr)}
CasesTOk == UNION {{<<"T", sh[1], sh[2], h, sp, <<0, 0, 1, 1>>>> : h \in MarksFor(sh[1], HMarks), sp \in Specials(sh[1], sh[2], MaxSpecial)} : sh \in Shapes}
\* merged tables: every marking without special cells; with a special cell every marking only in the
\* larger configuration (MaxSpecial >= 2), otherwise the first-row marking
CasesTM == UNION {{<<"T", sh[1], sh[2], h, sp, m>> : h \in MarksFor(sh[1], {"none", "first", "lead2"}),
                                                      sp \in IF MaxSpecial >= 2 THEN Specials(sh[1], sh[2], 1) ELSE {<<>>},
                                                      m \in MergesFit(sh[1], sh[2])} : sh \in Shapes}
           \cup UNION {{<<"T", sh[1], sh[2], "first", sp, m>> : sp \in Specials(sh[1], sh[2], 1), m \in MergesFit(sh[1], sh[2])} : sh \in Shapes}
\* full alphabet on small tables: <<"F", nr, nc, hm, kinds as a function>>
CasesF == UNION {{<<"F", sh[1], sh[2], h, kd>> : h \in MarksFor(sh[1], IF FullCells >= 4 THEN {"none", "first", "all"} ELSE {"none", "first"}), kd \in [1..sh[1] -> [1..sh[2] -> CellKinds]]} :
                   sh \in {x \in Shapes : x[1] * x[2] <= FullCells}}

TableOf(d) ==
    IF d[1] = "T"
    THEN [nr |-> d[2], nc |-> d[3], off |-> 0, hm |-> d[4], hdr |-> 1 \in HdrRowsOf(d[4], d[2]),
          kind |-> [r \in 1..d[2] |-> [c \in 1..d[3] |-> KindOf(d[5], r, c)]],
          m |-> [r |-> d[6][1], c |-> d[6][2], rs |-> d[6][3], cs |-> d[6][4]]]
    ELSE [nr |-> d[2], nc |-> d[3], off |-> 0, hm |-> d[4], hdr |-> 1 \in HdrRowsOf(d[4], d[2]), kind |-> d[5], m |-> NoMerge]

\* ---------------------------------------------------------------- headings
CasesH == {<<"H", lv, off, mx>> : lv \in 1..9, off \in -2..7, mx \in 1..6}

\* ---------------------------------------------------------------- lists
DepthSeqs(n) == {s \in [1..n -> 0..3] : s[1] = 0 /\ \A x \in 1..(n - 1) : s[x + 1] <= s[x] + 1}
ItemsOf(ds, ks) == [n \in 1..Len(ds) |-> [d |-> ds[n], k |-> ks[n], w |-> "i" \o ToString(n)]]
CasesL == UNION {{<<"L", ds, ks>> : ds \in DepthSeqs(n), ks \in [1..n -> {"o", "u"}]} : n \in 1..5}
CasesLOk == {x \in CasesL : WellFormedList(ItemsOf(x[2], x[3]))}

\* ---------------------------------------------------------------- documents
\* <<"D", off, mx, meta, toc>>: headings, paragraphs, a nested list and a table with specials
CasesD == {<<"D", off, mx, me, toc>> : off \in {-1, 0, 2}, mx \in {2, 6}, me \in BOOLEAN, toc \in BOOLEAN}

H(lv, w) == [t |-> "heading", level |-> lv, w |-> w]
P(w) == [t |-> "para", w |-> w]
DocTable == [nr |-> 2, nc |-> 3, off |-> 0, hm |-> "first", hdr |-> TRUE,
             kind |-> <<<<"plain", "pipe", "plain">>, <<"empty", "nl", "padded">>>>, m |-> NoMerge]
DocList == <<[d |-> 0, k |-> "u", w |-> "i1"], [d |-> 1, k |-> "u", w |-> "i2"], [d |-> 2, k |-> "u", w |-> "i3"],
             [d |-> 0, k |-> "u", w |-> "i4"]>>

\* ---------------------------------------------------------------- ragged tables
\* <<"G", nr, nc, rw, hm>>: rows with differing numbers of cells (rw[r] cells in row r, the widest row nc):
\* a first row narrower than the rest (a one-cell caption row), a first row wider, a short row in the middle
\* or at the end.  Every row has at least one cell (a row without cells has no text to keep, and ODF does
\* not allow one).
RowWidths(nr, nc) == {w \in [1..nr -> 1..nc] : (\E r \in 1..nr : w[r] = nc) /\ (\E r \in 1..nr : w[r] < nc)}
CasesG == UNION {{<<"G", sh[1], sh[2], w, h>> : w \in RowWidths(sh[1], sh[2]), h \in {"none", "first"}} :
                   sh \in {x \in Shapes : x[1] >= 2 /\ x[2] >= 2}}
RaggedTable(d) == [nr |-> d[2], nc |-> d[3], off |-> 0, hm |-> d[5], hdr |-> d[5] = "first", rw |-> d[4],
                   kind |-> [r \in 1..d[2] |-> [c \in 1..d[3] |-> IF r = 2 /\ c = 1 THEN "pipe" ELSE "plain"]], m |-> NoMerge]

\* ---------------------------------------------------------------- repeated content
\* <<"R", hs, sep, toc>>: a document of 2..MaxRepeat headings <<level, word>> over two words in which some
\* heading text occurs again - at the same or another level, next to its twin or apart, under the same
\* or another parent; sep = "para": a paragraph after every heading.
\* <<"RX", n, toc>>: a paragraph / list item / table cell / later heading that repeats a heading's text.
HOpts == {<<lv, w>> : lv \in {1, 2}, w \in {"rA", "rB"}}
HasRepeat(hs) == \E a, b \in 1..Len(hs) : a # b /\ hs[a][2] = hs[b][2]
CasesR == {<<"R", hs, sp, toc>> : hs \in {x \in UNION {[1..n -> HOpts] : n \in 2..MaxRepeat} : HasRepeat(x)},
                                  sp \in {"none", "para"}, toc \in BOOLEAN}
RepEls(hs, sp) ==
    IF sp = "none" THEN [x \in 1..Len(hs) |-> H(hs[x][1], hs[x][2])]
    ELSE [x \in 1..(2 * Len(hs)) |-> IF x % 2 = 1 THEN H(hs[(x + 1) \div 2][1], hs[(x + 1) \div 2][2])
                                                 ELSE P("p" \o ToString(x \div 2))]
RepTable == [nr |-> 2, nc |-> 2, off |-> 0, hm |-> "first", hdr |-> TRUE, kind |-> <<<<"plain", "rep">>, <<"plain", "plain">>>>, m |-> NoMerge]
RItem(d, kk, w) == [d |-> d, k |-> kk, w |-> w]
RXEls(n) ==
    CASE n = 1 -> <<H(2, "rA"), P("rA")>>
      [] n = 2 -> <<H(2, "rA"), [t |-> "list", items |-> <<RItem(0, "u", "rA"), RItem(0, "u", "i2")>>]>>
      [] n = 3 -> <<H(2, "rA"), P("p1"), [t |-> "table", tb |-> RepTable]>>
      [] n = 4 -> <<H(1, "rA"), P("p1"), H(2, "rB"), P("rA"), H(3, "rA"), [t |-> "list", items |-> <<RItem(0, "o", "rB"), RItem(1, "u", "rA")>>]>>
      [] n = 5 -> <<[t |-> "list", items |-> <<RItem(0, "u", "rA")>>], H(2, "rA"), P("rA"), H(2, "rA")>>
CasesRX == {<<"RX", n, toc>> : n \in 1..5, toc \in BOOLEAN}

\* ---------------------------------------------------------------- block sequences
\* <<"S", kinds, off>>: a document that is a sequence of 2..4 blocks of kinds T(able) H(eading) L(ist)
\* P(aragraph) with at least one table: tables next to each other (two and three in a row) and next to
\* every other block kind, as first and as last block.  The n-th table of a document is SeqTable(n).
SeqTable(n) ==
    CASE n = 1 -> [nr |-> 2, nc |-> 2, off |-> 0, hm |-> "first", hdr |-> TRUE, kind |-> <<<<"plain", "pipe">>, <<"plain", "plain">>>>, m |-> NoMerge]
      [] n = 2 -> [nr |-> 1, nc |-> 2, off |-> 3, hm |-> "none", hdr |-> FALSE, kind |-> <<<<"plain", "empty">>>>, m |-> NoMerge]
      [] OTHER -> [nr |-> 2, nc |-> 1, off |-> 6, hm |-> "lead2", hdr |-> TRUE, kind |-> <<<<"nl">>, <<"plain">>>>, m |-> NoMerge]
\* (no two lists in a row: Markdown has no way to keep two adjacent lists of the same marker apart -
\* a blank line between them makes one loose list - and the property is about items, not list borders)
SeqKinds == {s \in UNION {[1..n -> {"T", "H", "L", "P"}] : n \in 2..3} :
                 /\ \E x \in 1..Len(s) : s[x] = "T"
                 /\ \A x \in 1..(Len(s) - 1) : ~(s[x] = "L" /\ s[x + 1] = "L")}
            \cup {<<"H", "T", "T", "P">>, <<"L", "T", "T", "T">>, <<"T", "T", "L", "T">>}
TablesBefore(s, x) == Cardinality({y \in 1..(x - 1) : s[y] = "T"})
SeqEl(s, x) ==
    CASE s[x] = "T" -> [t |-> "table", tb |-> SeqTable(TablesBefore(s, x) + 1)]
      [] s[x] = "H" -> H(2, "h" \o ToString(x))
      [] s[x] = "L" -> [t |-> "list", items |-> <<[d |-> 0, k |-> "u", w |-> "i" \o ToString(x) \o "a"], [d |-> 1, k |-> "o", w |-> "i" \o ToString(x) \o "b"]>>]
      [] s[x] = "P" -> P("p" \o ToString(x))
CasesS == {<<"S", s, off>> : s \in SeqKinds, off \in {0, 1}}

McExpand(d) ==
    CASE d[1] \in {"T", "F"} -> [els |-> <<[t |-> "table", tb |-> TableOf(d)]>>, off |-> 0, mx |-> 6, meta |-> FALSE, toc |-> FALSE]
      [] d[1] = "H" -> [els |-> <<H(d[2], "hX"), P("pX")>>, off |-> d[3], mx |-> d[4], meta |-> FALSE, toc |-> FALSE]
      [] d[1] = "L" -> [els |-> <<[t |-> "list", items |-> ItemsOf(d[2], d[3])]>>, off |-> 0, mx |-> 6, meta |-> FALSE, toc |-> FALSE]
      [] d[1] = "G" -> [els |-> <<[t |-> "table", tb |-> RaggedTable(d)]>>, off |-> 0, mx |-> 6, meta |-> FALSE, toc |-> FALSE]
      [] d[1] = "R" -> [els |-> RepEls(d[2], d[3]), off |-> 0, mx |-> 6, meta |-> FALSE, toc |-> d[4]]
      [] d[1] = "RX" -> [els |-> RXEls(d[2]), off |-> 0, mx |-> 6, meta |-> FALSE, toc |-> d[3]]
      [] d[1] = "S" -> [els |-> [x \in 1..Len(d[2]) |-> SeqEl(d[2], x)], off |-> d[3], mx |-> 6, meta |-> FALSE, toc |-> FALSE]
      [] d[1] = "D" -> [els |-> <<H(1, "hA"), P("pA"), H(2, "hB"), [t |-> "list", items |-> DocList], P("pB"),
                                  [t |-> "table", tb |-> DocTable], H(3, "hC"), P("pC")>>,
                        off |-> d[2], mx |-> d[3], meta |-> d[4], toc |-> d[5]]

AllCases == CasesG \cup CasesR \cup CasesRX \cup CasesS \cup CasesTOk \cup CasesTM \cup CasesF \cup CasesH \cup CasesLOk \cup CasesD
TableCases == CasesTOk \cup CasesTM
\* the negative controls only need small tables
ImplCases == {x \in TableCases : x[2] <= 2 /\ x[3] <= 2}
SeqCases == {x \in CasesS : x[3] = 0}
RepCases == {x \in CasesR : x[4] = FALSE}

\* ---------------------------------------------------------------- emission
Repeat(s, n) == FoldLeft(LAMBDA a, b : a \o s, "", [x \in 1..n |-> x])
LineText(ln) ==
    CASE ln.t = "h"     -> Repeat("#", ln.n) \o " " \o ln.s
      [] ln.t = "row"   -> FoldLeft(LAMBDA a, c : a \o " " \o c.src \o " |", "|", ln.cells)
      [] ln.t = "sep"   -> "|" \o Repeat(" --- |", ln.n)
      [] ln.t = "li"    -> Repeat(" ", ln.ind) \o (IF ln.k = "o" THEN "1. " ELSE "- ") \o ln.s
      [] ln.t = "p"     -> ln.s
      [] ln.t = "fm"    -> ln.s
      [] ln.t = "blank" -> ""

ElOut(el) ==
    CASE el.t = "table"   -> [t |-> "table", nr |-> el.tb.nr, nc |-> el.tb.nc, off |-> el.tb.off, hdr |-> el.tb.hdr, hm |-> el.tb.hm,
                              hrows |-> SetToSortSeq(HdrRowsOf(el.tb.hm, el.tb.nr), <), merged |-> HasMerge(el.tb), ragged |-> IsRagged(el.tb),
                              src |-> Src(el.tb), special |-> Special(el.tb)]
      [] el.t = "heading" -> [t |-> "heading", level |-> el.level, w |-> el.w]
      [] el.t = "list"    -> [t |-> "list", items |-> el.items, uniform |-> Uniform(el.items)]
      [] el.t = "para"    -> [t |-> "para", w |-> el.w]

EmitCase == done => PrintT(ToJson(
    [kind |-> cas[1], off |-> Doc.off, mx |-> Doc.mx, meta |-> Doc.meta, toc |-> Doc.toc,
     els |-> [e \in 1..Len(Doc.els) |-> ElOut(Doc.els[e])],
     exp |-> Expected(Doc),
     ref |-> [n \in 1..Len(out) |-> LineText(out[n])]]))
=============================================================================
