--------------------------- MODULE PartsHistoryTrace ---------------------------
(* Trace validation for PartsHistory: "Pkg" starts a segment (one pptx.Reader /   *)
(* epubdoc.Reader opened on a package the harness built; re-checked for well-      *)
(* formedness), every "Call" is one public call on that reader with the content    *)
(* tokens read back in order and the count the reader reports.  The spec's reader  *)
(* is the pure one.                                                                *)
EXTENDS PartsHistory, Json

Trace == ndJsonDeserialize("trace.ndjson")
VARIABLE l
tvars == <<hvars, l>>
Ev == Trace[l]

NoPkg == [fmt |-> "none", base |-> <<>>, roots |-> <<>>, parts |-> <<>>]
TraceInit == l = 1 /\ pkg = NoPkg /\ pages = <<>> /\ pos = 0 /\ held = <<>> /\ hist = <<>>

TracePkg ==
    /\ l <= Len(Trace) /\ Ev.event = "Pkg" /\ l' = l + 1
    /\ pkg' = [fmt |-> Ev.fmt, base |-> Ev.base, roots |-> Ev.roots, parts |-> Ev.parts]
    /\ WellFormed(pkg')
    /\ held' = Expected(pkg') /\ hist' = <<>>
    /\ UNCHANGED <<pages, pos>>

TraceCall ==
    /\ l <= Len(Trace) /\ Ev.event = "Call" /\ l' = l + 1
    /\ Ev.op \in {"text", "textopt", "md", "mdopt", "rag", "doc", "count", "part", "toc"}
    /\ (Ev.op = "toc" => pkg.fmt = "epub")
    /\ DoCall([op |-> Ev.op, sel |-> Ev.sel, opt |-> Ev.opt])
    /\ (Ev.op \notin {"toc", "count"} => Ev.toks = hist'[Len(hist')].view)
    /\ Ev.count = hist'[Len(hist')].count

TraceNext == TracePkg \/ TraceCall
TraceSpec == TraceInit /\ [][TraceNext]_tvars
TraceAccepted == TLCGet("stats").diameter - 1 = Len(Trace)
=============================================================================
