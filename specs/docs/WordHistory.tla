----------------------------- MODULE WordHistory -----------------------------
(***************************************************************************)
(* C16 - renderings are calls on ONE reader.  A docx.Reader / odt.Reader   *)
(* parses the document once (Open) and keeps the parsed paragraphs; Text,  *)
(* Markdown, MarkdownWithOptions, MarkdownWithRAGOptions(offset, max),     *)
(* Document and Tables render from what the reader holds.                  *)
(*                                                                         *)
(* The state the property talks about is the heading level the reader      *)
(* holds for every body block (0: not a heading).  Each view presents it   *)
(* in its own way - the document model keeps the authored level (1..9,     *)
(* ODT 1..10), Markdown has six levels, the RAG options shift and cap -    *)
(* but no call may change it:                                              *)
(*   Purity       every call returns what the same call returns on a       *)
(*                freshly opened reader, whatever was called before        *)
(*   HeldFaithful the reader still holds the authored levels               *)
(*                                                                         *)
(* Cache = "writeback" is the implementation-shaped reader whose Markdown  *)
(* renderer stores the level it wrote (capped at six) back into the parsed *)
(* paragraph; TLC must refute Purity for it (Markdown, then Document, on a *)
(* heading deeper than level six).  Cache = "firstxo" is the reader that    *)
(* collects the header / footer lines to filter for the options of its     *)
(* first excluding call and never again; TLC refutes Purity for it too.    *)
(***************************************************************************)
EXTENDS WordDoc

CONSTANTS Calls,     \* [op |-> "text" | "md" | "mdopt" | "rag" | "doc" | "tables", off, mx, xo]
                     \* xo = the call's own extraction options (ExcludeHeaders / ExcludeFooters):
                     \* "none" | "h" | "f" | "hf"; text, mdopt and rag take them
          MaxLen,    \* calls per history
          Cache      \* "pure" | "writeback" | "firstxo"

VARIABLES held,      \* the heading level the reader holds per body block
          xheld,     \* the exclusion options the reader holds ("": none) - implementation-shaped
                     \* reader "firstxo": the header / footer lines to filter are collected for the
                     \* options of the first excluding call and kept
          hist       \* the calls so far, each with the levels it presented and the number of
                     \* body paragraphs equal to the header line / footer line it showed

hvars == <<doc, pos, out, held, xheld, hist>>

\* body paragraphs that equal the header line / the footer line
NEcho(d, a) == Cardinality({i \in 1..Len(d.body) : IsEcho(d.body[i], a)})
TakesXo(c) == c.op \in {"text", "mdopt", "rag"}
\* ExcludeHeaders / ExcludeFooters filter out body paragraphs that match a header / footer
\* line; a paragraph the call's own options do not cover is body content and is shown
Covers(xo, a) == (a = "eh" /\ xo \in {"h", "hf"}) \/ (a = "ef" /\ xo \in {"f", "hf"})
EchoShown(d, xo, a) == IF Covers(xo, a) THEN 0 ELSE NEcho(d, a)

SrcLevels(d) == [i \in 1..Len(d.body) |-> IF Item(d, i).k = "H" THEN Item(d, i).lvl ELSE 0]

Clamp(x, lo, hi) == IF x < lo THEN lo ELSE IF x > hi THEN hi ELSE x

\* the number of # a Markdown view writes for a heading of level l: shifted by the heading
\* offset, capped by the maximum heading level if one is given (mx > 0), and by six
MdOut(l, off, mx) == Clamp(l + off, 1, IF mx > 0 /\ mx < 6 THEN mx ELSE 6)

Shows(c) == c.op \in {"md", "mdopt", "rag", "doc"}     \* views that present heading levels

View(L, c) == [i \in 1..Len(L) |->
                 IF L[i] = 0 \/ ~Shows(c) THEN 0
                 ELSE IF c.op = "doc" THEN L[i]
                 ELSE IF c.op = "rag" THEN MdOut(L[i], c.off, c.mx)
                 ELSE MdOut(L[i], 0, 0)]

HInit == /\ doc \in Docs /\ pos = 0 /\ out = <<>>
         /\ held = SrcLevels(doc) /\ xheld = "" /\ hist = <<>>

\* one public call on the reader
OwnXo(c) == IF TakesXo(c) THEN c.xo ELSE "none"

DoCall(c) ==
    LET O  == View(held, c)
        \* the options the filter actually uses
        xo == IF Cache = "firstxo" /\ OwnXo(c) # "none" /\ xheld # "" THEN xheld ELSE OwnXo(c)
    IN
    /\ held' = IF Cache = "writeback" /\ c.op \in {"md", "mdopt", "rag"}
               THEN [i \in 1..Len(held) |-> IF held[i] = 0 THEN 0 ELSE O[i]]
               ELSE held
    /\ xheld' = IF Cache = "firstxo" /\ OwnXo(c) # "none" /\ xheld = "" THEN OwnXo(c) ELSE xheld
    /\ hist' = Append(hist, [call |-> c, levels |-> O,
                             eh |-> IF c.op = "tables" THEN 0 ELSE EchoShown(doc, xo, "eh"),
                             ef |-> IF c.op = "tables" THEN 0 ELSE EchoShown(doc, xo, "ef")])
    /\ UNCHANGED <<doc, pos, out>>

HNext == \E c \in Calls : Len(hist) < MaxLen /\ DoCall(c)

HSpec == HInit /\ [][HNext]_hvars

Fresh(d, c) == View(SrcLevels(d), c)

FreshEcho(d, c, a) == IF c.op = "tables" THEN 0 ELSE EchoShown(d, OwnXo(c), a)

Purity       == \A n \in 1..Len(hist) : /\ hist[n].levels = Fresh(doc, hist[n].call)
                                          /\ hist[n].eh = FreshEcho(doc, hist[n].call, "eh")
                                          /\ hist[n].ef = FreshEcho(doc, hist[n].call, "ef")
HeldFaithful == held = SrcLevels(doc)
HTypeOK      == IsDoc(doc) /\ Len(hist) <= MaxLen /\ Len(held) = Len(doc.body)
=============================================================================
