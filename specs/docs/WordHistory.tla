----------------------------- MODULE WordHistory -----------------------------
(***************************************************************************)
(* C16 - renderings are calls on ONE reader.  A docx.Reader / odt.Reader   *)
(* parses the document once (Open) and keeps the parsed paragraphs; Text,  *)
(* Markdown, MarkdownWithOptions, MarkdownWithRAGOptions(offset, max),     *)
(* Document and Tables render from what the reader holds.                  *)
(*                                                                         *)
(* The state the property talks about is the heading level the reader      *)
(* holds for every body block (0: not a heading).  Each view presents it   *)
(* in its own way - the document model keeps the authored level (1..9,     *)
(* ODT 1..10), Markdown has six levels, the RAG options shift and cap -    *)
(* but no call may change it:                                              *)
(*   Purity       every call returns what the same call returns on a       *)
(*                freshly opened reader, whatever was called before        *)
(*   HeldFaithful the reader still holds the authored levels               *)
(*                                                                         *)
(* Cache = "writeback" is the implementation-shaped reader whose Markdown  *)
(* renderer stores the level it wrote (capped at six) back into the parsed *)
(* paragraph; TLC must refute Purity for it (Markdown, then Document, on a *)
(* heading deeper than level six).                                         *)
(***************************************************************************)
EXTENDS WordDoc

CONSTANTS Calls,     \* [op |-> "text" | "md" | "mdopt" | "rag" | "doc" | "tables", off, mx]
          MaxLen,    \* calls per history
          Cache      \* "pure" | "writeback"

VARIABLES held,      \* the heading level the reader holds per body block
          hist       \* the calls so far, each with the levels it presented

hvars == <<doc, pos, out, held, hist>>

SrcLevels(d) == [i \in 1..Len(d.body) |-> IF Item(d, i).k = "H" THEN Item(d, i).lvl ELSE 0]

Clamp(x, lo, hi) == IF x < lo THEN lo ELSE IF x > hi THEN hi ELSE x

\* the number of # a Markdown view writes for a heading of level l: shifted by the heading
\* offset, capped by the maximum heading level if one is given (mx > 0), and by six
MdOut(l, off, mx) == Clamp(l + off, 1, IF mx > 0 /\ mx < 6 THEN mx ELSE 6)

Shows(c) == c.op \in {"md", "mdopt", "rag", "doc"}     \* views that present heading levels

View(L, c) == [i \in 1..Len(L) |->
                 IF L[i] = 0 \/ ~Shows(c) THEN 0
                 ELSE IF c.op = "doc" THEN L[i]
                 ELSE IF c.op = "rag" THEN MdOut(L[i], c.off, c.mx)
                 ELSE MdOut(L[i], 0, 0)]

HInit == /\ doc \in Docs /\ pos = 0 /\ out = <<>>
         /\ held = SrcLevels(doc) /\ hist = <<>>

\* one public call on the reader
DoCall(c) ==
    LET O == View(held, c) IN
    /\ held' = IF Cache = "writeback" /\ c.op \in {"md", "mdopt", "rag"}
               THEN [i \in 1..Len(held) |-> IF held[i] = 0 THEN 0 ELSE O[i]]
               ELSE held
    /\ hist' = Append(hist, [call |-> c, levels |-> O])
    /\ UNCHANGED <<doc, pos, out>>

HNext == \E c \in Calls : Len(hist) < MaxLen /\ DoCall(c)

HSpec == HInit /\ [][HNext]_hvars

Fresh(d, c) == View(SrcLevels(d), c)

Purity       == \A n \in 1..Len(hist) : hist[n].levels = Fresh(doc, hist[n].call)
HeldFaithful == held = SrcLevels(doc)
HTypeOK      == IsDoc(doc) /\ Len(hist) <= MaxLen /\ Len(held) = Len(doc.body)
=============================================================================
