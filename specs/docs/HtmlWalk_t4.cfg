SPECIFICATION GenSpec
CONSTANTS
  Opens <- AlphaSet
  Forms = {"plain", "amp", "num"}
  Alpha = "q4"
  MaxLen = 4
  MaxDepth = 6
INVARIANTS Lattice WellNested ContentModelOK DocOrder RefOK
CONSTRAINT Emit
CHECK_DEADLOCK FALSE
