SPECIFICATION GenSpec
CONSTANTS
  Opens <- AlphaSet
  Forms = {"plain", "amp", "num"}
  Alpha = "q4"
  MaxLen = 4
  MaxDepth = 6
  Lax = FALSE
INVARIANTS Lattice WellNested ContentModelOK DocOrder RefOK
CONSTRAINT Emit
CHECK_DEADLOCK FALSE
