SPECIFICATION TraceSpec
CONSTANTS
  Docs = {}
  Calls = {}
  MaxLen = 1000000
  Cache = "pure"
INVARIANTS CacheFaithful
POSTCONDITION TraceAccepted
CHECK_DEADLOCK FALSE
