SPECIFICATION Spec
CONSTANTS
  Docs <- McDocs
  Calls <- McCalls
  MaxLen = 2
  Cache = "pure"
  Wide = TRUE
INVARIANTS TypeOK Purity CacheFaithful
CONSTRAINT EmitHist
CHECK_DEADLOCK FALSE
