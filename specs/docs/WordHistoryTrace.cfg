SPECIFICATION TraceSpec
CONSTANTS
  Docs = {}
  Calls = {}
  MaxLen = 1000000
  Cache = "pure"
INVARIANTS Purity HeldFaithful
POSTCONDITION TraceAccepted
CHECK_DEADLOCK FALSE
