SPECIFICATION GenSpec
CONSTANTS
  Opens <- AlphaSet
  Forms = {"plain"}
  Alpha = "q8b"
  MaxLen = 4
  MaxDepth = 4
  Lax = FALSE
INVARIANTS Lattice WellNested ContentModelOK DocOrder RefOK
CONSTRAINT Emit
CHECK_DEADLOCK FALSE
