SPECIFICATION GenSpec
CONSTANTS
  Opens <- AlphaSet
  Forms = {"plain"}
  Alpha = "q3"
  MaxLen = 4
  MaxDepth = 8
  Lax = FALSE
INVARIANTS PinnedLiOK
CHECK_DEADLOCK FALSE
