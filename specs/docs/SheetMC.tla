------------------------------ MODULE SheetMC ------------------------------
(* Bounded instances of Sheet: physical layout of the emitted workbook and    *)
(* case emission.  Every reachable state whose last sheet is not empty is one *)
(* workbook; the case carries the file layout (rows and cells in file order,  *)
(* every reference rendered by the spec's own codec, the shared string table) *)
(* and the expected displayed cells, merged-region blanks and content box.    *)
EXTENDS Sheet, Json, SequencesExt

\* --- constants for the configs ---
OffSmall == { <<0, 0>>, <<24, 7>> }                 \* A1.. ; Y8.. (crosses Z/AA and 9/10)
OffAll   == { <<0, 0>>, <<24, 7>>, <<1, 2>>, <<698, 196>> }   \* .. ; ZW197..ZZ200 with Window 4
OffZZ3   == { <<0, 0>>, <<24, 7>>, <<699, 197>> }   \* Window 3: ZX198..ZZ200
\* layout of the file: rowR  - <row> elements carry their r attribute
\*                     sstRev - shared string table reversed behind an unused plain item
\*                     perm  - <<>> or a permutation of 1..4: the items are ordered by perm[order of use]
\*                     pad   - extra items nobody needs: "none", "emptyFirst" / "emptyMid" / "emptyLast"
\*                             (an empty <si/>), "richFirst" (an unused item made of rich-text runs)
\*                     xml   - the SPELLING of workbook.xml, its relationships and of the <c> attributes (r / s / t
\*                             order, quotes, <c></c>, prefix of the relationships namespace, an ignorable foreign id
\*                             attribute on <sheet>, comments between entries, XML declaration / BOM); never matters
SXml(rev, prefix, single, foreign, oc, gaps, decl) ==
    [rev |-> rev, prefix |-> prefix, single |-> single, foreign |-> foreign, oc |-> oc, gaps |-> gaps, decl |-> decl]
SXStd == SXml(FALSE, "r", FALSE, FALSE, FALSE, FALSE, "std")
\*                     valsp - the VALUE ALPHABET of the string cells: every string value is its token followed by a
\*                             special character and a letter: "none", "pipe" |, "bslash" \, "star" *, "under" _,
\*                             "tick" `, "lt" <, "nl" a line break.  The displayed value of a cell is that string in
\*                             every view, up to the view's own escaping (Markdown: \| for |, a line break folded
\*                             to a space), and no view changes it
Lay(a, b, p, d) == [rowR |-> a, sstRev |-> b, perm |-> p, pad |-> d, xml |-> SXStd, valsp |-> "none"]
LayX(l, x) == [l EXCEPT !.xml = x]
LayV(l, v) == [l EXCEPT !.valsp = v]
ValSpecials == {"pipe", "bslash", "star", "under", "tick", "lt", "nl"}
LayAll   == { Lay(a, b, <<>>, "none") : a, b \in BOOLEAN }
             \cup { LayX(Lay(TRUE, FALSE, <<>>, "none"), SXml(TRUE, "r", FALSE, TRUE, FALSE, TRUE, "bom")),
                    LayX(Lay(TRUE, TRUE, <<>>, "none"), SXml(FALSE, "rel", TRUE, TRUE, TRUE, FALSE, "none")) }
             \cup { LayV(Lay(TRUE, FALSE, <<>>, "none"), v) : v \in ValSpecials }
LayStd   == { Lay(TRUE, FALSE, <<>>, "none") }
LayMerge == { LayV(Lay(TRUE, FALSE, <<>>, "none"), "pipe") }
LayTwo   == { LayV(Lay(TRUE, FALSE, <<>>, "none"), "pipe"),
              LayV(LayX(Lay(FALSE, TRUE, <<>>, "none"), SXml(TRUE, "ns1", TRUE, TRUE, TRUE, TRUE, "none")), "nl") }
Perms4   == {p \in [1..4 -> 1..4] : \A i, j \in 1..4 : (p[i] = p[j]) => i = j}
\* shared-string focus: every order of up to 4 items x every padding
LaySst   == { Lay(TRUE, FALSE, p, d) : p \in Perms4, d \in {"none", "emptyFirst", "emptyMid", "emptyLast", "richFirst"} }
KindsAll == Kinds
\* several rich-text items, plain ones and references to an empty item
KindsSst == <<"sr", "s", "sr", "se", "sr">>
RotStep2 == {0, 2, 4, 6, 8}
RotStep3 == {0, 3, 6}
Off00    == { <<0, 0>> }
\* a few shapes: 1x2, 2x1, 2x2 at the corner, 2x2 / 1x2 / 2x1 inside, the whole window
FewRects == { <<1,1,2,1>>, <<1,1,1,2>>, <<1,1,2,2>>, <<2,2,3,3>>, <<2,1,3,1>>, <<1,2,1,3>>, <<1,1,3,3>> }
RotAll   == 0..10

\* --- file layout ---
\* row elements in order of first appearance of their row among the items
RowOrder(its) ==
    LET F[i \in 0..Len(its)] ==
          IF i = 0 THEN <<>>
          ELSE IF \E j \in 1..Len(F[i-1]) : F[i-1][j] = its[i].r THEN F[i-1]
               ELSE Append(F[i-1], its[i].r)
    IN F[Len(its)]

RECURSIVE Concat(_, _)
Concat(f, k) == IF k = 0 THEN <<>> ELSE Concat(f, k - 1) \o f[k]
AllItems == Concat(items, cur)

Shared  == SelectSeq(AllItems, LAMBDA it : it.t \in {"s", "sr"})
Entries == [i \in 1..Len(Shared) |-> [v |-> Shared[i].v, rich |-> Shared[i].t = "sr", empty |-> FALSE]]
Rev(q)  == [i \in 1..Len(q) |-> q[Len(q) + 1 - i]]
EmptySI == [v |-> 0, rich |-> FALSE, empty |-> TRUE]
\* order: as used, reversed behind an unused item (token 0 is never shown by any cell), or by lay.perm
Ordered4(q) == IF lay.perm = <<>> \/ Len(q) > Len(lay.perm) THEN q
               ELSE SortSeq(q, LAMBDA a, b : lay.perm[CHOOSE i \in 1..Len(q) : q[i] = a] < lay.perm[CHOOSE i \in 1..Len(q) : q[i] = b])
Base    == IF lay.sstRev THEN <<[v |-> 0, rich |-> FALSE, empty |-> FALSE]>> \o Rev(Entries) ELSE Ordered4(Entries)
Padded  == CASE lay.pad = "emptyFirst" -> <<EmptySI>> \o Base
             [] lay.pad = "emptyLast"  -> Base \o <<EmptySI>>
             [] lay.pad = "emptyMid"   -> IF Base = <<>> THEN <<EmptySI>> ELSE <<Base[1], EmptySI>> \o SubSeq(Base, 2, Len(Base))
             [] lay.pad = "richFirst"  -> <<[v |-> 0, rich |-> TRUE, empty |-> FALSE]>> \o Base
             [] OTHER -> Base
NeedEmpty == \E i \in 1..Len(AllItems) : AllItems[i].t = "se"
HasEmpty(q) == \E i \in 1..Len(q) : q[i].empty
\* a cell of kind se needs an empty item to point at
SST     == IF NeedEmpty /\ ~HasEmpty(Padded) THEN Padded \o <<EmptySI>> ELSE Padded
SI(it)  == CASE it.t \in {"s", "sr"} -> (CHOOSE i \in 1..Len(SST) : ~SST[i].empty /\ SST[i].v = it.v) - 1
             [] it.t = "se" -> (CHOOSE i \in 1..Len(SST) : SST[i].empty) - 1
             [] OTHER -> 0 - 1

\* d is the content the writer puts into the cell (for every kind the content IS the
\* displayed value; a blank cell element has none)
CellOut(it) == [c |-> it.c, r |-> it.r, t |-> it.t, v |-> it.v, si |-> SI(it), ref |-> Ref(it.c, it.r),
                d |-> IF it.t \in Blank THEN [k |-> "z", v |-> 0] ELSE Display(it.t, it.v)]
RowsOf(its) ==
    LET ro == RowOrder(its) IN
    [k \in 1..Len(ro) |->
        LET cs == SelectSeq(its, LAMBDA it : it.r = ro[k]) IN
        [r |-> ro[k], hasR |-> lay.rowR, cells |-> [j \in 1..Len(cs) |-> CellOut(cs[j])]]]

SheetOut(sh) ==
    [rows    |-> RowsOf(items[sh]),
     merges  |-> [i \in 1..Len(mseq[sh]) |->
                    [rect |-> mseq[sh][i], rows |-> SpanRows(mseq[sh][i]), cols |-> SpanCols(mseq[sh][i]),
                     ref |-> RangeRef(mseq[sh][i][1], mseq[sh][i][2], mseq[sh][i][3], mseq[sh][i][4])]],
     cells   |-> Shown(sh),
     extent  |-> Extent(sh),
     covered |-> {[c |-> p[1], r |-> p[2]] : p \in CoveredSet(sh)},
     bounds  |-> Bounds(sh)]

Case == [off |-> off, rot |-> rot, rowR |-> lay.rowR, sstRev |-> lay.sstRev, perm |-> lay.perm, pad |-> lay.pad, xml |-> lay.xml, valsp |-> lay.valsp, ncells |-> nv,
         sst |-> SST, sheets |-> [sh \in 1..cur |-> SheetOut(sh)]]

Emit == (items[cur] # <<>>) => PrintT(ToJson(Case))
=============================================================================
