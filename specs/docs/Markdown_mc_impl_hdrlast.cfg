SPECIFICATION Spec
CONSTANTS
  Cases <- ImplCases
  Expand <- McExpand
  Esc = "escape"
  Header = "afterlast"
  Merge = "grid"
  MaxSpecial = 1
  FullCells = 0
INVARIANTS RoundTrip
CHECK_DEADLOCK FALSE
