SPECIFICATION GenSpec
CONSTANTS
  Opens <- AlphaSet
  Forms = {"plain"}
  Alpha = "q6"
  MaxLen = 7
  MaxDepth = 5
  Lax = TRUE
INVARIANTS Lattice WellNested ContentModelOK DocOrder RefOK
CONSTRAINT Emit
CHECK_DEADLOCK FALSE
