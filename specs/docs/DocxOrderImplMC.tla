--------------------------- MODULE DocxOrderImplMC ---------------------------
(* Bounded instance of DocxOrderImpl: bodies of up to MaxB blocks over        *)
(* {paragraph, 1x1 table, 1x1 table whose cell has two paragraphs}.           *)
EXTENDS DocxOrderImpl
CONSTANT MaxB
Pp  == [k |-> "P", ch |-> << [w |-> "r", a |-> <<"t">>] >>, lvl |-> 0, how |-> "", num |-> "", sty |-> 0, tb |-> NoTbl]
Tb(mp) == [k |-> "TBL", ch |-> <<>>, lvl |-> 0, how |-> "", num |-> "", sty |-> 0,
           tb |-> [rows |-> 1, cols |-> 1, hm |-> <<>>, vm |-> <<>>, mp |-> mp, rc |-> <<>>]]
Sh == {Pp, Tb(<<>>), Tb(<< <<1, 1>> >>)}
ImplDocs == {[fmt |-> "docx", body |-> b, hdr |-> 0, ftr |-> 0, sheet |-> <<>>] : b \in UNION {[1..n -> Sh] : n \in 1..MaxB}}
=============================================================================
