--------------------------- MODULE DocxOrderImplMC ---------------------------
(* Bounded instance of DocxOrderImpl: bodies of up to MaxB blocks over        *)
(* {paragraph, 1x1 table, 1x1 table whose cell has two paragraphs}.           *)
EXTENDS DocxOrderImpl
CONSTANT MaxB
Pp  == [k |-> "P", ch |-> << [w |-> "r", a |-> <<"t">>] >>, lvl |-> 0, how |-> "", num |-> "", sty |-> 0, tb |-> NoTbl]
Tb(mp) == [k |-> "TBL", ch |-> <<>>, lvl |-> 0, how |-> "", num |-> "", sty |-> 0,
           tb |-> [rows |-> 1, cols |-> 1, hm |-> <<>>, vm |-> <<>>, mp |-> mp, rc |-> <<>>]]
Br(k, how) == [k |-> k, ch |-> <<>>, lvl |-> 0, how |-> how, num |-> "", sty |-> 0, tb |-> NoTbl]
Sh == {Pp, Tb(<<>>), Tb(<< <<1, 1>> >>)}
\* with a block-level content control
ShW == {Pp, Tb(<<>>), Br("WO", "sdt"), Br("WC", "")}
ImplDocsW == {d \in {[fmt |-> "docx", body |-> b, hdr |-> 0, ftr |-> 0, sheet |-> <<>>] : b \in UNION {[1..n -> ShW] : n \in 1..(MaxB + 1)}} :
                Balanced(d.body)}
ImplDocs == {[fmt |-> "docx", body |-> b, hdr |-> 0, ftr |-> 0, sheet |-> <<>>] : b \in UNION {[1..n -> Sh] : n \in 1..MaxB}}
=============================================================================
