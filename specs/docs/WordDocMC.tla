------------------------------ MODULE WordDocMC ------------------------------
(* Bounded document families for WordDoc and case emission.                 *)
EXTENDS WordDoc, Json

CONSTANTS Fam,      \* which family Docs ranges over: "A" | "B" | "C" | "D" | "S"
          MaxBlocks,\* family A: body length bound
          MaxCh,    \* family B: children per paragraph
          MaxAt,    \* family B: atoms per child
          MaxDim    \* family C: table rows / cols bound

R(w, a) == [w |-> w, a |-> a]
P(ch)            == [k |-> "P",   ch |-> ch, lvl |-> 0, how |-> "", num |-> "", sty |-> 0, tb |-> NoTbl]
H(l, how)        == [k |-> "H",   ch |-> <<R("r", <<"t">>)>>, lvl |-> l, how |-> how, num |-> "", sty |-> 0, tb |-> NoTbl]
LI(l, num)       == [k |-> "LI",  ch |-> <<R("r", <<"t">>)>>, lvl |-> l, how |-> "", num |-> num, sty |-> 0, tb |-> NoTbl]
TR(r, c, hm, vm, mp, rc) == [k |-> "TBL", ch |-> <<>>, lvl |-> 0, how |-> "", num |-> "", sty |-> 0,
                             tb |-> [rows |-> r, cols |-> c, hm |-> hm, vm |-> vm, mp |-> mp, rc |-> rc]]
T(r, c, hm, vm, mp) == TR(r, c, hm, vm, mp, <<>>)

D(f, body, h, g) == [fmt |-> f, body |-> body, hdr |-> h, ftr |-> g, sheet |-> <<>>]
\* a paragraph styled with style s of the sheet (ODT: a text:h of outline level l)
StyP(s, l)       == [k |-> "S",   ch |-> <<R("r", <<"t">>)>>, lvl |-> l, how |-> "", num |-> "", sty |-> s, tb |-> NoTbl]
St(decl, l, b)   == [decl |-> decl, lvl |-> l, based |-> b, loc |-> "doc"]
StL(decl, l, b, loc) == [decl |-> decl, lvl |-> l, based |-> b, loc |-> loc]
StyH(s, l, how)  == [k |-> "S",   ch |-> <<R("r", <<"t">>)>>, lvl |-> l, how |-> how, num |-> "", sty |-> s, tb |-> NoTbl]

Fmts == {"docx", "odt"}

\* sequences of exactly n (<= 4) elements of S, as tuples.  (Enumerating a union of lazily
\* built sets costs TLC a membership test per element, so the bounded-length families
\* quantify over the length instead of taking a union.)
SeqN(S, n) == CASE n = 1 -> {<<a>> : a \in S}
                [] n = 2 -> {<<a, b>> : a \in S, b \in S}
                [] n = 3 -> {<<a, b, c>> : a \in S, b \in S, c \in S}
                [] n = 4 -> {<<a, b, c, e>> : a \in S, b \in S, c \in S, e \in S}
SeqN5(S, n) == IF n = 5 THEN {<<a, b, c, e, g>> : a \in S, b \in S, c \in S, e \in S, g \in S} ELSE SeqN(S, n)
SeqsUpTo(S, n) == UNION {SeqN(S, k) : k \in 1..n}

\* ---- family A: interleavings of block shapes ------------------------------
ShapesA(f) ==
    {P(<<R("r", <<"t">>)>>), P(<<R("r", <<"t">>), R("span", <<"t">>)>>),
     H(1, "builtin"), H(2, IF f = "docx" THEN "custom1" ELSE "outline"), H(3, "outline"),
     LI(0, "bullet"), LI(1, "bullet"), LI(0, "decimal"),
     T(1, 1, <<>>, <<>>, <<>>), T(1, 1, <<>>, <<>>, << <<1, 1>> >>), TR(1, 2, <<>>, <<>>, <<>>, << <<1, 2>> >>)}

DocsA(n) == UNION {{D(f, b, 0, 0) : b \in {x \in SeqsUpTo(ShapesA(f), n) : ListOK(x)}} : f \in Fmts}

\* ---- family B: one paragraph, every arrangement of children and atoms -----
AtomSeqs(f, ma)  == SeqsUpTo(InlineAtoms(f), ma)
Children(f, ma)  == {R(w, a) : w \in Wrappers(f), a \in AtomSeqs(f, ma)}
DocsB(mc, ma) == UNION {{D(f, <<P(ch)>>, 0, 0) : ch \in {x \in SeqsUpTo(Children(f, ma), mc) : NTok(P(x)) >= 1}} : f \in Fmts}

\* ---- family C: tables with merges and multi-paragraph cells ---------------
MM(md) == IF md <= 2 THEN 2 ELSE 1
PosSet(r, c) == {<<i, j>> : i \in 1..r, j \in 1..c}
SmallSeqs(S, n) == {<<>>} \cup {<<x>> : x \in S} \cup (IF n >= 2 THEN {<<x, y>> : x \in S, y \in S} ELSE {})
\* first the merge skeletons (validity decided before cell contents are chosen), then
\* at most one two-paragraph cell and at most one rich cell among the anchors
Skeletons(md) == {t \in {TR(r, c, hm, vm, <<>>, <<>>) : r \in 1..md, c \in 1..md,
                            hm \in SmallSeqs(PosSet(md, md), MM(md)), vm \in SmallSeqs(PosSet(md, md), MM(md))} :
                    /\ TblOK(t.tb)
                    \* one canonical order for two-element position lists
                    /\ \A s \in {t.tb.hm, t.tb.vm} :
                          Len(s) = 2 => (s[1][1] < s[2][1] \/ (s[1][1] = s[2][1] /\ s[1][2] < s[2][2]))}
TablesC(md) == UNION {{TR(t.tb.rows, t.tb.cols, t.tb.hm, t.tb.vm, mp, rc) :
                          mp \in SmallSeqs(ToSet(Anchors(t.tb)), 1), rc \in SmallSeqs(ToSet(Anchors(t.tb)), 1)} :
                      t \in Skeletons(md)}
Plain == P(<<R("r", <<"t">>)>>)
\* every 2x3 table with up to two horizontal and two vertical merges (two merges side by
\* side need three columns)
Wide == {t \in {TR(2, 3, hm, vm, <<>>, <<>>) : hm \in SmallSeqs(PosSet(2, 3), 2), vm \in SmallSeqs(PosSet(2, 3), 2)} :
           /\ TblOK(t.tb)
           /\ \A s \in {t.tb.hm, t.tb.vm} :
                 Len(s) = 2 => (s[1][1] < s[2][1] \/ (s[1][1] = s[2][1] /\ s[1][2] < s[2][2]))}
\* tables as grids with both kinds of spans together: every r x c table with up to nh
\* horizontal and nv vertical merges anywhere (a horizontal span before / at / after the column
\* of a vertical merge, merges starting in the first / a middle / the last column and row, two
\* merges in one row, a merge under a spanning cell)
GridTables(r, c, nh, nv) ==
    {t \in {TR(r, c, hm, vm, <<>>, <<>>) : hm \in SmallSeqs(PosSet(r, c), nh), vm \in SmallSeqs(PosSet(r, c), nv)} :
        /\ TblOK(t.tb)
        /\ Len(t.tb.hm) + Len(t.tb.vm) >= 1
        /\ \A s \in {t.tb.hm, t.tb.vm} :
              Len(s) = 2 => (s[1][1] < s[2][1] \/ (s[1][1] = s[2][1] /\ s[1][2] < s[2][2]))}
\* md = 2 (quick): 2 x 4 with one horizontal and up to two vertical merges;
\* md = 3 (thorough): 2 x 4 with two and two, 3 x 4 with one and two
DocsC(md) == LET tc == TablesC(md) \cup Wide
                       \cup (IF md <= 2 THEN GridTables(2, 4, 1, 2) ELSE GridTables(2, 4, 2, 2) \cup GridTables(3, 4, 1, 2)) IN
             {D(f, <<t>>, 0, 0) : f \in Fmts, t \in tc}
             \cup {D(f, <<Plain, t, Plain>>, 0, 0) : f \in Fmts, t \in {x \in tc : x.tb.rows = md /\ x.tb.cols = md}}

\* ---- family D: headings by every declaration, header / footer parts, lists -
Heads(f) == {H(l, how) : l \in (IF f = "docx" THEN {1, 2, 3, 6, 7, 9} ELSE {1, 2, 3, 6, 7, 10}),
                          how \in IF f = "docx" THEN Hows ELSE {"builtin", "custom1", "outline"}}
ListRuns == {<<LI(0, n1), LI(1, n1), LI(2, n1), LI(1, n1), LI(0, n1)>> : n1 \in {"bullet", "decimal"}}
            \cup {<<LI(0, "bullet"), LI(1, "bullet"), LI(0, "decimal"), LI(1, "decimal"), LI(1, "decimal")>>}
DocsD(x) == UNION {{D(f, <<h, Plain>>, hd, ft) : h \in Heads(f), hd \in {0, 1}, ft \in {0, 1}} : f \in Fmts}
         \cup {D(f, <<Plain>> \o l \o <<Plain>>, 1, 1) : f \in Fmts, l \in ListRuns}

\* (the families take a parameter so that TLC evaluates only the selected one)
\* families A and B are enumerated by MCInit below, never materialised as a set
MCDocs == {}

\* ---- family S: style sheets ------------------------------------------------
\* The paragraph uses style 1; style i is based on style i + 1 (a chain of n <= MaxBlocks
\* styles); the last style is based on nothing / the default style / an undefined style /
\* one of the chain's styles (a cycle).  Every style independently declares nothing or a
\* heading level in one of the ways of the format, so the declaring style sits at every
\* position of the chain (first, middle, root) and "nearest wins" is distinguishable:
\* DOCX levels builtin 2, nameL 3, nameU 7, outline 9.  ODT: the text:h has level 3 and the
\* declaring styles agree with it.
DeclLvl(f, dc) == IF f = "odt" THEN 3
                  ELSE CASE dc = "builtin" -> 2 [] dc = "nameL" -> 3 [] dc = "nameU" -> 7 [] OTHER -> 9
SheetDecls(f) == IF f = "docx" THEN {"none", "builtin", "nameL", "nameU", "outline"}
                 ELSE {"none", "builtin", "bare", "outline"}
ChainSheet(f, dcs, last) == [i \in 1..Len(dcs) |->
                               St(dcs[i], DeclLvl(f, dcs[i]), IF i < Len(dcs) THEN i + 1 ELSE last)]
SDoc(f, sh) == [fmt |-> f, body |-> <<StyP(1, 3), Plain>>, hdr |-> 0, ftr |-> 0, sheet |-> sh]

\* ---- family O: declaration order and place of the styles ---------------------
\* n = 2..MaxBlocks independent styles (each based on the default style), each declaring a
\* heading level of its own kind or nothing, with distinct levels, declared in sheet order;
\* the heading uses style s = first / middle / last.  ODT: every style sits in styles.xml or
\* among the automatic styles of content.xml, the heading has an outline level of its own (5)
\* or none; a second heading with its own level uses another style ("mixed").
DeclO(f) == IF f = "docx" THEN {"none", "builtin", "nameL", "outline"} ELSE {"none", "builtin", "outline"}
LvlO(i, dc) == i + (IF dc = "builtin" THEN 0 ELSE 4)          \* distinct per position
\* (chain = 1: the style the heading uses is based on its neighbour instead of the default
\* style - a parent chain that may cross the two places)
SheetO(f, dcs, locs, s, other, chain) ==
    [i \in 1..Len(dcs) |-> StL(dcs[i], LvlO(i, dcs[i]), IF chain = 1 /\ i = s THEN other ELSE -1, locs[i])]
LocSeqs(f, n) == IF f = "docx" THEN {[i \in 1..n |-> "doc"]} ELSE SeqN({"doc", "auto"}, n)

\* ---- family W: block-level wrappers and markers ------------------------------
\* every properly nested arrangement of up to mb blocks over paragraphs, tables, wrapper
\* brackets and markers: wrappers holding 0..2 paragraphs and / or a table, nested, placed
\* before / between / after ordinary paragraphs and tables
Br(k, how) == [k |-> k, ch |-> <<>>, lvl |-> 0, how |-> how, num |-> "", sty |-> 0, tb |-> NoTbl]
TH(how) == [T(1, 1, <<>>, <<>>, <<>>) EXCEPT !.how = how]
\* (mb <= 5: the quick alphabet, one wrapper and one marker kind; mb > 5 is the full one)
ShapesW(f, full) ==
    {Plain, T(1, 1, <<>>, <<>>, <<>>), Br("WC", "")}
    \cup (IF full THEN {Br("WO", w) : w \in WrapKinds(f)} \cup {Br("M", m) : m \in MarkKinds(f)}
                       \cup {TH(IF f = "docx" THEN "cellsdt" ELSE "cellsec"), H(2, "outline")}
          ELSE {Br("WO", IF f = "docx" THEN "sdt" ELSE "section"), Br("M", IF f = "docx" THEN "bookmark" ELSE "softbreak")})

\* ---- family N: nested inline containers ---------------------------------------
\* a run inside every nesting of inline containers, between two plain runs, in a body paragraph,
\* a heading, a list item; and in the cells of a table
KidsN(w) == <<R("r", <<"t">>), R(w, <<"t">>), R("r", <<"t">>)>>
DocsN(f) == UNION {{D(f, <<P(KidsN(w))>>, 0, 0),
                    D(f, <<[H(2, "outline") EXCEPT !.ch = KidsN(w)], Plain>>, 0, 0),
                    D(f, <<[LI(0, "bullet") EXCEPT !.ch = KidsN(w)]>>, 0, 0)} : w \in NestedWrappers(f)}
            \cup {D(f, <<[T(1, 2, <<>>, <<>>, <<>>) EXCEPT !.how = "cellnest"], Plain>>, 0, 0)}

\* ---- family L: list trees ---------------------------------------------------
LIh(l, num, how) == [k |-> "LI", ch |-> <<R("r", <<"t">>)>>, lvl |-> l, how |-> how, num |-> num, sty |-> 0, tb |-> NoTbl]
ShapesL(f) == {LIh(l, "bullet", "") : l \in 0..3}
              \cup {LIh(0, "bullet", "emp"), LIh(2, "bullet", "emp"), LIh(0, "decimalR", ""), LIh(1, "decimal", "")}
              \cup (IF f = "odt" THEN {LIh(0, "bullet", "cont"), LIh(1, "bullet", "cont"), LIh(2, "bullet", "wrapp"), LIh(3, "bullet", "wrapp")}
                    ELSE {})

\* Init written with quantifiers: TLC enumerates the function sets directly instead of
\* building (sorting, de-duplicating) one big set of documents first
FamInit(fm, mb) ==
    CASE fm = "A" -> \E f \in Fmts : \E n \in 1..mb : \E b \in SeqN(ShapesA(f), n) :
                             ListOK(b) /\ doc = D(f, b, 0, 0)
         [] fm = "B" -> \E f \in Fmts : \E n \in 1..MaxCh : \E ch \in SeqN(Children(f, MaxAt), n) :
                             /\ NTok(P(ch)) >= 1 /\ doc = D(f, <<P(ch)>>, 0, 0)
                             \* (mb = 0, the combined quick run: a second child has one atom)
                             /\ mb = 0 => \A q \in 2..n : Len(ch[q].a) = 1
         [] fm = "L" -> \E f \in Fmts : \E n \in 1..mb : \E b \in SeqN(ShapesL(f), n) : \E tail \in {0, 1} :
                             /\ ListOK(b)
                             /\ doc = D(f, IF tail = 1 THEN <<Plain>> \o b \o <<Plain>> ELSE b, 0, 0)
         [] fm = "O" -> \E f \in Fmts : \E n \in 2..mb : \E dcs \in SeqN(DeclO(f), n) : \E locs \in LocSeqs(f, n) :
                           \E s \in 1..n : \E how \in (IF f = "odt" THEN {"", "noattr"} ELSE {""}) : \E mc \in {<<0, 0>>, <<1, 0>>, <<0, 1>>} :
                             LET mixed == mc[1]
                                 chain == mc[2]
                                 other == IF s = n THEN 1 ELSE s + 1
                                 sh == SheetO(f, dcs, locs, s, other, chain) IN
                             /\ SheetOK(f, sh)
                             /\ doc = [fmt |-> f, hdr |-> 0, ftr |-> 0, sheet |-> sh,
                                       body |-> IF mixed = 1 THEN <<StyH(other, 2, ""), StyH(s, 5, how), Plain>>
                                                ELSE <<StyH(s, 5, how), Plain>>]
         [] fm = "W" -> \E f \in Fmts : \E n \in 1..(IF mb > 5 THEN mb - 2 ELSE mb) : \E b \in SeqN5(ShapesW(f, mb > 5), n) :
                           /\ IsDoc(D(f, b, 0, 0))
                           /\ \E i \in 1..n : b[i].k \in Brackets      \* (wrapper-free bodies are family A's)
                           /\ doc = D(f, b, 0, 0)
         [] fm = "N" -> \E f \in Fmts : doc \in DocsN(f)
         [] fm = "S" -> \E f \in Fmts : \E n \in 1..mb : \E dcs \in SeqN(SheetDecls(f), n) :
                           \E last \in {-2, -1, 0} \cup (1..n) :
                             /\ SheetOK(f, ChainSheet(f, dcs, last))
                             /\ doc = SDoc(f, ChainSheet(f, dcs, last))
         [] fm = "C" -> doc \in DocsC(MaxDim)
         [] fm = "D" -> doc \in DocsD(0)

\* Fam = "Q": all families with their quick bounds in one run (one JVM start instead of seven)
MCInit ==
    /\ pos = 0 /\ out = <<>>
    /\ IF Fam = "Q"
       THEN \/ FamInit("A", 3) \/ FamInit("B", 0) \/ FamInit("C", 0) \/ FamInit("D", 0)
            \/ FamInit("S", 4) \/ FamInit("L", 3) \/ FamInit("O", 3) \/ FamInit("W", 5) \/ FamInit("N", 0)
       ELSE FamInit(Fam, MaxBlocks)

\* ---- case emission ---------------------------------------------------------
Grids(body) == [i \in 1..Len(body) |-> IF body[i].k = "TBL" THEN Grid(body[i].tb) ELSE <<>>]

Case == [fam |-> Fam, fmt |-> doc.fmt, body |-> doc.body, hdr |-> doc.hdr, ftr |-> doc.ftr, sheet |-> doc.sheet,
         bases |-> Bases(doc.body), grids |-> Grids(doc.body),
         ntok |-> Len(AllIds(out)), items |-> out,
         hdrtok |-> HdrTok, ftrtok |-> FtrTok]

Emit == Done => PrintT(ToJson(Case))
=============================================================================
