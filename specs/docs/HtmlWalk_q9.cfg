SPECIFICATION GenSpec
CONSTANTS
  Opens <- AlphaSet
  Forms = {"plain"}
  Alpha = "q9"
  MaxLen = 5
  MaxDepth = 4
  Lax = FALSE
INVARIANTS Lattice WellNested ContentModelOK DocOrder RefOK
CONSTRAINT Emit
CHECK_DEADLOCK FALSE
