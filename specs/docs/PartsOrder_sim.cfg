SPECIFICATION SimSpec
CONSTANTS
  OrderBy = "declared"
  Chain = "first"
  Decode = "path"
  Packages = {}
  K = 4
  Fmts = {"xlsx", "pptx", "epub"}
  Wide = "wide"
CONSTRAINT Emit
CHECK_DEADLOCK FALSE
