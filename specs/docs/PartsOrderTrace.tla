--------------------------- MODULE PartsOrderTrace ---------------------------
(* Trace validation for PartsOrder.  A segment is one package the harness     *)
(* built (any number of parts, any combination of layout options) and opened  *)
(* with the real code:                                                        *)
(*   Pkg(fmt, base, roots, parts)  the abstract package (roots: the rootfile chain); the spec checks that it is *)
(*                           well formed (so a harness mistake is not taken   *)
(*                           for a defect) and restarts its reader            *)
(*   Begin(api)              an API of the real code is about to be read out  *)
(*   Part(api, i, toks)      the i-th page it presents and the content tokens *)
(*                           found on it: must be exactly the spec reader's   *)
(*                           next page                                        *)
(*   Count(api, n)           the page count it reports: the spec reader must  *)
(*                           be done with n pages                             *)
(*   Total(api, n)           a bare page count (no pages read out)            *)
EXTENDS PartsOrder, Json

Trace == ndJsonDeserialize("trace.ndjson")

VARIABLE l
tvars == <<vars, l>>
Ev == Trace[l]

NoPkg == [fmt |-> "none", base |-> <<>>, roots |-> <<>>, parts |-> <<>>]

TraceInit == pkg = NoPkg /\ pages = <<>> /\ pos = 0 /\ l = 1

TracePkg ==
    /\ l <= Len(Trace) /\ Ev.event = "Pkg" /\ l' = l + 1
    /\ pkg' = [fmt |-> Ev.fmt, base |-> Ev.base, roots |-> Ev.roots, parts |-> Ev.parts]
    /\ WellFormed(pkg')
    /\ pages' = <<>> /\ pos' = 0

TraceBegin ==
    /\ l <= Len(Trace) /\ Ev.event = "Begin" /\ l' = l + 1
    /\ pages' = <<>> /\ pos' = 0 /\ UNCHANGED pkg

TracePart ==
    /\ l <= Len(Trace) /\ Ev.event = "Part" /\ l' = l + 1
    /\ ReadNext
    /\ Len(pages') = Ev.i
    /\ Ev.toks = << pages'[Ev.i] >>

TraceCount ==
    /\ l <= Len(Trace) /\ Ev.event = "Count" /\ l' = l + 1
    /\ Done /\ Ev.n = Len(pages)
    /\ UNCHANGED vars

\* an API that only reports a number (PageCount): the number of declared readable parts
TraceTotal ==
    /\ l <= Len(Trace) /\ Ev.event = "Total" /\ l' = l + 1
    /\ Ev.n = Len(Expected(pkg))
    /\ UNCHANGED vars

TraceNext == TracePkg \/ TraceBegin \/ TracePart \/ TraceCount \/ TraceTotal

TraceSpec == TraceInit /\ [][TraceNext]_tvars

TraceAccepted == TLCGet("stats").diameter - 1 = Len(Trace)
=============================================================================
