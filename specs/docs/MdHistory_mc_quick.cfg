SPECIFICATION Spec
CONSTANTS
  Docs <- McDocs
  Calls <- McCalls
  MaxLen = 3
  Cache = "pure"
  Wide = FALSE
INVARIANTS TypeOK Purity CacheFaithful
CONSTRAINT EmitHist
CHECK_DEADLOCK FALSE
