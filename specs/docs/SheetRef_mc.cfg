SPECIFICATION CodecSpec
CONSTANTS
  Codec = "bijective"
  MaxLetters = 2
  Rows = {1, 9, 10, 200}
INVARIANTS RoundTripIdx RoundTripCol LengthMonotone RefRoundTrip
CONSTRAINT EmitCodec
CHECK_DEADLOCK FALSE
