SPECIFICATION MCSpec
CONSTANTS
  OrderBy = "declared"
  Chain = "first"
  Decode = "path"
  Packages = {}
  K = 4
  Fmts = {"xlsx", "pptx", "epub"}
  Wide = "some"
CONSTRAINT Emit
CHECK_DEADLOCK FALSE
