SPECIFICATION TraceSpec
CONSTANTS
  Codec = "bijective"
  Place = "byref"
  Window = 1
  WindowRows = 1
  MergeMode = "all"
  Ordered = FALSE
  Offsets = {}
  Rects = {}
  MaxCells = 1000000
  MaxMerges = 1000000
  MaxSheets = 1000000
  KindSeq = {}
  Rots = {}
  Layouts = {}
  Books = {}
  Calls = {}
  Readers = {}
  MaxLen = 1000000
  Cache = "pure"
INVARIANTS Purity HeldFaithful
POSTCONDITION TraceAccepted
CHECK_DEADLOCK FALSE
