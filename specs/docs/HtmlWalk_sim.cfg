SPECIFICATION GenSpec
CONSTANTS
  Opens <- AlphaSet
  Forms = {"plain", "amp", "num"}
  Alpha = "full"
  MaxLen = 14
  MaxDepth = 7
CONSTRAINT EmitLeaf
CHECK_DEADLOCK FALSE
