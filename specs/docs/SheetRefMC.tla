----------------------------- MODULE SheetRefMC -----------------------------
(* Exhaustive check of the A1 codec and case emission for the real           *)
(* xlsx.ColumnToIndex / IndexToColumn / CellRef / ParseCellRef /             *)
(* ParseRangeRef.  One state = one conversion in one direction:              *)
(*   dir = "i2c": index n -> letters;  dir = "c2i": letters s -> index.      *)
(* The second step (Convert) computes the conversion, the reference string   *)
(* and a range whose other corner is derived from the first.                 *)
EXTENDS SheetRef, Json

CONSTANTS MaxLetters,   \* column names up to this many letters are enumerated
          Rows          \* the row numbers paired with every column

VARIABLES dir, n, s, row, out
cvars == <<dir, n, s, row, out>>

MaxCol == CountUpTo(MaxLetters)

CodecInit ==
    /\ row \in Rows
    /\ out = [done |-> FALSE]
    /\ \/ dir = "i2c" /\ n \in 1..MaxCol /\ s = <<>>
       \/ dir = "c2i" /\ s \in ColsUpTo(MaxLetters) /\ n = 0

\* the partner corner of the emitted range: another column/row of the space
Partner(c) == ((c * 7) % MaxCol) + 1
PartnerRow(r) == r + 3

Convert ==
    /\ ~out.done
    /\ LET col  == IF dir = "i2c" THEN n ELSE Col2Idx(s)
           lets == IF dir = "i2c" THEN Idx2Col(n) ELSE s
           c2   == Partner(col)
       IN out' = [done |-> TRUE, idx |-> col, letters |-> lets,
                  ref |-> Ref(col, row), deref |-> Deref(Ref(col, row)),
                  range |-> RangeRef(col, row, c2, PartnerRow(row)),
                  rect |-> [c1 |-> col, r1 |-> row, c2 |-> c2, r2 |-> PartnerRow(row)]]
    /\ UNCHANGED <<dir, n, s, row>>

CodecSpec == CodecInit /\ [][Convert]_cvars

\* ------------------------------ properties ------------------------------
\* Every index has a name of the right length, and naming is left-inverse
\* to evaluation ...
RoundTripIdx ==
    dir = "i2c" => /\ Idx2Col(n) \in ColsUpTo(MaxLetters)
                   /\ Col2Idx(Idx2Col(n)) = n
\* ... and every name has an index in range, and evaluation is left-inverse
\* to naming.  Together: Idx2Col is a bijection 1..MaxCol -> ColsUpTo(MaxLetters).
RoundTripCol ==
    dir = "c2i" => /\ Col2Idx(s) \in 1..MaxCol
                   /\ Idx2Col(Col2Idx(s)) = s
\* names are ordered first by length, then alphabetically (so Z < AA < AB)
LengthMonotone ==
    dir = "i2c" => Len(Idx2Col(n)) = (CHOOSE k \in 1..MaxLetters : CountUpTo(k - 1) < n /\ n <= CountUpTo(k))
\* rows are decimal and round-trip; a reference denotes the cell it was made from
RefRoundTrip ==
    out.done => /\ out.deref = [c |-> out.idx, r |-> row]
                /\ DecValue(DecDigits(row)) = row
                /\ (Len(DecDigits(row)) > 1 => DecDigits(row)[1] # 0)

EmitCodec == out.done => PrintT(ToJson([dir |-> dir, row |-> row, idx |-> out.idx, letters |-> out.letters,
                                        ref |-> out.ref, range |-> out.range, rect |-> out.rect]))
=============================================================================
