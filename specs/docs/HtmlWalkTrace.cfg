SPECIFICATION TraceSpec
CONSTANTS
  Opens = {}
  Forms = {}
  Alpha = "full"
  MaxLen = 1000000
  MaxDepth = 1000
  Lax = TRUE
INVARIANTS WellNested ContentModelOK Lattice
POSTCONDITION TraceAccepted
CHECK_DEADLOCK FALSE
