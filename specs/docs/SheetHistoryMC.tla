---------------------------- MODULE SheetHistoryMC ----------------------------
(* Bounded instance of SheetHistory: workbooks that hold what a per-call          *)
(* transformation could damage (several sheets, content away from A1, merged      *)
(* regions with stale covered values, several rich-text shared strings, an empty   *)
(* shared item, multi-letter columns), every history of MaxLen calls, emission.    *)
EXTENDS SheetHistory, SheetMC

It(c, r, t, v) == [c |-> c, r |-> r, t |-> t, v |-> v]

HBooks == {
  [items |-> << <<It(2, 2, "sr", 1), It(3, 2, "s", 2), It(2, 3, "z", 3), It(4, 4, "isr", 4), It(1, 5, "b", 5), It(5, 2, "sr", 6)>>,
                 <<It(27, 1, "n", 7), It(1, 3, "se", 8), It(2, 3, "sr", 9), It(28, 1, "e", 10)>> >>,
   mseq  |-> << << <<2, 2, 3, 3>> >>, << <<27, 1, 28, 1>> >> >>, nv |-> 10,
   lay   |-> LayV(Lay(TRUE, FALSE, <<3, 1, 4, 2>>, "emptyMid"), "pipe")],
  [items |-> << <<It(3, 3, "str", 1)>>,
                 <<It(1, 1, "s", 2), It(2, 1, "fn", 3), It(3, 1, "sr", 4), It(4, 2, "sr", 5)>>,
                 <<It(2, 2, "z", 6), It(3, 4, "e", 7), It(2, 4, "is", 8)>> >>,
   mseq  |-> << <<>>, << <<1, 1, 3, 1>> >>, << <<2, 4, 2, 5>>, <<3, 4, 4, 4>> >> >>, nv |-> 8,
   lay   |-> LayV(Lay(FALSE, FALSE, <<2, 1, 3, 4>>, "richFirst"), "nl")] }

C(op, sel, hdr, delim, meta, toc) == [op |-> op, sel |-> sel, hdr |-> hdr, delim |-> delim, meta |-> meta, toc |-> toc]
HCalls == { C("text", <<>>, FALSE, "tab", FALSE, FALSE), C("textopt", <<2, 1>>, TRUE, "comma", FALSE, FALSE),
            C("textopt", <<2>>, FALSE, "tab", FALSE, FALSE),
            C("md", <<>>, FALSE, "tab", FALSE, FALSE), C("mdopt", <<2, 1>>, FALSE, "tab", FALSE, FALSE),
            C("rag", <<>>, FALSE, "tab", TRUE, TRUE), C("doc", <<>>, FALSE, "tab", FALSE, FALSE),
            C("tables", <<>>, FALSE, "tab", FALSE, FALSE), C("sheet", <<2>>, FALSE, "tab", FALSE, FALSE),
            C("sheet", <<1>>, FALSE, "tab", FALSE, FALSE), C("names", <<>>, FALSE, "tab", FALSE, FALSE) }
\* quick: one call of every kind
HCallsQ == HCalls \ { C("textopt", <<2>>, FALSE, "tab", FALSE, FALSE), C("sheet", <<1>>, FALSE, "tab", FALSE, FALSE),
                      C("rag", <<>>, FALSE, "tab", TRUE, TRUE) }

\* the workbook is emitted once per initial state, the histories refer to it by its number of cells
EmitHist ==
    /\ (Len(hist) = 0 /\ rd = "reader") => PrintT(ToJson([kind |-> "book", id |-> nv, book |-> Case]))
    /\ (Len(hist) = MaxLen) => PrintT(ToJson(
          [kind |-> "history", rd |-> rd, bookid |-> nv,
           calls |-> [n \in 1..Len(hist) |->
                       [op |-> hist[n].call.op, sel |-> hist[n].call.sel, hdr |-> hist[n].call.hdr, delim |-> hist[n].call.delim,
                        meta |-> hist[n].call.meta, toc |-> hist[n].call.toc,
                        sheets |-> Sel(hist[n].call), view |-> hist[n].view]]]))
=============================================================================
