----------------------------- MODULE SheetHistory -----------------------------
(***************************************************************************)
(* C17 - renderings are calls on ONE reader.  xlsx.Open parses the         *)
(* workbook once; Text, TextWithOptions, Markdown, MarkdownWithOptions,    *)
(* MarkdownWithRAGOptions, Document, Tables, Sheet(i) and SheetNames        *)
(* render from what the reader holds.  (The tabula Extractor over an .xlsx *)
(* file is the same machine seen through Text / ToMarkdown / Document /    *)
(* PageCount.)                                                             *)
(*                                                                         *)
(* The state the property talks about is, per sheet, the set of displayed  *)
(* cells the reader holds (Shown of Sheet.tla: value at the address, merged *)
(* regions blank but for the top-left cell).  A call presents the sheets   *)
(* it selects, in the order it selects them, and must not change anything: *)
(*   Purity       every call presents what the same call presents on a      *)
(*                freshly opened reader, whatever was called before         *)
(*   HeldFaithful the reader still holds the cells of the file              *)
(*                                                                         *)
(* Cache = "writeback" is the implementation-shaped reader whose Markdown   *)
(* renderer keeps the trimmed table (content box moved to A1) in the sheet; *)
(* TLC must refute Purity for it (Markdown, then Text, on a sheet whose     *)
(* content does not start at A1).                                          *)
(***************************************************************************)
EXTENDS Sheet

CONSTANTS Books,     \* workbooks: [items, mseq, nv, lay]
          Calls,     \* [op, sel, hdr, delim, meta, toc]
          Readers,   \* subset of {"reader", "facade"}
          MaxLen,
          Cache      \* "pure" | "writeback"

VARIABLES rd,        \* which object the history runs on
          held,      \* held[sh]: the displayed cells the reader holds
          hist       \* the calls so far, each with what it presented

hvars == <<vars, rd, held, hist>>

MdOps     == {"md", "mdopt", "rag"}
FacadeOps == {"text", "md", "doc", "names"}

RangeOf(q) == {q[i] : i \in 1..Len(q)}
GridOf(its) == {[c |-> it.c, r |-> it.r, d |-> Display(it.t, it.v)] : it \in {x \in RangeOf(its) : x.t \notin Blank}}

\* the sheets a call selects (1-based), in its order; an empty selection means all
Sel(c) == IF c.sel = <<>> THEN [i \in 1..cur |-> i] ELSE SelectSeq(c.sel, LAMBDA i : i \in 1..cur)
View(H, c) == [k \in 1..Len(Sel(c)) |-> H[Sel(c)[k]]]

MinOf(S) == CHOOSE x \in S : \A y \in S : x <= y
ToOrigin(S) == IF S = {} THEN S
               ELSE {[c |-> g.c - MinOf({h.c : h \in S}) + 1, r |-> g.r - MinOf({h.r : h \in S}) + 1, d |-> g.d] : g \in S}

FromFile == [sh \in 1..cur |-> Shown(sh)]

HInit ==
    /\ \E b \in Books :
          /\ items = b.items /\ mseq = b.mseq /\ cur = Len(b.items) /\ nv = b.nv /\ lay = b.lay
          /\ grid = [sh \in 1..Len(b.items) |-> GridOf(b.items[sh])]
    /\ off = <<0, 0>> /\ rot = 0
    /\ rd \in Readers
    /\ held = FromFile /\ hist = <<>>

DoCall(c) ==
    /\ held' = IF Cache = "writeback" /\ c.op \in MdOps
               THEN [sh \in 1..cur |-> IF sh \in RangeOf(Sel(c)) THEN ToOrigin(held[sh]) ELSE held[sh]]
               ELSE held
    /\ hist' = Append(hist, [call |-> c, view |-> View(held, c)])
    /\ UNCHANGED <<vars, rd>>

HNext == \E c \in Calls : /\ Len(hist) < MaxLen
                          /\ (rd = "facade" => (c.op \in FacadeOps /\ c.sel = <<>>))
                          /\ DoCall(c)

HSpec == HInit /\ [][HNext]_hvars

Purity       == \A n \in 1..Len(hist) : hist[n].view = View(FromFile, hist[n].call)
HeldFaithful == held = FromFile
HTypeOK      == Len(hist) <= MaxLen /\ Len(held) = cur /\ PlacedByRef /\ MergeBlank
=============================================================================
