SPECIFICATION TraceSpec
CONSTANTS
  Docs = {}
INVARIANTS Order NoLeak CellsOK
POSTCONDITION TraceAccepted
CHECK_DEADLOCK FALSE
