INIT MCInit
NEXT Next
CONSTANTS
  Docs <- MCDocs
  Fam = "C"
  MaxBlocks = 3
  MaxCh = 2
  MaxAt = 2
  MaxDim = 3
INVARIANTS TypeOK Order Structure CellsOK NoLeak Complete
CONSTRAINT Emit
CHECK_DEADLOCK FALSE
