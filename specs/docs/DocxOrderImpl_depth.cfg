SPECIFICATION ImplSpec
CONSTANTS
  Docs <- ImplDocs
  Matcher = "depth"
  MaxB = 4
INVARIANTS ImplSane ImplOrder
CHECK_DEADLOCK FALSE
