---------------------------- MODULE HtmlHistoryMC ----------------------------
(* Bounded instance of HtmlHistory: two documents with elements that only the  *)
(* stricter modes exclude (vocabulary class / id, landmark role, link-dense    *)
(* blocks), every history over the call alphabet; emission of the histories.   *)
EXTENDS HtmlHistory

Par(a)  == Pl("p", a, <<Tx>>)
Box(t, a, kids) == Pl(t, a, kids)
Item    == Pl("li", "", <<Tx>>)

PlanA == <<Pl("h2", "", <<Tx>>), Par(""),
           Box("div", "class:sidebar", <<Par("")>>),                 \* Standard may exclude
           Box("nav", "", <<Pl("ul", "", <<Item, Item>>)>>),         \* Explicit may exclude
           LinkList(""),                                             \* only Aggressive may exclude
           Box("div", "class:side|id:bar-chart", <<Par("")>>),       \* look-alike: nobody may exclude
           SparseP, Par(""),
           Box("footer", "", <<Par("")>>)>>
PlanB == <<Box("div", "role:banner", <<Par("")>>),
           Box("section", "", <<Pl("h3", "", <<Tx>>), LinkDiv(""), Par("")>>),
           Pl("ul", "id:menu", <<Item, LinkLi>>),
           Pl("blockquote", "", <<Tx>>),
           Box("div", "id:footer|class:content", <<Par(""), LinkList5("")>>),
           Par("")>>
HPlans == {PlanA, PlanB}

HC(v, m) == [view |-> v, mode |-> m]
HCallsFull == {HC(v, m) : v \in {"text", "markdown", "document"}, m \in {"none", "explicit", "standard", "aggressive", "default"}}
HCallsQ == {HC(v, m) : v \in {"text", "document"}, m \in {"none", "explicit", "standard", "aggressive"}}
           \cup {HC("text", "default"), HC("markdown", "aggressive")}

HCase == [kind |-> "history", stream |-> stream, omit |-> Omit, ntok |-> Len(toks),
          content |-> Content, forbidden |-> Forbidden,
          cleanE |-> CleanIds("explicit"), cleanS |-> CleanIds("standard"), cleanA |-> CleanIds("aggressive"),
          cleanN |-> CleanIds("none"), excl |-> Cardinality(CleanIds("none") \ CleanIds("aggressive")), depth |-> 2,
          calls |-> [n \in 1..Len(hist) |-> hist[n].call]]

EmitHist == (Len(hist) = HMaxLen) => PrintT(ToJson(HCase))
=============================================================================
