SPECIFICATION Spec
CONSTANTS
  Codec = "bijective"
  Place = "byref"
  Window = 3
  Offsets <- OffSmall
  Rects <- FewRects
  MaxCells = 2
  MaxMerges = 1
  MaxSheets = 2
  Rots <- RotStep3
  Layouts <- LayTwo
CONSTRAINT Emit
CHECK_DEADLOCK FALSE
