SPECIFICATION MCSpec
CONSTANTS
  OrderBy = "declared"
  Chain = "first"
  Decode = "path"
  Packages = {}
  K = 4
  Fmts = {"xlsx", "pptx", "epub"}
  Wide = "some"
INVARIANTS TypeOK ValidPackage DeclaredPrefix DeclaredOrder OwnPage
CONSTRAINT Emit
CHECK_DEADLOCK FALSE
