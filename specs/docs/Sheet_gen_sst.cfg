SPECIFICATION Spec
CONSTANTS
  Codec = "bijective"
  Place = "byref"
  Window = 2
  WindowRows = 2
  MergeMode = "all"
  Ordered = TRUE
  Offsets <- Off00
  Rects = {}
  MaxCells = 4
  MaxMerges = 0
  MaxSheets = 1
  KindSeq <- KindsSst
  Rots = {0, 2}
  Layouts <- LaySst
INVARIANTS TypeOK PlacedByRef FunctionLike MergeBlank RootShown
CONSTRAINT Emit
CHECK_DEADLOCK FALSE
