SPECIFICATION GenSpec
CONSTANTS
  Opens <- AlphaSet
  Forms = {"plain"}
  Alpha = "q3"
  MaxLen = 5
  MaxDepth = 8
  Lax = FALSE
INVARIANTS Lattice WellNested ContentModelOK DocOrder RefOK
CONSTRAINT Emit
CHECK_DEADLOCK FALSE
