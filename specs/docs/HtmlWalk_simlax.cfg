SPECIFICATION GenSpec
CONSTANTS
  Opens <- AlphaSet
  Forms = {"plain", "amp", "num"}
  Alpha = "full"
  MaxLen = 14
  MaxDepth = 7
  Lax = TRUE
CONSTRAINT EmitLeaf
CHECK_DEADLOCK FALSE
