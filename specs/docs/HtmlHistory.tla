----------------------------- MODULE HtmlHistory -----------------------------
(***************************************************************************)
(* C19 - extractions are calls on ONE htmldoc.Reader.  The reader parses   *)
(* the document once; every later call (Text / Markdown / Document, each   *)
(* with a navigation-exclusion mode or with the default options, which     *)
(* mean Standard) walks the same DOM, in any order of modes.               *)
(*                                                                         *)
(* Purity: whatever was called before - in particular a STRICTER mode      *)
(* before a weaker one - a call returns what the same call returns on a    *)
(* freshly opened reader.  With that, the walker contract W1..W4 of        *)
(* HtmlWalk, which relates the four modes, holds for the results of one    *)
(* reader in whatever order they were asked for (TraceSeen below).         *)
(*                                                                         *)
(* The document is built by the HtmlWalk machine from a plan (the body is  *)
(* a planned element), then calls are taken.  The model reader excludes    *)
(* exactly what its mode may exclude (the greatest walker of HtmlWalk).    *)
(* Verdicts = "bynode" is the implementation-shaped reader that keeps the  *)
(* positive exclusion verdicts in one cache keyed by the node only and     *)
(* shared by the passes of all modes; TLC must refute Purity for it        *)
(* (Aggressive, then Standard, on a document with a link-dense block).     *)
(***************************************************************************)
EXTENDS HtmlWalkMC

CONSTANTS DocPlans,   \* plans of the documents (sequences of planned descriptors)
          HCalls,     \* [view |-> "text" | "markdown" | "document", mode |-> a mode | "default"]
          HMaxLen,    \* calls per history
          Verdicts    \* "permode" | "bynode"

VARIABLES verd,       \* tokens under nodes with a cached positive verdict (bynode reader)
          hist        \* the calls so far with the tokens each returned (model reader)

hvars == <<vars, verd, hist>>

HInit == /\ \E pl \in DocPlans : stack = <<[Body EXCEPT !.planned = TRUE, !.plan = pl]>>
         /\ stream = <<>> /\ toks = <<>> /\ linky = {} /\ nel = 0 /\ cost = 0 /\ outs = <<>>
         /\ verd = {} /\ hist = <<>>

Built == Len(stack) = 1 /\ Top.plan = <<>>

Build == (PlanStep \/ Close) /\ UNCHANGED <<verd, hist>>

ModeOf(c) == IF c.mode = "default" THEN "standard" ELSE c.mode
Dropped(m) == CleanIds("none") \ CleanIds(m)

HCall(c) ==
    /\ Built /\ Len(hist) < HMaxLen
    /\ LET d == (IF Verdicts = "bynode" THEN verd ELSE {}) \cup Dropped(ModeOf(c)) IN
         /\ verd' = IF Verdicts = "bynode" THEN d ELSE verd
         /\ hist' = Append(hist, [call |-> c, out |-> Filter(AllOut, CleanIds("none") \ d)])
    /\ UNCHANGED vars

HNext == Build \/ \E c \in HCalls : HCall(c)

HSpec == HInit /\ [][HNext]_hvars

HFresh(c) == Filter(AllOut, CleanIds(ModeOf(c)))

HPurity == \A n \in 1..Len(hist) : hist[n].out = HFresh(hist[n].call)

\* the results of one reader, in whatever order they were asked for, satisfy the contract
Weaker(m1, m2) == ModeIx(m1) < ModeIx(m2)
HContract ==
    \A a, b \in 1..Len(hist) :
        LET ma == ModeOf(hist[a].call) mb == ModeOf(hist[b].call) IN
        /\ W4(hist[a].out)
        /\ ma = "none" => W1(hist[a].out)
        /\ Weaker(ma, mb) => IsSubseq(hist[b].out, hist[a].out)
        /\ ma = "none" => W3(mb, hist[b].out, hist[a].out)
=============================================================================
