--------------------------- MODULE SheetHistoryTrace ---------------------------
(* Trace validation for SheetHistory: "Open" starts a segment (one reader / one  *)
(* facade object opened on a workbook the harness wrote; the workbook is given    *)
(* as items and merged regions per sheet and re-checked for validity), every      *)
(* "Call" is one public call on that object with the cells read back per          *)
(* presented sheet - absolute for the sheet accessor and the first text block,    *)
(* rows from the block's first line for later text blocks, content box moved to   *)
(* the origin for Markdown / model / Tables().  The spec's reader is the pure      *)
(* one: a call is accepted only if it presents what a freshly opened reader does. *)
EXTENDS SheetHistory, Json

Trace == ndJsonDeserialize("trace.ndjson")

VARIABLE l
tvars == <<hvars, l>>
Ev == Trace[l]

TraceInit ==
    /\ l = 1 /\ off = <<0, 0>> /\ rot = 0 /\ lay = [rowR |-> TRUE, sstRev |-> FALSE, perm |-> <<>>, pad |-> "none", xml |-> "std", valsp |-> "none"]
    /\ cur = 1 /\ nv = 0 /\ items = << <<>> >> /\ mseq = << <<>> >> /\ grid = << {} >>
    /\ rd = "reader" /\ held = << {} >> /\ hist = <<>>

ValidSheet(its, ms) ==
    /\ \A i, j \in 1..Len(its) : (its[i].c = its[j].c /\ its[i].r = its[j].r) => i = j
    /\ \A i \in 1..Len(its) : its[i].c >= 1 /\ its[i].r >= 1 /\ its[i].t \in KindSet
    /\ \A i \in 1..Len(ms) : IsRect(ms[i]) /\ ms[i][1] >= 1 /\ ms[i][2] >= 1
    /\ \A i, j \in 1..Len(ms) : (i # j) => Disjoint(ms[i], ms[j])

TraceOpen ==
    /\ l <= Len(Trace) /\ Ev.event = "Open" /\ l' = l + 1
    /\ Len(Ev.items) >= 1 /\ Len(Ev.items) = Len(Ev.mseq)
    /\ \A sh \in 1..Len(Ev.items) : ValidSheet(Ev.items[sh], Ev.mseq[sh])
    /\ items' = Ev.items /\ mseq' = Ev.mseq /\ cur' = Len(Ev.items)
    /\ grid' = [sh \in 1..Len(Ev.items) |-> GridOf(Ev.items[sh])]
    /\ nv' = 0 /\ rd' = Ev.rd
    /\ held' = [sh \in 1..Len(Ev.items) |->
                   {g \in GridOf(Ev.items[sh]) :
                      ~ \E i \in 1..Len(Ev.mseq[sh]) : InRect(Ev.mseq[sh][i], g.c, g.r) /\ ~IsRoot(Ev.mseq[sh][i], g.c, g.r)}]
    /\ hist' = <<>>
    /\ UNCHANGED <<off, rot, lay>>

RowsToOrigin(S) == IF S = {} THEN S ELSE {[c |-> g.c, r |-> g.r - MinOf({h.r : h \in S}) + 1, d |-> g.d] : g \in S}
NormFor(op, k, S) ==
    CASE op = "sheet" -> S
      [] op \in {"text", "textopt"} -> (IF k = 1 THEN S ELSE RowsToOrigin(S))
      [] OTHER -> ToOrigin(S)

TraceCall ==
    /\ l <= Len(Trace) /\ Ev.event = "Call" /\ l' = l + 1
    /\ Ev.op \in {"text", "textopt", "md", "mdopt", "rag", "doc", "tables", "sheet", "names"}
    /\ DoCall([op |-> Ev.op, sel |-> Ev.sel, hdr |-> Ev.hdr, delim |-> Ev.delim, meta |-> Ev.meta, toc |-> Ev.toc])
    /\ Ev.count = cur
    /\ LET V == hist'[Len(hist')].view IN
         IF Ev.op = "names" THEN TRUE
         ELSE /\ Len(Ev.view) = Len(V)
              /\ \A k \in 1..Len(V) : {Ev.view[k][i] : i \in 1..Len(Ev.view[k])} = NormFor(Ev.op, k, V[k])
                                      /\ Len(Ev.view[k]) = Cardinality(V[k])

TraceNext == TraceOpen \/ TraceCall
TraceSpec == TraceInit /\ [][TraceNext]_tvars
TraceAccepted == TLCGet("stats").diameter - 1 = Len(Trace)
=============================================================================
