----------------------------- MODULE WordDocTrace -----------------------------
(* Trace validation for WordDoc: the driver renders a document (Doc event: the  *)
(* abstract document, re-checked against IsDoc), reads it back with the real     *)
(* docx / odt reader and logs the document model it got, one Block event per     *)
(* element, then End.  Every Block must be explained by the reader contract's    *)
(* next Emit action: same kind, level, tokens, grid cells; whitespace between    *)
(* tokens compatible with the tab / break / space atoms of the source.           *)
EXTENDS WordDoc, Json

Trace == ndJsonDeserialize("trace.ndjson")

VARIABLE l
tvars == <<vars, l>>

Ev == Trace[l]

NoDoc == [fmt |-> "docx", body |-> <<>>, hdr |-> 0, ftr |-> 0, sheet |-> <<>>]

TraceInit == l = 1 /\ doc = NoDoc /\ pos = 0 /\ out = <<>>

\* the next block that presents something (wrappers and markers are passed over silently)
NextShown(p) == LET c == {q \in (p + 1)..Len(doc.body) : doc.body[q].k \notin Brackets} IN
                IF c = {} THEN 0 ELSE CHOOSE q \in c : \A x \in c : q <= x

\* a new segment: the previous document must have been read to its end
TraceDoc ==
    /\ l <= Len(Trace) /\ Ev.event = "Doc" /\ l' = l + 1
    /\ doc.body = <<>> \/ NextShown(pos) = 0
    /\ doc' = [fmt |-> Ev.fmt, body |-> Ev.body, hdr |-> Ev.hdr, ftr |-> Ev.ftr, sheet |-> Ev.sheet]
    /\ IsDoc(doc')
    /\ pos' = 0 /\ out' = <<>>

GapOK(e, o) == IF e = "ws" THEN o \in {"ws", "sp"} ELSE o \in {"none", "sp"}

Matches(it, e) ==
    \* "PH": the sheet leaves open whether the paragraph is a heading
    /\ IF it.k = "PH" THEN e.k \in {"P", "H"} ELSE it.k = e.k
    /\ it.ids = e.ids
    /\ it.k \in {"H", "LI"} => (it.lvl = e.lvl \/ it.alt = -1 \/ (it.alt > 0 /\ it.alt = e.lvl))
    /\ it.k # "TBL" => /\ Len(e.gaps) = Len(it.gaps)
                       /\ \A j \in 1..Len(it.gaps) : GapOK(it.gaps[j], e.gaps[j])
    /\ it.k = "TBL" => /\ it.rows = e.rows /\ it.cols = e.cols
                       /\ Len(it.cells) = Len(e.cells)
                       /\ \A q \in 1..Len(it.cells) :
                             /\ it.cells[q].r = e.cells[q].r /\ it.cells[q].c = e.cells[q].c
                             /\ it.cells[q].rs = e.cells[q].rs /\ it.cells[q].cs = e.cells[q].cs
                             /\ it.cells[q].ids = e.cells[q].ids

TraceBlock ==
    /\ l <= Len(Trace) /\ Ev.event = "Block" /\ l' = l + 1
    /\ NextShown(pos) > 0
    /\ pos' = NextShown(pos)
    /\ out' = out \o [q \in 1..(NextShown(pos) - pos) |-> Item(doc, pos + q)]
    /\ UNCHANGED doc
    /\ Matches(out'[Len(out')], Ev)

TraceEnd ==
    /\ l <= Len(Trace) /\ Ev.event = "End" /\ l' = l + 1
    /\ NextShown(pos) = 0
    /\ UNCHANGED vars

TraceNext == TraceDoc \/ TraceBlock \/ TraceEnd

TraceSpec == TraceInit /\ [][TraceNext]_tvars

TraceAccepted == TLCGet("stats").diameter - 1 = Len(Trace)
=============================================================================
