---------------------------- MODULE MarkdownTrace ----------------------------
(* Trace validation for Markdown: every line of trace.ndjson is one element   *)
(* of a generated document rendered by one real Markdown writer, with the     *)
(* block the harness's GFM reader read back for it:                           *)
(*   Md(writer, el, off, mx, got)                                             *)
(* el is the abstract element (table: shape, cell kinds, merge; heading:      *)
(* level; list: items), got the parsed block ("none" if the element did not   *)
(* come out as a block of its kind).  The guard is the property.              *)
EXTENDS Markdown, Json

Trace == ndJsonDeserialize("trace.ndjson")

VARIABLE l
tvars == <<mvars, l>>

NoDoc(c) == [els |-> <<>>, off |-> 0, mx |-> 6, meta |-> FALSE]

TraceInit == l = 1 /\ cas = <<>> /\ pc = 0 /\ out = <<>> /\ done = TRUE

Ev == Trace[l]

ElOf(e) == CASE e.t = "table"   -> [t |-> "table", tb |-> e.tb]
             [] e.t = "heading" -> [t |-> "heading", level |-> e.level, w |-> e.w]
             [] e.t = "list"    -> [t |-> "list", items |-> e.items]
             [] e.t = "para"    -> [t |-> "para", w |-> e.w]

TraceMd ==
    /\ l <= Len(Trace) /\ Ev.event = "Md" /\ l' = l + 1
    /\ "err" \notin DOMAIN Ev
    /\ (Ev.el.t = "table" => MergeFits(Ev.el.tb))
    /\ (Ev.el.t = "list" => WellFormedList(Ev.el.items))
    /\ Matches(ExpBlock(ElOf(Ev.el), [off |-> Ev.off, mx |-> Ev.mx]), Ev.got)
    /\ UNCHANGED mvars

TraceNext == TraceMd

TraceSpec == TraceInit /\ [][TraceNext]_tvars

TraceAccepted == TLCGet("stats").diameter - 1 = Len(Trace)
=============================================================================
