SPECIFICATION Spec
CONSTANTS
  Cases <- ImplCases
  Expand <- McExpand
  Esc = "escape"
  Header = "dup"
  Merge = "grid"
  Sep = "each"
  MaxSpecial = 1
  FullCells = 0
INVARIANTS RoundTrip
CHECK_DEADLOCK FALSE
