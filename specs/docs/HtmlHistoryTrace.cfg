SPECIFICATION TraceSpec
CONSTANTS
  Opens = {}
  Forms = {}
  Alpha = "full"
  MaxLen = 1000000
  MaxDepth = 1000
  Lax = TRUE
  DocPlans = {}
  HCalls = {}
  HMaxLen = 0
  Verdicts = "permode"
INVARIANTS WellNested ContentModelOK
POSTCONDITION TraceAccepted
CHECK_DEADLOCK FALSE
