INIT MCInit
NEXT Next
CONSTANTS
  Docs <- MCDocs
  Fam = "N"
  MaxBlocks = 4
  MaxCh = 2
  MaxAt = 2
  MaxDim = 2
INVARIANTS TypeOK Order Structure CellsOK NoLeak Complete
CONSTRAINT Emit
CHECK_DEADLOCK FALSE
