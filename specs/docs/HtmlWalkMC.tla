------------------------------ MODULE HtmlWalkMC ------------------------------
(* Bounded alphabets for HtmlWalk, case emission, alphabet emission.          *)
EXTENDS HtmlWalk, Json

CONSTANT Alpha      \* which alphabet Opens ranges over

E(t, a)        == [tag |-> t, attr |-> a, planned |-> FALSE, plan |-> <<>>]
Pl(t, a, plan) == [tag |-> t, attr |-> a, planned |-> TRUE, plan |-> plan]
Tx             == TextDesc("plain")

\* ---- planned shapes ---------------------------------------------------------
Cell(t, a) == E(t, a)          \* a cell is filled freely
Row(cells) == Pl("tr", "", cells)
TD == Cell("td", "")
TH == Cell("th", "")
\* tables: every shape satisfies the HTML table model (no overlapping cells, every
\* row and column has an anchored cell)
T11   == Pl("table", "", <<Row(<<TD>>)>>)
T12   == Pl("table", "", <<Row(<<TD, TD>>)>>)
T21h  == Pl("table", "", <<Row(<<TH>>), Row(<<TD>>)>>)
T22c  == Pl("table", "", <<Row(<<Cell("td", "colspan:2")>>), Row(<<TD, TD>>)>>)
T22r  == Pl("table", "", <<Row(<<Cell("td", "rowspan:2"), TD>>), Row(<<TD>>)>>)
T22g  == Pl("table", "", <<Pl("thead", "", <<Row(<<TH, TH>>)>>), Pl("tbody", "", <<Row(<<TD, TD>>)>>)>>)
T21f  == Pl("table", "", <<Pl("tbody", "", <<Row(<<TD>>)>>), Pl("tfoot", "", <<Row(<<TD>>)>>)>>)
T33   == Pl("table", "class:content",
            <<Pl("thead", "", <<Row(<<TH, Cell("th", "colspan:2")>>)>>),
              Pl("tbody", "", <<Row(<<Cell("td", "rowspan:2"), TD, TD>>), Row(<<TD, TD>>)>>),
              Pl("tfoot", "", <<Row(<<Cell("td", "colspan:2"), TD>>)>>)>>)
Tables == {T11, T12, T21h, T22c, T22r, T22g, T21f, T33}

Script == Pl("script", "", <<Tx>>)
LinkLi == Pl("li", "", <<Pl("a", "", <<Tx>>)>>)
LinkA  == Pl("a", "", <<Tx>>)
\* link-dense blocks: four links and nothing else / four links and one plain item
LinkList(a)  == Pl("ul", a, <<LinkLi, LinkLi, LinkLi, LinkLi>>)
LinkList5(a) == Pl("ul", a, <<LinkLi, LinkLi, Pl("li", "", <<Tx>>), LinkLi, LinkLi>>)
LinkDiv(a)   == Pl("div", a, <<LinkA, LinkA, LinkA, LinkA>>)
\* link-sparse block: one link among text
SparseP      == Pl("p", "", <<Tx, LinkA, Tx>>)
LinkBlocks == {LinkList(""), LinkList5(""), LinkDiv(""), LinkList("class:content"), SparseP}

\* excludable children for mixed content (one cost unit each): a nested list / div / section /
\* table / nav / aside that some mode may exclude - by vocabulary class, landmark role, element
\* kind, or link density
PItem == Pl("li", "", <<Tx>>)
PPar  == Pl("p", "", <<Tx>>)
ExclKids == {Pl("ul", "class:menu", <<PItem>>), Pl("ol", "role:navigation", <<PItem>>), LinkList(""),
             Pl("nav", "", <<PPar>>), Pl("aside", "", <<Tx>>), Pl("div", "class:sidebar", <<PPar>>),
             Pl("section", "id:footer", <<Tx>>),
             Pl("table", "class:widget", <<Row(<<Pl("td", "", <<Tx>>)>>)>>)}

KidsQ == {Pl("ul", "class:menu", <<PItem>>), Pl("ol", "role:navigation", <<PItem>>), LinkList(""), Pl("div", "class:sidebar", <<PPar>>)}

\* ---- free elements ----------------------------------------------------------
Boxes(attrs) == {E(t, a) : t \in {"div", "section"}, a \in attrs} \cup
                {E(t, "") : t \in {"nav", "aside", "header", "footer", "blockquote"}}
Leafy == {E("p", ""), E("h2", ""), E("ul", ""), E("ol", ""), E("li", ""), E("pre", ""), E("a", "")}

\* the whole alphabet of the specification (what record-mode documents are drawn from)
FullAlphabet ==
    {E(t, a) : t \in {"div", "section", "ul", "ol", "p", "li", "blockquote"},
               a \in PlainAttrs \cup VocabAttrs \cup NearAttrs \cup RoleHints}
    \cup {E(t, "") : t \in {"nav", "aside", "header", "footer", "pre", "a", "br"} \cup Headings}
    \cup Tables \cup LinkBlocks \cup {Script} \cup ExclKids
    \cup {E(t, "") : t \in {"dl", "dt", "dd", "figure", "figcaption", "details", "summary"}}

AlphaSet ==
    CASE Alpha = "q1" ->  \* everything structural, few attributes
           Boxes({"", "class:sidebar"}) \cup Leafy \cup {T11, Script}
      [] Alpha = "q2" ->  \* exclusion vocabulary on boxes, content inside
           {E("div", a) : a \in {"", "class:nav", "class:navy", "role:navigation", "role:banner"}}
           \cup {E("nav", ""), E("header", ""), E("p", ""), E("ul", "id:menu"), E("li", ""),
                 LinkList(""), SparseP}
      [] Alpha = "q3" ->  \* tables and lists
           {E("div", ""), E("p", ""), E("ul", ""), E("ol", ""), E("li", ""), E("a", ""), E("br", "")} \cup Tables
      [] Alpha = "q4" ->  \* entity forms in every kind of content element
           {E("p", ""), E("h1", ""), E("h3", ""), E("ul", ""), E("li", ""), E("pre", ""), E("blockquote", ""),
            E("div", "class:widget"), T12}
      [] Alpha = "q5" ->  \* deep list nesting, text around nested lists
           {E("ul", ""), E("li", ""), E("p", "")}
      [] Alpha = "q6" ->  \* (Lax) lists and div wrappers directly inside lists
           {E("ul", ""), E("ol", ""), E("li", ""), E("div", ""), E("p", "")}
      [] Alpha = "q7" ->  \* the attribute dimension: every generated class / id combination on a box
           {E("div", a) : a \in PlainAttrs \cup VocabAttrs \cup NearAttrs} \cup {E("p", "")}
      [] Alpha = "q8" ->  \* mixed content: text before / after / between excludable children in li, div, td, blockquote
           {E("ul", ""), E("li", "")} \cup KidsQ
      [] Alpha = "q8b" ->  \* ... in div, blockquote, td
           {E("div", ""), E("blockquote", ""), T11} \cup KidsQ
      [] Alpha = "t8" ->
           {E("ul", ""), E("li", "")} \cup ExclKids
      [] Alpha = "t8b" ->
           {E("div", ""), E("blockquote", ""), T11} \cup ExclKids
      [] Alpha = "q9" ->  \* the same inside dt / dd, figcaption, summary / details
           {E(t, "") : t \in {"dl", "dt", "dd", "figure", "figcaption", "details", "summary"}}
           \cup {Pl("ul", "class:menu", <<PItem>>), Pl("nav", "", <<PPar>>)}
      [] Alpha = "t9" ->
           {E(t, "") : t \in {"dl", "dt", "dd", "figure", "figcaption", "details", "summary"}} \cup KidsQ
      [] Alpha = "t2" ->  \* thorough: the whole attribute vocabulary on one box kind
           \* (the whole attribute table is enumerated by q7 / t7; here every role and a sample of it)
           {E("div", a) : a \in RoleHints \cup {"", "class:content", "role:main", "class:nav", "id:menu", "class:top menu",
                                                 "class:sidebar|id:secondary", "class:navy", "class:widgets",
                                                 "class:side|id:bar-chart"}}
           \cup {E("p", ""), E("footer", ""), E("aside", ""), LinkDiv(""), LinkList5("")}
      [] Alpha = "full" -> FullAlphabet

\* ---- emission ---------------------------------------------------------------
Case == [alpha |-> Alpha, stream |-> stream, omit |-> Omit, ntok |-> Len(toks),
         content |-> Content, forbidden |-> Forbidden,
         cleanE |-> CleanIds("explicit"), cleanS |-> CleanIds("standard"), cleanA |-> CleanIds("aggressive"),
         cleanN |-> CleanIds("none"),
         excl |-> Cardinality(CleanIds("none") \ CleanIds("aggressive")),
         depth |-> FoldLeft(LAMBDA a, t : IF Len(t.path) > a THEN Len(t.path) ELSE a, 0, toks)]

Emit == Complete => PrintT(ToJson(Case))

\* in simulation emit only the documents the walk ends with
EmitLeaf == (Complete /\ cost = MaxLen) => PrintT(ToJson(Case))

\* one JSON line per descriptor of the full alphabet (input of the record-mode generator)
AlphaInit == /\ Init /\ \A d \in FullAlphabet : PrintT(ToJson(d))
AlphaNext == FALSE /\ UNCHANGED vars
=============================================================================
