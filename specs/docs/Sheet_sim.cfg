SPECIFICATION Spec
CONSTANTS
  Codec = "bijective"
  Place = "byref"
  Window = 4
  WindowRows = 4
  MergeMode = "all"
  Ordered = FALSE
  Offsets <- OffAll
  Rects <- WindowRects
  MaxCells = 5
  MaxMerges = 2
  MaxSheets = 2
  KindSeq <- KindsAll
  Rots <- RotAll
  Layouts <- LayAll
CONSTRAINT Emit
CHECK_DEADLOCK FALSE
