SPECIFICATION MCSpec
CONSTANTS
  OrderBy = "declared"
  Chain = "last"
  Decode = "path"
  Packages = {}
  K = 3
  Fmts = {"epub"}
  Wide = "neg"
INVARIANTS TypeOK ValidPackage DeclaredPrefix DeclaredOrder OwnPage
CHECK_DEADLOCK FALSE
