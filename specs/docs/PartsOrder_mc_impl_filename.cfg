SPECIFICATION MCSpec
CONSTANTS
  OrderBy = "filename"
  Chain = "first"
  Decode = "path"
  Packages = {}
  K = 3
  Fmts = {"pptx"}
  Wide = "neg"
INVARIANTS TypeOK ValidPackage DeclaredPrefix DeclaredOrder OwnPage
CHECK_DEADLOCK FALSE
