---------------------------- MODULE DocxOrderImpl ----------------------------
(***************************************************************************)
(* Implementation-shaped model of docx.Reader.parseBodyElementsInOrder     *)
(* (pinned tree).  The reader first unmarshals word/document.xml into two  *)
(* typed slices - Body.Paragraphs (the top-level w:p children of w:body,   *)
(* in order) and Body.Tables (the top-level w:tbl children) - and then     *)
(* makes a second, streaming pass over the same bytes to recover the       *)
(* interleaving: for every w:p start tag it takes the next unused entry of *)
(* Paragraphs, for every w:tbl start tag the next unused entry of Tables.  *)
(*                                                                         *)
(* Matcher = "blind" : the pinned pass.  It reacts to EVERY p / tbl start  *)
(*                     tag between <w:body> and </w:body>, also those      *)
(*                     nested in table cells.                              *)
(* Matcher = "depth" : the same pass counting element depth and reacting   *)
(*                     only to direct children of w:body.                  *)
(* Matcher = "skip"  : a pass that, instead of counting depth, skips the   *)
(*                     subtree of every p / tbl it registers: equivalent   *)
(*                     for cell content, but a p / tbl inside a block-     *)
(*                     level wrapper (w:sdt, w:customXml) is registered    *)
(*                     although the typed slices hold direct children only *)
(*                                                                         *)
(* Property Order: when the pass is finished the recovered element list is *)
(* exactly the body, block by block.  TLC proves it for "depth" and        *)
(* refutes it for "blind".                                                 *)
(***************************************************************************)
EXTENDS WordDoc

CONSTANTS Matcher

VARIABLES i,        \* start tags consumed by the streaming pass
          pidx,     \* paraIndex
          tidx,     \* tableIndex
          elems     \* Body.Elements: the block numbers recovered, in order

ivars == <<doc, pos, out, i, pidx, tidx, elems>>

\* the p / tbl start tags inside w:body in document order; depth 0 = child of body
TagsOf(d, n) ==
    LET b == d.body[n] IN
    IF b.k \in Brackets THEN <<>>
    ELSE IF b.k # "TBL" THEN << [tag |-> "p", depth |-> WrapDepth(d.body, n), inblk |-> FALSE, blk |-> n] >>
    ELSE << [tag |-> "tbl", depth |-> WrapDepth(d.body, n), inblk |-> FALSE, blk |-> n] >>
         \o FlattenSeq([r \in 1..b.tb.rows |-> FlattenSeq([c \in 1..b.tb.cols |->
                LET g == Grid(b.tb)[r][c] IN
                \* an anchor cell holds np paragraphs, a vMerge continuation cell one
                \* empty paragraph, a position covered by gridSpan has no w:tc at all
                [q \in 1..(IF g.kind = "a" THEN g.np ELSE IF g.kind = "vc" THEN 1 ELSE 0) |->
                    [tag |-> "p", depth |-> WrapDepth(d.body, n) + 3, inblk |-> TRUE, blk |-> n]]])])

Stream(d) == FlattenSeq([n \in 1..Len(d.body) |-> TagsOf(d, n)])

\* the typed slices of the first pass
\* the typed slices of the first pass: direct children of w:body only
Direct(d, n)  == d.body[n].k \notin Brackets /\ WrapDepth(d.body, n) = 0
Paragraphs(d) == SelectSeq([n \in 1..Len(d.body) |-> n], LAMBDA n : Direct(d, n) /\ d.body[n].k # "TBL")
Tables(d)     == SelectSeq([n \in 1..Len(d.body) |-> n], LAMBDA n : Direct(d, n) /\ d.body[n].k = "TBL")

ImplInit == /\ doc \in Docs /\ doc.fmt = "docx" /\ pos = 0 /\ out = <<>>
            /\ i = 0 /\ pidx = 0 /\ tidx = 0 /\ elems = <<>>

StartTag ==
    /\ i < Len(Stream(doc))
    /\ i' = i + 1
    /\ LET ev == Stream(doc)[i + 1] IN
       IF (Matcher = "depth" /\ ev.depth > 0) \/ (Matcher = "skip" /\ ev.inblk)
       THEN UNCHANGED <<pidx, tidx, elems>>
       ELSE IF ev.tag = "p"
            THEN IF pidx < Len(Paragraphs(doc))
                 THEN /\ elems' = Append(elems, Paragraphs(doc)[pidx + 1])
                      /\ pidx' = pidx + 1 /\ UNCHANGED tidx
                 ELSE UNCHANGED <<pidx, tidx, elems>>
            ELSE IF tidx < Len(Tables(doc))
                 THEN /\ elems' = Append(elems, Tables(doc)[tidx + 1])
                      /\ tidx' = tidx + 1 /\ UNCHANGED pidx
                 ELSE UNCHANGED <<pidx, tidx, elems>>
    /\ UNCHANGED <<doc, pos, out>>

ImplSpec == ImplInit /\ [][StartTag]_ivars

PassDone == i = Len(Stream(doc))

\* the contract: the recovered order is the source order
\* (the ordinary body blocks - direct children - in source order, whatever wrappers stand
\* between them; what is inside a wrapper is not recovered by a two-pass reader at all)
ImplOrder == PassDone => elems = SelectSeq([n \in 1..Len(doc.body) |-> n], LAMBDA n : Direct(doc, n))

\* weaker facts that hold for both matchers (sanity of the model itself)
ImplSane == /\ pidx <= Len(Paragraphs(doc)) /\ tidx <= Len(Tables(doc))
            /\ Len(elems) = pidx + tidx
=============================================================================
