SPECIFICATION GenSpec
CONSTANTS
  Opens <- AlphaSet
  Forms = {"plain"}
  Alpha = "q5"
  MaxLen = 7
  MaxDepth = 6
INVARIANTS Lattice WellNested ContentModelOK DocOrder RefOK
CONSTRAINT Emit
CHECK_DEADLOCK FALSE
