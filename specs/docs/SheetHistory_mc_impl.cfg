SPECIFICATION HSpec
CONSTANTS
  Codec = "bijective"
  Place = "byref"
  Window = 1
  WindowRows = 1
  MergeMode = "all"
  Ordered = FALSE
  Offsets = {}
  Rects = {}
  MaxCells = 1000
  MaxMerges = 1000
  MaxSheets = 1000
  KindSeq <- KindsAll
  Rots = {}
  Layouts = {}
  Books <- HBooks
  Calls <- HCalls
  Readers = {"reader", "facade"}
  MaxLen = 2
  Cache = "writeback"
INVARIANTS Purity
CHECK_DEADLOCK FALSE
