---------------------------- MODULE WordHistoryMC ----------------------------
(* Bounded instance of WordHistory: documents with headings of levels 1..9     *)
(* (ODT ..10) declared in every way, a list and a table; every history of      *)
(* MaxLen calls over the call alphabet; emission with the levels per call.     *)
EXTENDS WordHistory, Json

R(w, a) == [w |-> w, a |-> a]
One == <<R("r", <<"t">>)>>
B(k, l, how, num, tb) == [k |-> k, ch |-> IF k = "TBL" THEN <<>> ELSE One, lvl |-> l, how |-> how, num |-> num, sty |-> 0, tb |-> tb]
Hd(l, how) == B("H", l, how, "", NoTbl)
Pp == B("P", 0, "", "", NoTbl)
Li(l) == B("LI", l, "", "bullet", NoTbl)
Tb == B("TBL", 0, "", "", [rows |-> 1, cols |-> 2, hm |-> <<>>, vm |-> <<>>, mp |-> <<>>, rc |-> <<>>])
D(f, body) == [fmt |-> f, body |-> body, hdr |-> 1, ftr |-> 1, sheet |-> <<>>]
\* a body paragraph that equals the header line / the footer line
Echo(a) == [k |-> "P", ch |-> <<R("r", <<a>>)>>, lvl |-> 0, how |-> "", num |-> "", sty |-> 0, tb |-> NoTbl]

HDocs == {D("docx", <<Hd(2, "builtin"), Echo("eh"), Pp, Hd(7, "builtin"), Li(0), Li(1), Hd(9, "outline"), Tb, Echo("ef"), Hd(8, "custom1"), Hd(6, "custom2")>>),
          D("docx", <<Hd(9, "builtin"), Echo("ef"), Hd(1, "outline"), Pp, Echo("ef")>>),
          D("odt",  <<Hd(2, "builtin"), Echo("ef"), Pp, Hd(7, "builtin"), Li(0), Li(1), Hd(10, "outline"), Tb, Echo("eh"), Hd(8, "custom1")>>),
          D("odt",  <<Hd(9, "custom1"), Echo("eh"), Hd(1, "outline"), Pp>>)}

C(op, off, mx) == [op |-> op, off |-> off, mx |-> mx, xo |-> "none"]
X(op, off, mx, xo) == [op |-> op, off |-> off, mx |-> mx, xo |-> xo]
Xos == {"none", "h", "f", "hf"}
HCalls == {C("md", 0, 0), C("doc", 0, 0), C("tables", 0, 0)}
          \cup {X("text", 0, 0, xo) : xo \in Xos} \cup {X("mdopt", 0, 0, xo) : xo \in Xos}
          \cup {X("rag", 0, 0, "none"), X("rag", -1, 0, "h"), X("rag", 2, 0, "f"), X("rag", 0, 2, "hf"), X("rag", -2, 9, "none"),
                X("rag", 1, 4, "f")}

\* the quick alphabet: every view, every option set on Text, two on the Markdown views
HCallsQ == {C("md", 0, 0), C("doc", 0, 0), C("tables", 0, 0)}
           \cup {X("text", 0, 0, xo) : xo \in Xos}
           \cup {X("mdopt", 0, 0, "h"), X("mdopt", 0, 0, "hf"), X("rag", -1, 0, "f"), X("rag", 0, 2, "none")}

EmitHist == (Len(hist) = MaxLen) => PrintT(ToJson(
    [kind |-> "history", fmt |-> doc.fmt, body |-> doc.body, hdr |-> doc.hdr, ftr |-> doc.ftr, sheet |-> doc.sheet,
     bases |-> Bases(doc.body), ntok |-> Sum([i \in 1..Len(doc.body) |-> NTok(doc.body[i])]),
     items |-> [i \in 1..Len(doc.body) |-> Item(doc, i)],
     hdrtok |-> HdrTok, ftrtok |-> FtrTok,
     calls |-> [n \in 1..Len(hist) |-> [op |-> hist[n].call.op, off |-> hist[n].call.off, mx |-> hist[n].call.mx, xo |-> hist[n].call.xo,
                                        levels |-> hist[n].levels, eh |-> hist[n].eh, ef |-> hist[n].ef,
                                        neh |-> NEcho(doc, "eh"), nef |-> NEcho(doc, "ef")]]]))
=============================================================================
