------------------------------ MODULE Markdown ------------------------------
(***************************************************************************)
(* Markdown output as a sequence of structured lines, a reference writer   *)
(* that emits them one per step, and the GitHub-flavoured-Markdown reading *)
(* of such lines (pipe tables, ATX headings, list items).  The property:   *)
(* reading what the writer wrote gives back the document's structure       *)
(*   - every table as the same rows x columns of cell words (merged cell   *)
(*     at its anchor, covered positions free),                             *)
(*   - every heading at level Out(level, offset, max) in 1..6,             *)
(*   - list items in order with their depth and ordered/unordered kind,    *)
(*   - every body word present.                                            *)
(*                                                                         *)
(* Lines:  [t |-> "h",   n, s]           n hashes, text s                  *)
(*         [t |-> "row", cells]          cells: seq of [src, words]        *)
(*         [t |-> "sep", n]              delimiter row with n cells        *)
(*         [t |-> "li",  ind, k, s]      ind spaces, marker k ("o" "u")    *)
(*         [t |-> "p",   s]   [t |-> "blank"]   [t |-> "fm", s]            *)
(* `src` is the Markdown source of a cell and `words` what GFM reads from  *)
(* it (TLC strings are opaque, so the writer states both: "a\|b" reads as  *)
(* the word a|b, an unescaped | ends the cell, "<br>" separates words).    *)
(*                                                                         *)
(* Three switches give implementation-shaped writers that TLC must refute: *)
(*   Esc    = "raw"   cell text written without escaping '|'               *)
(*   Header = "dup"   a header-less table writes its first row as header   *)
(*                    and again as the first body row                      *)
(*   Header = "afterlast"  the delimiter row is written after the last of  *)
(*                    the leading rows the source marks as header rows     *)
(*   Merge  = "skip"  positions covered by a merged cell are skipped and   *)
(*                    the row is padded at its end                         *)
(*   Sep    = "once"  consecutive tables are written without a blank line  *)
(*                    between them                                         *)
(*   Dedup  = "seen"  only the first heading with a given text gets a      *)
(*                    heading line                                         *)
(*   Width  = "first" the delimiter row is as wide as the first row, not   *)
(*                    as the widest row of a ragged table                  *)
(***************************************************************************)
EXTENDS DocModel, SequencesExt

CONSTANTS Cases,      \* descriptors of the documents explored (see MarkdownMC)
          Expand(_),  \* descriptor -> [els, off, mx, meta]
          Esc, Header, Merge, Sep, Dedup, Width

\* ------------------------------------------------------------- the writer
Blank == [t |-> "blank"]
Concat(ss) == FoldLeft(LAMBDA a, b : a \o b, <<>>, ss)

CellOut(t, r, c) ==
    LET kd == t.kind[r][c] IN
    IF Absent(t, r, c) THEN (IF Width = "first" THEN <<>> ELSE <<[src |-> "", words |-> <<>>]>>)
    ELSE IF Covered(t, r, c) THEN (IF Merge = "skip" THEN <<>> ELSE <<[src |-> "", words |-> <<>>]>>)
    ELSE CASE kd = "pipe" /\ Esc = "raw" ->
                   <<[src |-> "a" \o Tag(r + t.off, c), words |-> <<"a" \o Tag(r + t.off, c)>>],
                     [src |-> "b" \o Tag(r + t.off, c), words |-> <<"b" \o Tag(r + t.off, c)>>]>>
           [] kd = "pipe" -> <<[src |-> "a" \o Tag(r + t.off, c) \o "\\|" \o "b" \o Tag(r + t.off, c), words |-> Words(kd, r + t.off, c)]>>
           [] kd = "nl"   -> <<[src |-> "x" \o Tag(r + t.off, c) \o "<br>" \o "y" \o Tag(r + t.off, c), words |-> Words(kd, r + t.off, c)]>>
           [] kd = "padded" -> <<[src |-> "q" \o Tag(r + t.off, c), words |-> Words(kd, r + t.off, c)]>>
           [] OTHER       -> <<[src |-> Raw(kd, r + t.off, c), words |-> Words(kd, r + t.off, c)]>>

RowCells(t, r) ==
    LET cells == Concat([c \in 1..t.nc |-> CellOut(t, r, c)])
    IN IF Merge = "skip" /\ Len(cells) < t.nc
       THEN cells \o [x \in 1..(t.nc - Len(cells)) |-> [src |-> "", words |-> <<>>]]
       ELSE cells
RowLine(t, r) == [t |-> "row", cells |-> RowCells(t, r)]

\* Width = "first" is the implementation-shaped writer that sizes the delimiter row (and pads) by the
\* FIRST row instead of the widest one, and writes every row with the cells it has
SepWidth(t) == IF Width = "first" THEN RowWidth(t, 1) ELSE t.nc

TableLines(t) ==
    IF Header = "afterlast" /\ LeadMarked(t.hm, t.nr) >= 2
    THEN \* the delimiter row after the LAST of the leading rows the source marks as header
         LET h == LeadMarked(t.hm, t.nr) IN
         [x \in 1..h |-> RowLine(t, x)] \o <<[t |-> "sep", n |-> SepWidth(t)]>> \o [x \in 1..(t.nr - h) |-> RowLine(t, h + x)]
    ELSE LET first == IF Header = "dup" /\ ~t.hdr /\ t.nr > 1 THEN 1 ELSE 2
         IN <<RowLine(t, 1), [t |-> "sep", n |-> SepWidth(t)]>> \o [x \in 1..(t.nr - first + 1) |-> RowLine(t, first + x - 1)]

ListLines(items) == [n \in 1..Len(items) |-> [t |-> "li", ind |-> 2 * items[n].d, k |-> items[n].k, s |-> items[n].w]]

ElemLines(el, d) ==
    CASE el.t = "table"   -> TableLines(el.tb)
      [] el.t = "heading" -> <<[t |-> "h", n |-> Out(el.level, d.off, d.mx), s |-> el.w]>>
      [] el.t = "list"    -> ListLines(el.items)
      [] el.t = "para"    -> <<[t |-> "p", s |-> el.w]>>

FrontMatter(d) == IF d.meta THEN <<[t |-> "fm", s |-> "---"], [t |-> "fm", s |-> "title: \"T\""], [t |-> "fm", s |-> "---"], Blank>>
                            ELSE <<>>

\* every element followed by a blank line
\* every element is followed by a blank line: Markdown blocks are separated (two pipe tables
\* with no blank line between them are ONE table for a GFM parser).  Sep = "once" is the
\* implementation-shaped writer that sets a run of tables off by a single blank line before it.
AfterElem(d, e) == IF Sep = "once" /\ e < Len(d.els) /\ d.els[e].t = "table" /\ d.els[e + 1].t = "table"
                   THEN <<>> ELSE <<Blank>>
\* Dedup = "seen" is the implementation-shaped writer that gives a heading line only to the FIRST
\* heading with a given text and writes a later heading of the same text as a plain line
SeenBefore(d, e) == \E x \in 1..(e - 1) : d.els[x].t = "heading" /\ d.els[x].w = d.els[e].w
ElemLinesAt(d, e) == IF Dedup = "seen" /\ d.els[e].t = "heading" /\ SeenBefore(d, e)
                     THEN <<[t |-> "p", s |-> d.els[e].w]>>
                     ELSE ElemLines(d.els[e], d)
DocLines(d) == FrontMatter(d) \o Concat([e \in 1..Len(d.els) |-> ElemLinesAt(d, e) \o AfterElem(d, e)])

\* ------------------------------------------------------------- the reader
\* (GFM 4.10 tables, CommonMark 4.2 ATX headings, 5.2/5.3 list items)
RdInit == [blocks |-> <<>>, cur |-> "none", ncols |-> 0, stack |-> <<>>, skip |-> FALSE, fm |-> FALSE]

NormRow(cells, n) == [c \in 1..n |-> IF c <= Len(cells) THEN cells[c].words ELSE <<>>]

AppendToLast(blocks, f(_)) == [blocks EXCEPT ![Len(blocks)] = f(blocks[Len(blocks)])]

\* depth of a list item with `ind` leading spaces: it is nested in the open items whose
\* content it is indented into (at least marker indent + 2)
Keep(stack, ind) == SelectSeq(stack, LAMBDA e : e + 2 <= ind)

ReadLine(lines, st, n) ==
    LET ln == lines[n] IN
    IF st.fm THEN (IF ln.t = "fm" /\ ln.s = "---" THEN [st EXCEPT !.fm = FALSE] ELSE st)
    ELSE IF st.skip THEN [st EXCEPT !.skip = FALSE]
    ELSE CASE ln.t = "fm" -> IF n = 1 /\ ln.s = "---" THEN [st EXCEPT !.fm = TRUE] ELSE [st EXCEPT !.cur = "none"]
           [] ln.t = "blank" -> IF st.cur = "table" THEN [st EXCEPT !.cur = "none"] ELSE st
           [] ln.t = "h" ->
                IF ln.n \in 1..6
                THEN [st EXCEPT !.blocks = Append(@, [t |-> "heading", level |-> ln.n, s |-> ln.s]), !.cur = "none"]
                ELSE [st EXCEPT !.blocks = Append(@, [t |-> "para", s |-> ln.s]), !.cur = "none"]
           [] ln.t = "p" -> [st EXCEPT !.blocks = Append(@, [t |-> "para", s |-> ln.s]), !.cur = "none"]
           [] ln.t = "sep" -> [st EXCEPT !.cur = "none"]
           [] ln.t = "row" ->
                IF st.cur = "table"
                THEN [st EXCEPT !.blocks = AppendToLast(@, LAMBDA b : [b EXCEPT !.rows = Append(@, NormRow(ln.cells, st.ncols))])]
                ELSE IF n < Len(lines) /\ lines[n + 1].t = "sep" /\ lines[n + 1].n = Len(ln.cells)
                     THEN [st EXCEPT !.blocks = Append(@, [t |-> "table", rows |-> <<NormRow(ln.cells, Len(ln.cells))>>]),
                                     !.cur = "table", !.ncols = Len(ln.cells), !.skip = TRUE]
                     ELSE [st EXCEPT !.cur = "none"]
           [] ln.t = "li" ->
                IF st.cur = "list"
                THEN LET kept == Keep(st.stack, ln.ind) IN
                     [st EXCEPT !.blocks = AppendToLast(@, LAMBDA b : [b EXCEPT !.items = Append(@, [d |-> Len(kept), k |-> ln.k, w |-> ln.s])]),
                                !.stack = Append(kept, ln.ind)]
                ELSE IF ln.ind >= 4 THEN [st EXCEPT !.cur = "none"]    \* indented code, not a list
                ELSE [st EXCEPT !.blocks = Append(@, [t |-> "list", items |-> <<[d |-> 0, k |-> ln.k, w |-> ln.s]>>]),
                                !.cur = "list", !.stack = <<ln.ind>>]

ReadMd(lines) == FoldLeft(LAMBDA st, n : ReadLine(lines, st, n), RdInit, [n \in 1..Len(lines) |-> n]).blocks

\* ------------------------------------------------------------- expectation
ExpBlock(el, d) ==
    CASE el.t = "table"   -> [t |-> "table", grid |-> Grid(el.tb)]
      [] el.t = "heading" -> [t |-> "heading", level |-> Out(el.level, d.off, d.mx), s |-> el.w]
      [] el.t = "list"    -> [t |-> "list", items |-> el.items]
      [] el.t = "para"    -> [t |-> "para", s |-> el.w]
Expected(d) == [e \in 1..Len(d.els) |-> ExpBlock(d.els[e], d)]

TableMatches(grid, rows) ==
    /\ Len(rows) = Len(grid)
    /\ \A r \in 1..Len(grid) :
          /\ Len(rows[r]) = Len(grid[r])
          /\ \A c \in 1..Len(grid[r]) : grid[r][c].free \/ rows[r][c] = grid[r][c].words

Matches(e, g) ==
    /\ g.t = e.t
    /\ CASE e.t = "table"   -> TableMatches(e.grid, g.rows)
         [] e.t = "heading" -> g.level = e.level /\ g.s = e.s
         [] e.t = "list"    -> g.items = e.items
         [] e.t = "para"    -> g.s = e.s

AllMatch(exp, got) == Len(got) = Len(exp) /\ \A n \in 1..Len(exp) : Matches(exp[n], got[n])

\* ------------------------------------------------------------- the machine
VARIABLES cas,     \* the document (descriptor)
          pc,      \* lines emitted
          out,     \* the Markdown so far
          done

mvars == <<cas, pc, out, done>>

Doc == Expand(cas)
Lines == DocLines(Doc)

Init == cas \in Cases /\ pc = 0 /\ out = <<>> /\ done = FALSE

Emit(kind) == /\ ~done /\ pc < Len(Lines) /\ Lines[pc + 1].t = kind
              /\ out' = Append(out, Lines[pc + 1]) /\ pc' = pc + 1
              /\ UNCHANGED <<cas, done>>

EmitHeading == Emit("h")
EmitRow     == Emit("row")
EmitSep     == Emit("sep")
EmitItem    == Emit("li")
EmitPara    == Emit("p")
EmitBlank   == Emit("blank")
EmitFront   == Emit("fm")
Finish      == ~done /\ pc = Len(Lines) /\ done' = TRUE /\ UNCHANGED <<cas, pc, out>>

Next == EmitHeading \/ EmitRow \/ EmitSep \/ EmitItem \/ EmitPara \/ EmitBlank \/ EmitFront \/ Finish

Spec == Init /\ [][Next]_mvars /\ WF_mvars(Next)

\* ------------------------------------------------------------- properties
TypeOK == pc \in 0..Len(Lines) /\ done \in BOOLEAN /\ Len(out) = pc

\* structurally lossless
RoundTrip == done => AllMatch(Expected(Doc), ReadMd(out))

\* never below 1 or above 6, at every step
HeadingLevelOK == \A n \in 1..Len(out) : out[n].t = "h" => out[n].n \in 1..6

\* what has been written reads back as a prefix of the structure: blocks never change
\* once the next block has begun
PrefixStable == [][ \A n \in 1..(Len(ReadMd(out)) - 1) : n <= Len(ReadMd(out')) /\ ReadMd(out')[n] = ReadMd(out)[n] ]_mvars

Terminates == <>done
=============================================================================
