SPECIFICATION GenSpec
CONSTANTS
  Opens <- AlphaSet
  Forms = {"plain"}
  Alpha = "q2"
  MaxLen = 4
  MaxDepth = 5
  Lax = FALSE
INVARIANTS Lattice WellNested ContentModelOK DocOrder RefOK
CONSTRAINT Emit
CHECK_DEADLOCK FALSE
