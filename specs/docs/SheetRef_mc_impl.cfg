SPECIFICATION CodecSpec
CONSTANTS
  Codec = "positional"
  MaxLetters = 2
  Rows = {1}
INVARIANTS RoundTripIdx RoundTripCol
CHECK_DEADLOCK FALSE
