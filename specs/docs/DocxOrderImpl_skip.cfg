SPECIFICATION ImplSpec
CONSTANTS
  Docs <- ImplDocsW
  Matcher = "skip"
  MaxB = 4
INVARIANTS ImplSane ImplOrder
CHECK_DEADLOCK FALSE
