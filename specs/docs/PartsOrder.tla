----------------------------- MODULE PartsOrder -----------------------------
(***************************************************************************)
(* Reading order of multi-part container documents.                        *)
(*                                                                         *)
(*   XLSX  xl/workbook.xml <sheets> lists the worksheets in order; each    *)
(*         <sheet r:id> names a relationship of xl/_rels/workbook.xml.rels *)
(*         whose Target is the part (ECMA-376 Part 1, 18.2.19/18.2.20;     *)
(*         Part 2 (OPC) 9.3: targets are resolved against the source part) *)
(*   PPTX  ppt/presentation.xml <p:sldIdLst> lists the slides in order,    *)
(*         each <p:sldId r:id> resolved the same way (19.2.1.33/34)        *)
(*   EPUB  META-INF/container.xml -> package document; <spine> lists       *)
(*         <itemref idref> in reading order; idref -> manifest <item href> *)
(*         href is a URL relative to the package document, percent-encoded *)
(*         (EPUB 3.3 sec. 5.5 / 5.6, OPF 2.0.1 sec. 2.3 / 2.4)             *)
(*                                                                         *)
(* The declaration chain: an EPUB container may list several <rootfile>     *)
(* entries (OCF 3.3 sec. 4.2.6.3.1: "the first rootfile element ... is the  *)
(* Default Rendition"; OCF 2.0.1: entries of other media types are other    *)
(* formats of the book).  pkg.roots lists them in container order:          *)
(*   media  "opf" (application/oebps-package+xml) or "other"                *)
(*   auth   TRUE for the one whose manifest/spine the parts' decl/rel/href   *)
(*          fields describe: it must be the FIRST entry with media "opf"    *)
(*   spine  for the other package documents: the part ids THEY declare, in   *)
(*          their order (another order, another part set); hrefs  their refs *)
(* XLSX and PPTX have a single root.                                        *)
(*                                                                         *)
(* A package is a set of parts.  Every part has                            *)
(*   id      its content token (what its page must show)                   *)
(*   name    the ZIP member name: directory, stem, a special character,    *)
(*           the number n in the file name, extension                      *)
(*   href    the reference written in the declaring document: absolute or  *)
(*           relative segments (may contain ".."), stem, how the special   *)
(*           character is spelled, n, extension                            *)
(*   decl    position in the declared list (0: not declared - a decoy)     *)
(*   rel     position in the relationship / manifest listing (0: none)     *)
(*   zip     position among the archive members                            *)
(*   notes   TRUE: the part has an ATTACHMENT of its own (PPTX: a notes     *)
(*           slide related from the slide part) whose text - token id+200   *)
(*           - belongs to the part's page: every view that includes notes   *)
(*           shows it on that page and only there; an unreadable part       *)
(*           takes its attachment with it.  XLSX worksheets and EPUB        *)
(*           chapters have no attachment with text of its own that the      *)
(*           readers expose (comments, linked resources are not read)       *)
(*   present FALSE: the member is ABSENT from the archive.  A declared     *)
(*           part whose member is absent is not readable: it has no page,  *)
(*           it is not counted, and nothing else may be shown in its place *)
(*           (e.g. a member that merely carries the conventional name      *)
(*           sheet<position>.xml)                                          *)
(* The three orders (decl, n = file-name order, zip) are independent.      *)
(*                                                                         *)
(* The reader presents one page per step (action ReadNext).                *)
(*   OrderBy = "declared" : walk the declared list, resolve each reference *)
(*   OrderBy = "filename" : take every member that looks like a part, in   *)
(*                          the order of the number in its file name (what *)
(*                          a reader that never consults the list does)    *)
(*   OrderBy = "zip"      : take them in archive order                     *)
(*   OrderBy = "convention": declared list, but an unreadable reference   *)
(*                          falls back to the conventional file name      *)
(*   Decode  = "path"     : as the standard says: EPUB hrefs are percent-   *)
(*                          decoded once ('+' is a plus); OPC Targets are  *)
(*                          not decoded (part name = ZIP item name)        *)
(*   Decode  = "query"    : form decoding ('+' becomes a space)            *)
(*   Decode  = "twice"    : percent-decoding applied twice                 *)
(* TLC proves the properties for declared/path and must refute the others. *)
(***************************************************************************)
EXTENDS Integers, Sequences, FiniteSets, TLC, SequencesExt

CONSTANTS OrderBy, Decode,
          Chain,         \* "first": the first package-document rootfile of META-INF/container.xml is the
                         \* publication (OCF: the default rendition); "last": the last one wins (refutable)
          Packages       \* the packages explored (bounded configs)

VARIABLES pkg,      \* [fmt, base, parts]  base = directory of the declaring document
          pages,    \* ids of the pages presented so far
          pos       \* candidates examined so far

vars == <<pkg, pages, pos>>

\* ------------------------- names and references -------------------------
RECURSIVE Norm(_, _)
Norm(acc, rest) ==
    IF rest = <<>> THEN acc
    ELSE IF Head(rest) = ".." THEN Norm(IF acc = <<>> THEN acc ELSE SubSeq(acc, 1, Len(acc) - 1), Tail(rest))
    ELSE IF Head(rest) = "."  THEN Norm(acc, Tail(rest))
    ELSE Norm(Append(acc, Head(rest)), Tail(rest))

\* ---- part NAMES and their spelling in a reference ----
\* A member name carries one "special" piece sp; the reference spells it as enc:
\*   sp      text in the member name        enc      text in the href / Target
\*   none    (nothing)                      none     (nothing)
\*   space   " "                            sp20     %20
\*   plus    +                              plusLit  +          plus2B   %2B
\*   pct20   %20  (a percent sign and 20)   pct2520  %2520
\*   pctz    %z   (a lone percent sign)     pct25z   %25z
\*   eacute  e-acute (U+00E9)               eC3A9    %C3%A9     eRaw     the character itself (IRI)
\*   paren   (x)                            paren    (x)
\*   amp     &                              amp      &   (written &amp; inside the XML attribute)
\*   pct2B %2B, pctC3A9 %C3%A9, pct2520 %2520, pct25z %25z : names that literally contain that text
\*
\* How a reference denotes a member name:
\*   "path"  EPUB (OCF 4.2 / URL standard): the href is a URL path, percent-decoded ONCE; '+' is a plus
\*   "opc"   OOXML (ECMA-376 Part 2, 8.2 / 10.2): part names ARE the percent-encoded form and the ZIP
\*           item name is the part name; nothing is decoded, Target text = member name text
\*   "query" form decoding: like "path" but '+' becomes a space            (refutable variant)
\*   "twice" percent-decoding applied two times                            (refutable variant)
PathDecode(enc) ==
    CASE enc = "none" -> "none"   [] enc = "sp20" -> "space"  [] enc = "plusLit" -> "plus" [] enc = "plus2B" -> "plus"
      [] enc = "pct2520" -> "pct20" [] enc = "pct25z" -> "pctz" [] enc = "eC3A9" -> "eacute" [] enc = "eRaw" -> "eacute"
      [] enc = "paren" -> "paren"  [] enc = "amp" -> "amp"
\* percent-decoding a member-name text once more (what a second decoding pass sees)
ReDecode(sp) ==
    CASE sp = "pct20" -> "space" [] sp = "pct2B" -> "plus" [] sp = "pctC3A9" -> "eacute"
      [] sp = "pct2520" -> "pct20" [] sp = "pct25z" -> "pctz" [] OTHER -> sp      \* "%z" is no escape: kept
\* the reference text taken literally as a name
Literal(enc) ==
    CASE enc = "none" -> "none"   [] enc = "sp20" -> "pct20"  [] enc = "plusLit" -> "plus" [] enc = "plus2B" -> "pct2B"
      [] enc = "pct2520" -> "pct2520" [] enc = "pct25z" -> "pct25z" [] enc = "eC3A9" -> "pctC3A9" [] enc = "eRaw" -> "eacute"
      [] enc = "paren" -> "paren"  [] enc = "amp" -> "amp"

DecodeWith(mode, enc) ==
    CASE mode = "path"  -> PathDecode(enc)
      [] mode = "opc"   -> Literal(enc)
      [] mode = "query" -> IF enc = "plusLit" THEN "space" ELSE PathDecode(enc)
      [] mode = "twice" -> ReDecode(PathDecode(enc))

StdMode(fmt) == IF fmt = "epub" THEN "path" ELSE "opc"
\* Decode = "path" stands for "what the governing standard says"; other values force a variant
EffMode(fmt) == IF Decode = "path" THEN StdMode(fmt) ELSE Decode

\* the member a reference denotes when read from a document in directory base
ResolveWith(mode, base, href) ==
    [dir  |-> Norm(<<>>, IF href.abs THEN href.segs ELSE base \o href.segs),
     stem |-> href.stem, sp |-> DecodeWith(mode, href.enc), n |-> href.n, ext |-> href.ext]

\* the attachment token of a part (0: none)
Attach(x) == IF x.notes THEN x.id + 200 ELSE 0
PartSet(p)  == {p.parts[i] : i \in 1..Len(p.parts)}
Declared(p) == {x \in PartSet(p) : x.decl > 0}
NDecl(p)    == Cardinality(Declared(p))

\* what the package declares and a reader can read: ids by declared position
Expected(p) ==
    LET s == SetToSortSeq({x \in Declared(p) : x.present}, LAMBDA a, b : a.decl < b.decl)
    IN [i \in 1..Len(s) |-> s[i].id]

\* a package as generated: distinct member names, the declared positions are 1..n, every
\* declared reference denotes (URL path semantics) the part's member name - which is
\* in the archive unless the part is marked absent
WellFormed(p) ==
    /\ \A x, y \in PartSet(p) : (x.name = y.name \/ x.id = y.id) => x = y
    /\ \A x, y \in PartSet(p) : (x # y) => x.zip # y.zip
    /\ {x.decl : x \in Declared(p)} = 1..NDecl(p)
    /\ \A x, y \in Declared(p) : (x.decl = y.decl) => x = y
    /\ \A x \in Declared(p) : ResolveWith(StdMode(p.fmt), p.base, x.href) = x.name
    \* the declaration chain: the authoritative root is the first package document listed
    /\ \E i \in 1..Len(p.roots) :
          (p.roots[i].auth /\ p.roots[i].media = "opf"
            /\ (\A j \in 1..Len(p.roots) : (j # i) => ~p.roots[j].auth)
            /\ (\A h \in 1..(i - 1) : p.roots[h].media # "opf"))
    /\ \A i \in 1..Len(p.roots) : \A k \in 1..Len(p.roots[i].spine) :
          \E x \in PartSet(p) : x.id = p.roots[i].spine[k]

\* ------------------------------ the reader ------------------------------
\* the root the reader follows
OpfRoots(p) == {i \in 1..Len(p.roots) : p.roots[i].media = "opf"}
ChosenRoot(p) ==
    IF Chain = "first" THEN CHOOSE i \in OpfRoots(p) : \A j \in OpfRoots(p) : i <= j
    ELSE CHOOSE i \in OpfRoots(p) : \A j \in OpfRoots(p) : i >= j
PartById(p, id) == CHOOSE x \in PartSet(p) : x.id = id
FollowsAuth(p) == p.roots[ChosenRoot(p)].auth

Candidates(p) ==
    CASE OrderBy = "declared" /\ FollowsAuth(p) -> SetToSortSeq(Declared(p), LAMBDA a, b : a.decl < b.decl)
      [] OrderBy = "declared" /\ ~FollowsAuth(p) ->
            [k \in 1..Len(p.roots[ChosenRoot(p)].spine) |-> PartById(p, p.roots[ChosenRoot(p)].spine[k])]
      [] OrderBy = "filename" -> SetToSortSeq({x \in PartSet(p) : x.present}, LAMBDA a, b : a.name.n < b.name.n)
      [] OrderBy = "zip"      -> SetToSortSeq({x \in PartSet(p) : x.present}, LAMBDA a, b : a.zip < b.zip)
      \* "convention": walk the declared list, but when a reference denotes no member take the
      \* member called <conventional dir>/<conventional stem><declared position> instead
      [] OrderBy = "convention" -> SetToSortSeq(Declared(p), LAMBDA a, b : a.decl < b.decl)

\* the member the reader opens for candidate x (empty: not readable)
Opened(p, x) ==
    LET byRef == {y \in PartSet(p) : y.present /\ y.name = ResolveWith(EffMode(p.fmt), p.base, x.href)} IN
    CASE OrderBy = "declared" /\ FollowsAuth(p) -> byRef
      [] OrderBy = "declared" /\ ~FollowsAuth(p) -> {y \in {x} : y.present}   \* the other package's own references
      [] OrderBy = "convention" ->
            IF byRef # {} THEN byRef
            ELSE {y \in PartSet(p) : y.present /\ y.name.dir = p.convdir /\ y.name.stem = p.convstem
                                       /\ y.name.sp = "none" /\ y.name.n = x.decl}
      [] OTHER -> {x}

Init ==
    /\ pkg \in Packages
    /\ pages = <<>> /\ pos = 0

\* index of the next readable candidate after position i (0: none)
RECURSIVE NextReadable(_, _)
NextReadable(p, i) ==
    IF i >= Len(Candidates(p)) THEN 0
    ELSE IF Opened(p, Candidates(p)[i + 1]) # {} THEN i + 1
    ELSE NextReadable(p, i + 1)

\* one page per step: the next candidate that can be read; unreadable ones are passed over
ReadNext ==
    /\ NextReadable(pkg, pos) > 0
    /\ LET j == NextReadable(pkg, pos)
           m == Opened(pkg, Candidates(pkg)[j])
       IN /\ pages' = Append(pages, (CHOOSE y \in m : TRUE).id)
          /\ pos' = j
    /\ UNCHANGED pkg

Next == ReadNext
Spec == Init /\ [][Next]_vars

Done == NextReadable(pkg, pos) = 0

\* ------------------------------ properties ------------------------------
TypeOK == pos \in 0..Len(pkg.parts) /\ Len(pages) <= pos

ValidPackage == WellFormed(pkg)

\* at every step the pages so far are a prefix of what the package declares
DeclaredPrefix ==
    /\ Len(pages) <= Len(Expected(pkg))
    /\ \A i \in 1..Len(pages) : pages[i] = Expected(pkg)[i]

\* in the end: exactly the declared parts, in declared order - so the page count
\* is the number of declared readable parts, every part has its own page, no
\* part is shown twice, no undeclared part is shown at all, and a declared part whose
\* member is absent is neither counted nor replaced by anything
DeclaredOrder == Done => pages = Expected(pkg)

OwnPage == \A i, j \in 1..Len(pages) : (pages[i] = pages[j]) => i = j

=============================================================================
