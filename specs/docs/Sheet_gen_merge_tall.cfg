SPECIFICATION Spec
CONSTANTS
  Codec = "bijective"
  Place = "byref"
  Window = 3
  WindowRows = 4
  MergeMode = "all"
  Ordered = TRUE
  Offsets <- Off00
  Rects <- WindowRects
  MaxCells = 5
  MaxMerges = 1
  MaxSheets = 1
  KindSeq <- KindsAll
  Rots = {1}
  Layouts <- LayStd
INVARIANTS TypeOK PlacedByRef FunctionLike MergeBlank RootShown
CONSTRAINT Emit
CHECK_DEADLOCK FALSE
