--------------------------- MODULE MdHistoryTrace ---------------------------
(* Trace validation for MdHistory: "Open" starts a segment (one Reader opened *)
(* on a generated document), every "Call" is one public call on that Reader   *)
(* with the heading level read back for every element position (0: not a      *)
(* heading, -1: the heading was not found in the output).  The spec's Reader  *)
(* is the pure one: a call is accepted only if the visible headings come out  *)
(* at the levels a fresh Reader would give.                                   *)
EXTENDS MdHistory, Json, TLC

Trace == ndJsonDeserialize("trace.ndjson")

VARIABLE l
tvars == <<hvars, l>>

TraceInit == /\ l = 1 /\ doc = <<>> /\ hist = <<>>
             /\ cache = [m \in Modes |-> [parsed |-> FALSE, levels |-> <<>>]]

Ev == Trace[l]

TraceOpen ==
    /\ l <= Len(Trace) /\ Ev.event = "Open" /\ l' = l + 1
    /\ doc' = Ev.els
    /\ cache' = [m \in Modes |-> [parsed |-> m = "none", levels |-> SrcLevels(Ev.els)]]
    /\ hist' = <<>>

TraceCall ==
    /\ l <= Len(Trace) /\ Ev.event = "Call" /\ l' = l + 1
    /\ "err" \notin DOMAIN Ev
    /\ LET c == [op |-> Ev.op, nav |-> Ev.nav, off |-> Ev.off, mx |-> Ev.mx, meta |-> Ev.meta, toc |-> Ev.toc] IN
         /\ c.nav \in Modes
         /\ DoCall(c)
         /\ c.op # "text" =>
              \A n \in 1..Len(doc) :
                 (doc[n].t = "heading" /\ Visible(doc[n], c.nav)) => Ev.levels[n] = hist'[Len(hist')].levels[n]

TraceNext == TraceOpen \/ TraceCall

TraceSpec == TraceInit /\ [][TraceNext]_tvars

TraceAccepted == TLCGet("stats").diameter - 1 = Len(Trace)
=============================================================================
