SPECIFICATION HSpec
CONSTANTS
  OrderBy = "declared"
  Chain = "first"
  Decode = "path"
  Packages = {}
  K = 3
  Fmts = {}
  Wide = "some"
  HPackages <- HPkgs
  Calls <- HCalls
  MaxLen = 3
  Cache = "pure"
INVARIANTS HTypeOK Purity HeldFaithful
CONSTRAINT EmitHist
CHECK_DEADLOCK FALSE
