SPECIFICATION Spec
CONSTANTS
  Cases <- SeqCases
  Expand <- McExpand
  Esc = "escape"
  Header = "first"
  Merge = "grid"
  Sep = "once"
  Dedup = "none"
  Width = "widest"
  MaxSpecial = 1
  FullCells = 0
  MaxRepeat = 2
INVARIANTS RoundTrip
CHECK_DEADLOCK FALSE
