SPECIFICATION Spec
CONSTANTS
  Cases <- SeqCases
  Expand <- McExpand
  Esc = "escape"
  Header = "first"
  Merge = "grid"
  Sep = "once"
  MaxSpecial = 1
  FullCells = 0
INVARIANTS RoundTrip
CHECK_DEADLOCK FALSE
