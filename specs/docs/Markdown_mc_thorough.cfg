SPECIFICATION Spec
CONSTANTS
  Cases <- AllCases
  Expand <- McExpand
  Esc = "escape"
  Header = "first"
  Merge = "grid"
  MaxSpecial = 2
  FullCells = 6
INVARIANTS TypeOK RoundTrip HeadingLevelOK
PROPERTIES PrefixStable Terminates
CONSTRAINT EmitCase
CHECK_DEADLOCK FALSE
