SPECIFICATION Spec
CONSTANTS
  Cases <- AllCases
  Expand <- McExpand
  Esc = "escape"
  Header = "first"
  Merge = "grid"
  Sep = "each"
  Dedup = "none"
  Width = "widest"
  MaxSpecial = 2
  FullCells = 4
  MaxRepeat = 4
INVARIANTS TypeOK RoundTrip HeadingLevelOK
PROPERTIES PrefixStable Terminates
CONSTRAINT EmitCase
CHECK_DEADLOCK FALSE
