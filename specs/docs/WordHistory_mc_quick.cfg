SPECIFICATION HSpec
CONSTANTS
  Docs <- HDocs
  Calls <- HCallsQ
  MaxLen = 3
  Cache = "pure"
INVARIANTS HTypeOK Purity HeldFaithful
CONSTRAINT EmitHist
CHECK_DEADLOCK FALSE
