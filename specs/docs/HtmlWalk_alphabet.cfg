INIT AlphaInit
NEXT AlphaNext
CONSTANTS
  Opens = {}
  Forms = {"plain"}
  Alpha = "full"
  MaxLen = 0
  MaxDepth = 0
  Lax = FALSE
CHECK_DEADLOCK FALSE
