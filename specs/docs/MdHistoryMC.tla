----------------------------- MODULE MdHistoryMC -----------------------------
(* Bounded instances of MdHistory: two documents (headings of several levels, *)
(* one inside <nav>, a nested list, a table with special cells), a call       *)
(* alphabet over the heading options and navigation modes, every history up   *)
(* to MaxLen; emission of complete histories with the expectation per call.   *)
EXTENDS MdHistory, Json, TLC

CONSTANTS Wide     \* TRUE: the full option grid (offset -1..2 x max 1..6) as call alphabet

H(lv, w, nav) == [t |-> "heading", level |-> lv, w |-> w, nav |-> nav]
P(w) == [t |-> "para", w |-> w, nav |-> FALSE]
HTable == [nr |-> 2, nc |-> 3, off |-> 0, hm |-> "lead2", hdr |-> TRUE,
           kind |-> <<<<"plain", "pipe", "plain">>, <<"empty", "nl", "padded">>>>, m |-> NoMerge]
HList == <<[d |-> 0, k |-> "u", w |-> "i1"], [d |-> 1, k |-> "o", w |-> "i2"], [d |-> 0, k |-> "u", w |-> "i3"]>>

DocA == <<H(1, "hA", FALSE), P("pA"), H(2, "hN", TRUE), H(3, "hB", FALSE),
          [t |-> "list", items |-> HList, nav |-> FALSE], [t |-> "table", tb |-> HTable, nav |-> FALSE],
          H(6, "hC", FALSE), P("pB")>>
DocB == <<H(4, "hA", FALSE), P("pA"), H(5, "hB", FALSE), H(2, "hC", FALSE)>>
McDocs == {DocA, DocB}

C(op, nav, off, mx, meta, toc) == [op |-> op, nav |-> nav, off |-> off, mx |-> mx, meta |-> meta, toc |-> toc]
Plain == {C("md", "none", 0, 6, FALSE, FALSE), C("md", "standard", 0, 6, FALSE, FALSE), C("text", "none", 0, 6, FALSE, FALSE),
          C("doc", "none", 0, 6, FALSE, FALSE), C("doc", "standard", 0, 6, FALSE, FALSE)}
RagQ == {C("rag", "none", -1, 6, FALSE, FALSE), C("rag", "none", 1, 6, FALSE, TRUE), C("rag", "none", 2, 6, TRUE, FALSE),
         C("rag", "none", 0, 2, FALSE, FALSE), C("rag", "none", 0, 1, FALSE, FALSE), C("rag", "none", 1, 3, FALSE, FALSE),
         C("rag", "standard", 1, 6, FALSE, FALSE), C("rag", "explicit", 0, 1, FALSE, FALSE)}
RagW == {C("rag", nav, off, mx, FALSE, FALSE) : nav \in {"none", "standard"}, off \in -1..2, mx \in 1..6}
McCalls == Plain \cup (IF Wide THEN RagW ELSE RagQ)

\* ---------------------------------------------------------------- emission
ElOut(el) ==
    CASE el.t = "table"   -> [t |-> "table", nr |-> el.tb.nr, nc |-> el.tb.nc, off |-> el.tb.off, hdr |-> el.tb.hdr, hm |-> el.tb.hm,
                              hrows |-> SetToSortSeq(HdrRowsOf(el.tb.hm, el.tb.nr), <), merged |-> HasMerge(el.tb), ragged |-> IsRagged(el.tb),
                              src |-> Src(el.tb), special |-> Special(el.tb), nav |-> el.nav]
      [] el.t = "heading" -> [t |-> "heading", level |-> el.level, w |-> el.w, nav |-> el.nav]
      [] el.t = "list"    -> [t |-> "list", items |-> el.items, uniform |-> Uniform(el.items), nav |-> el.nav]
      [] el.t = "para"    -> [t |-> "para", w |-> el.w, nav |-> el.nav]

VisIdx(d, c) == SelectSeq([n \in 1..Len(d) |-> n], LAMBDA n : Visible(d[n], c.nav))

EmitHist == (Len(hist) = MaxLen) => PrintT(ToJson(
    [kind |-> "history",
     els |-> [n \in 1..Len(doc) |-> ElOut(doc[n])],
     calls |-> [n \in 1..Len(hist) |->
                  [op |-> hist[n].call.op, nav |-> hist[n].call.nav, off |-> EffOff(hist[n].call), mx |-> EffMx(hist[n].call),
                   meta |-> hist[n].call.meta, toc |-> hist[n].call.toc,
                   vis |-> VisIdx(doc, hist[n].call), exp |-> ExpectedFor(doc, hist[n].call)]]]))
=============================================================================
