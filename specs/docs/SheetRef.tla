------------------------------ MODULE SheetRef ------------------------------
(***************************************************************************)
(* A1 cell-reference codec (ECMA-376 Part 1, 18.18.7 ST_CellRef, 18.18.62  *)
(* ST_Ref).  Column names are bijective base-26 numerals over the letters  *)
(* A..Z: there is no zero digit, A = 1, Z = 26, AA = 27, ZZ = 702,         *)
(* XFD = 16384.  Letters are modelled as 1..26, decimal digits as 0..9;    *)
(* the harness renders 1 -> 'A' and 0 -> '0'.                              *)
(*                                                                         *)
(* Columns and rows are 1-based here (as in A1 notation).  The Go API is   *)
(* 0-based; the harness subtracts 1 when it projects.                      *)
(*                                                                         *)
(* Codec = "bijective"  : the ECMA-376 codec.                              *)
(* Codec = "positional" : ordinary base 26 with A as the zero digit - the  *)
(*                        textbook mistake (AA collides with A); kept as   *)
(*                        the variant TLC must refute.                     *)
(***************************************************************************)
EXTENDS Integers, Sequences, FiniteSets, TLC

CONSTANT Codec

Letters == 1..26

\* all column names of exactly n letters / of at most n letters
ColsOfLen(n) == [1..n -> Letters]
ColsUpTo(n)  == UNION {ColsOfLen(k) : k \in 1..n}

\* number of column names with at most n letters: 26 + 26^2 + ...
RECURSIVE CountUpTo(_)
CountUpTo(n) == IF n = 0 THEN 0 ELSE 26 * (CountUpTo(n - 1) + 1)

\* ---- index -> letters -------------------------------------------------
RECURSIVE BijDigits(_)
BijDigits(n) == IF n <= 0 THEN <<>>
                ELSE BijDigits((n - 1) \div 26) \o << ((n - 1) % 26) + 1 >>

RECURSIVE PosDigits(_)
PosDigits(n) == IF n < 26 THEN << n + 1 >>
                ELSE PosDigits(n \div 26) \o << (n % 26) + 1 >>

Idx2Col(n) == IF Codec = "bijective" THEN BijDigits(n) ELSE PosDigits(n - 1)

\* ---- letters -> index -------------------------------------------------
RECURSIVE BijValue(_)
BijValue(s) == IF s = <<>> THEN 0
               ELSE 26 * BijValue(SubSeq(s, 1, Len(s) - 1)) + s[Len(s)]

RECURSIVE PosValue(_)
PosValue(s) == IF s = <<>> THEN 0
               ELSE 26 * PosValue(SubSeq(s, 1, Len(s) - 1)) + (s[Len(s)] - 1)

Col2Idx(s) == IF Codec = "bijective" THEN BijValue(s) ELSE PosValue(s) + 1

\* ---- rows: plain decimal without leading zeros -----------------------
RECURSIVE DecDigits(_)
DecDigits(n) == IF n < 10 THEN << n >> ELSE DecDigits(n \div 10) \o << n % 10 >>

RECURSIVE DecValue(_)
DecValue(s) == IF s = <<>> THEN 0
               ELSE 10 * DecValue(SubSeq(s, 1, Len(s) - 1)) + s[Len(s)]

\* ---- references -------------------------------------------------------
\* Ref(col,row) is the A1 string as a pair (letters, digits).
Ref(col, row) == [col |-> Idx2Col(col), row |-> DecDigits(row)]

\* the inverse direction: what an A1 string denotes
Deref(ref) == [c |-> Col2Idx(ref.col), r |-> DecValue(ref.row)]

\* a range "A1:B2" is two references; it denotes the rectangle spanned
RangeRef(c1, r1, c2, r2) == [from |-> Ref(c1, r1), to |-> Ref(c2, r2)]

=============================================================================
