SPECIFICATION Spec
CONSTANTS
  Codec = "bijective"
  Place = "sequential"
  Window = 3
  WindowRows = 3
  MergeMode = "all"
  Ordered = FALSE
  Offsets <- Off00
  Rects = {}
  MaxCells = 2
  MaxMerges = 0
  MaxSheets = 1
  KindSeq <- KindsAll
  Rots = {0}
  Layouts <- LayStd
INVARIANTS TypeOK PlacedByRef
CHECK_DEADLOCK FALSE
