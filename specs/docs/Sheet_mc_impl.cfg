SPECIFICATION Spec
CONSTANTS
  Codec = "bijective"
  Place = "sequential"
  Window = 3
  Offsets <- Off00
  Rects = {}
  MaxCells = 2
  MaxMerges = 0
  MaxSheets = 1
  Rots = {0}
  Layouts <- LayStd
INVARIANTS TypeOK PlacedByRef
CHECK_DEADLOCK FALSE
