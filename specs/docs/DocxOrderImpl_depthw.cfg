SPECIFICATION ImplSpec
CONSTANTS
  Docs <- ImplDocsW
  Matcher = "depth"
  MaxB = 4
INVARIANTS ImplSane ImplOrder
CHECK_DEADLOCK FALSE
