SPECIFICATION Spec
CONSTANTS
  Cases <- ImplCases
  Expand <- McExpand
  Esc = "escape"
  Header = "first"
  Merge = "skip"
  Sep = "each"
  Dedup = "none"
  Width = "widest"
  MaxSpecial = 1
  FullCells = 0
  MaxRepeat = 2
INVARIANTS RoundTrip
CHECK_DEADLOCK FALSE
