SPECIFICATION TraceSpec
CONSTANTS
  OrderBy = "declared"
  Chain = "first"
  Decode = "path"
  Packages = {}
INVARIANTS DeclaredPrefix OwnPage
POSTCONDITION TraceAccepted
CHECK_DEADLOCK FALSE
