SPECIFICATION TraceSpec
CONSTANTS
  OrderBy = "declared"
  Decode = "path"
  Packages = {}
INVARIANTS DeclaredPrefix OwnPage
POSTCONDITION TraceAccepted
CHECK_DEADLOCK FALSE
