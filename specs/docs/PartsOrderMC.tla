---------------------------- MODULE PartsOrderMC ----------------------------
(* Bounded instances of PartsOrder: construction of XLSX / PPTX / EPUB         *)
(* packages from K parts, three independent permutations (declared order,      *)
(* relationship / manifest listing order, archive order; the file-name order   *)
(* is the part number itself) and a layout profile; case emission.             *)
EXTENDS PartsOrder, Json

CONSTANTS K,         \* number of declared parts
          Fmts,      \* subset of {"xlsx", "pptx", "epub"}
          Wide       \* "some": the hand-picked profiles; "wide": the full product (simulation);
                     \* "neg": a handful that suffices to refute the implementation-shaped readers

Perms == {p \in [1..K -> 1..K] : \A i, j \in 1..K : (p[i] = p[j]) => i = j}
\* listing orders explored exhaustively: all for K <= 3, half of them (the part numbered K listed
\* first or last) beyond, to keep the thorough product replayable
ListPerms == IF K <= 3 THEN Perms ELSE {p \in Perms : p[1] = K \/ p[K] = K}
PosIn(p, x) == CHOOSE i \in 1..K : p[i] = x

\* ------------------------------- profiles -------------------------------
\* paths  : "std" usual names | "nested" deeper directory | "renamed" other directory and stem
\*          (EPUB: chapters beside the package file | in text/part/ | in ../text/)
\* tgt    : OOXML relationship Target "rel"ative to the source part or "abs"olute (/xl/..)
\* decoy  : an undeclared member that looks like a part, numbered before ("first") or
\*          after ("last") the real ones
\* extras : optional parts present (docProps, styles, theme, notes / NCX in EPUB 3, guide)
\* infra  : TRUE: the infrastructure members precede the parts in the archive
\* enc    : EPUB: special character in chapter file names and its spelling in the href
\* opf    : EPUB: package document in the root, in OEBPS/, in OPS/pkg/
\* ver    : EPUB 2 (NCX) or 3 (nav document)
\* extra  : EPUB: a manifest item that is not in the spine
\* missing: 0, or the DECLARED POSITION whose part is absent from the archive (declared but
\*          not readable: no page, not counted, nothing shown in its place)
\* enc    : how the special piece of the part names is spelled in the reference (see PartsOrder:
\*          names with a space, '+', "%20", a lone '%', e-acute, parentheses, '&'); OOXML too
\* alias  : per declared part an undeclared decoy member whose name is what a WRONG reading of the
\*          reference denotes: "decoded" = the name percent-decoded once more, "undecoded" = the
\*          reference text taken literally, "query" = '+' read as a space (only where that name differs)
\* chain  : the declaration chain.  EPUB container.xml: "one" rootfile; "altRev": a second package document
\*          (same directory) listed AFTER the default one, with the spine reversed; "altSub": a second package
\*          document in the container root listed after, declaring another part set (a part only it knows first,
\*          then the parts the default declares at positions >= 2); "otherFirst": a rootfile of another media type
\*          (OCF 2: another format of the book) listed BEFORE the package document; "three": other, default,
\*          altRev, altSub.  OOXML: "infraFirst": the officeDocument relationship is the last one of /_rels/.rels and
\*          workbook.xml.rels / presentation.xml.rels list styles, theme, masters ... before the sheets / slides
\* paths "dot": references with a "./" segment
\* decoy "conv": an undeclared member with the CONVENTIONAL name (xl/worksheets/sheet<k>.xml,
\*          ppt/slides/slide<k>.xml) numbered by the missing position, in packages whose real
\*          parts live elsewhere
\* notes  : PPTX: which slides have a notes slide: "none", "all", "odd" / "even" (by part number)
\* conf   : OOXML conformance class of the package, consistently: "transitional" (schemas.openxmlformats.org) or
\*          "strict" (ISO/IEC 29500 Strict: purl.oclc.org namespaces for the main document, DrawingML and r:, and
\*          purl.oclc.org relationship Types for worksheet / slide / officeDocument / styles / theme ...)
\* chain "infraMixed": the other relationships (styles, theme, sharedStrings, slideMaster ...) are interleaved with
\*          the worksheet / slide relationships, officeDocument sits in the middle of /_rels/.rels
\* xml    : the SPELLING of the declarations (workbook.xml / presentation.xml / container.xml / OPF and the
\*          relationship parts) - it never changes what is declared:
\*          rev attributes in reverse order; prefix bound to the relationships namespace; single quotes; foreign: an
\*          extra attribute with local name "id" from an ignorable namespace (EPUB: the itemref's own id), written
\*          after the real ones; oc: <x></x> instead of <x/>; gaps: line breaks and comments between entries;
\*          decl: XML declaration "std", "none", or "bom" (byte order mark)
XmlProf(rev, prefix, single, foreign, oc, gaps, decl) ==
    [rev |-> rev, prefix |-> prefix, single |-> single, foreign |-> foreign, oc |-> oc, gaps |-> gaps, decl |-> decl]
XStd == XmlProf(FALSE, "r", FALSE, FALSE, FALSE, FALSE, "std")
XmlSome == { XmlProf(TRUE, "r", FALSE, FALSE, FALSE, FALSE, "std"),        \* r:id BEFORE id / name; Target, Type, Id
             XmlProf(FALSE, "rel", TRUE, FALSE, TRUE, FALSE, "none"),      \* other prefix, single quotes, open-close, no declaration
             XmlProf(FALSE, "r", FALSE, TRUE, FALSE, TRUE, "bom"),         \* foreign id LAST, comments between entries, BOM
             XmlProf(TRUE, "ns1", TRUE, TRUE, TRUE, TRUE, "std") }          \* everything, foreign id FIRST
OProf(pa, tg, de, ex, inf) == [paths |-> pa, tgt |-> tg, decoy |-> de, extras |-> ex, infra |-> inf,
                               enc |-> "none", opf |-> "root", ver |-> 0, extra |-> FALSE, missing |-> 0, alias |-> "none", chain |-> "one", xml |-> XStd, conf |-> "transitional", notes |-> "none"]
EProf(pa, en, op, ve, de, xt, ex, inf) == [paths |-> pa, tgt |-> "rel", decoy |-> de, extras |-> ex, infra |-> inf,
                               enc |-> en, opf |-> op, ver |-> ve, extra |-> xt, missing |-> 0, alias |-> "none", chain |-> "one", xml |-> XStd, conf |-> "transitional", notes |-> "none"]
Miss(pr, m) == [pr EXCEPT !.missing = m]
Enc(pr, e)  == [pr EXCEPT !.enc = e]
Alias(pr, a) == [pr EXCEPT !.alias = a]
ChainOf(pr, c) == [pr EXCEPT !.chain = c]
Xml(pr, x) == [pr EXCEPT !.xml = x]
Conf(pr, c) == [pr EXCEPT !.conf = c]
Notes(pr, n) == [pr EXCEPT !.notes = n]

OProfiles == { OProf("std", "rel", "none", TRUE, TRUE),      OProf("std", "abs", "last", FALSE, FALSE),
               OProf("nested", "rel", "first", FALSE, TRUE), OProf("renamed", "rel", "none", TRUE, FALSE),
               OProf("renamed", "abs", "last", FALSE, TRUE), OProf("nested", "abs", "none", TRUE, FALSE),
               \* one declared part absent
               Miss(OProf("std", "rel", "none", TRUE, TRUE), 1),     Miss(OProf("std", "abs", "last", FALSE, FALSE), 2),
               Miss(OProf("std", "rel", "first", FALSE, TRUE), 3),   Miss(OProf("renamed", "rel", "conv", TRUE, FALSE), 2),
               Miss(OProf("nested", "abs", "conv", FALSE, TRUE), 1), Miss(OProf("renamed", "abs", "none", FALSE, TRUE), 3),
               \* part names that need care
               Alias(Enc(OProf("std", "rel", "none", FALSE, TRUE), "sp20"), "decoded"),
               Alias(Enc(OProf("renamed", "abs", "none", TRUE, FALSE), "eC3A9"), "decoded"),
               Alias(Enc(OProf("nested", "rel", "last", FALSE, FALSE), "plusLit"), "query"),
               Enc(OProf("std", "abs", "none", FALSE, TRUE), "paren"), Enc(OProf("dot", "rel", "first", TRUE, FALSE), "amp"),
               Alias(Enc(OProf("dot", "abs", "none", FALSE, TRUE), "pct2520"), "decoded"), OProf("dot", "rel", "none", FALSE, FALSE),
               \* the declaration chain
               ChainOf(OProf("std", "rel", "last", TRUE, TRUE), "infraFirst"), ChainOf(OProf("renamed", "abs", "none", TRUE, FALSE), "infraFirst") }
             \* the spelling of the declarations (a decoy with a conventional name shows a reader that falls back to discovery)
             \cup { Xml(OProf("std", "rel", "last", FALSE, TRUE), x) : x \in XmlSome }
             \* conformance class and relationship neighbourhood
             \cup { Conf(OProf("std", "rel", "last", TRUE, TRUE), "strict"),
                    Conf(ChainOf(Miss(OProf("renamed", "rel", "conv", TRUE, FALSE), 2), "infraMixed"), "strict"),
                    Conf(Xml(ChainOf(OProf("nested", "abs", "first", TRUE, FALSE), "infraFirst"), XmlProf(TRUE, "ns1", TRUE, TRUE, TRUE, TRUE, "std")), "strict"),
                    ChainOf(OProf("std", "rel", "last", TRUE, FALSE), "infraMixed") }
             \* per-part attachments (PPTX notes slides), also next to an unreadable slide
             \cup { Notes(OProf("std", "rel", "none", TRUE, TRUE), "all"), Notes(Miss(OProf("std", "rel", "last", FALSE, TRUE), 1), "all"),
                    Notes(Miss(OProf("nested", "rel", "none", TRUE, FALSE), 2), "odd"), Notes(Miss(OProf("renamed", "abs", "first", FALSE, TRUE), 1), "even"),
                    Notes(Conf(OProf("dot", "rel", "none", FALSE, TRUE), "strict"), "even") }
EProfiles == { EProf("std", "none", "one", 3, "none", FALSE, TRUE, TRUE),
               EProf("std", "sp20", "root", 2, "last", TRUE, FALSE, FALSE),
               EProf("nested", "plusLit", "one", 3, "none", FALSE, FALSE, TRUE),
               EProf("renamed", "plus2B", "two", 2, "first", FALSE, TRUE, FALSE),
               EProf("nested", "none", "two", 3, "last", TRUE, TRUE, FALSE),
               EProf("renamed", "plusLit", "one", 2, "none", TRUE, FALSE, TRUE),
               EProf("std", "plus2B", "root", 3, "first", FALSE, FALSE, FALSE),
               Miss(EProf("std", "none", "one", 3, "last", FALSE, TRUE, TRUE), 1),
               Miss(EProf("nested", "sp20", "two", 2, "none", TRUE, FALSE, FALSE), 2),
               Miss(EProf("renamed", "plus2B", "one", 3, "first", FALSE, FALSE, TRUE), 3),
               \* part names that need care
               Alias(EProf("std", "pct2520", "one", 3, "none", FALSE, FALSE, TRUE), "decoded"),
               EProf("nested", "pct2520", "two", 2, "last", TRUE, TRUE, FALSE),
               Alias(EProf("renamed", "pct2520", "one", 2, "none", FALSE, FALSE, FALSE), "undecoded"),
               Alias(EProf("std", "pct25z", "root", 3, "none", FALSE, TRUE, FALSE), "undecoded"),
               Alias(EProf("dot", "eC3A9", "one", 2, "first", FALSE, FALSE, TRUE), "undecoded"),
               EProf("nested", "eRaw", "two", 3, "none", TRUE, FALSE, FALSE),
               EProf("dot", "paren", "root", 3, "last", FALSE, TRUE, TRUE),
               EProf("renamed", "amp", "two", 2, "none", FALSE, TRUE, TRUE),
               Alias(EProf("std", "sp20", "one", 2, "none", FALSE, FALSE, FALSE), "undecoded"),
               Alias(EProf("nested", "plusLit", "root", 3, "none", FALSE, TRUE, TRUE), "query"),
               Alias(EProf("dot", "plus2B", "two", 3, "none", TRUE, FALSE, FALSE), "undecoded"),
               \* the declaration chain
               ChainOf(EProf("std", "none", "one", 3, "none", FALSE, TRUE, TRUE), "altRev"),
               ChainOf(EProf("nested", "sp20", "two", 2, "last", FALSE, FALSE, FALSE), "altSub"),
               ChainOf(EProf("std", "none", "root", 2, "none", TRUE, TRUE, FALSE), "otherFirst"),
               ChainOf(EProf("renamed", "plusLit", "one", 2, "first", FALSE, FALSE, TRUE), "three"),
               ChainOf(Miss(EProf("std", "none", "one", 3, "none", FALSE, FALSE, FALSE), 2), "altRev"),
               ChainOf(EProf("dot", "none", "two", 3, "none", FALSE, TRUE, TRUE), "three") }
             \cup { Xml(ChainOf(EProf("nested", "sp20", "one", IF x.rev THEN 2 ELSE 3, "last", TRUE, TRUE, FALSE), IF x.foreign THEN "altRev" ELSE "one"), x)
                     : x \in XmlSome }
\* (a parameter keeps TLC from evaluating the full product at startup of every run)
OWide(dummy) == { o \in { Alias(Enc(Miss(OProf(pa, tg, de, ex, inf), m), en), al) :
                                         pa \in {"std", "nested", "renamed", "dot"}, tg \in {"rel", "abs"},
                                         de \in {"none", "first", "last", "conv"}, ex \in BOOLEAN, inf \in BOOLEAN,
                                         m \in 0..K, en \in {"none", "sp20", "plusLit", "pct2520", "eC3A9", "paren", "amp"},
                                         al \in {"none", "decoded", "query"} } :
             (o.decoy = "conv") => (o.missing > 0 /\ o.paths \in {"nested", "renamed"}) }
EWide(dummy) == { e \in { Alias(Miss(EProf(pa, en, op, ve, de, xt, ex, inf), m), al) :
                     pa \in {"std", "nested", "renamed", "dot"}, al \in {"none", "decoded", "undecoded", "query"},
                     en \in {"none", "sp20", "plusLit", "plus2B", "pct2520", "pct25z", "eC3A9", "eRaw", "paren", "amp"},
                     op \in {"root", "one", "two"}, ve \in {2, 3}, de \in {"none", "first", "last"},
                     xt \in BOOLEAN, ex \in BOOLEAN, inf \in BOOLEAN, m \in 0..K } :
             ~(e.paths = "renamed" /\ e.opf = "root") }     \* ../text/ needs a parent directory
NegO == { OProf("std", "rel", "none", FALSE, TRUE), Conf(OProf("std", "rel", "last", TRUE, TRUE), "strict"), Miss(OProf("renamed", "rel", "conv", FALSE, TRUE), 2),
          Miss(OProf("std", "rel", "last", FALSE, TRUE), 1) }
NegE == { EProf("std", "plusLit", "one", 3, "none", FALSE, FALSE, TRUE),
          Alias(EProf("std", "pct2520", "one", 3, "none", FALSE, FALSE, TRUE), "decoded"),
          ChainOf(EProf("std", "none", "one", 3, "none", FALSE, FALSE, TRUE), "altRev") }
ProfilesOf(f) == IF f = "epub" THEN (CASE Wide = "wide" -> EWide(0) [] Wide = "neg" -> NegE [] OTHER -> EProfiles)
                 ELSE (CASE Wide = "wide" -> OWide(0) [] Wide = "neg" -> NegO [] OTHER -> OProfiles)

\* -------------------------- names and references --------------------------
OpfDir(pr) == CASE pr.opf = "root" -> <<>> [] pr.opf = "one" -> <<"OEBPS">> [] pr.opf = "two" -> <<"OPS", "pkg">>
BaseOf(f, pr) == CASE f = "xlsx" -> <<"xl">> [] f = "pptx" -> <<"ppt">> [] f = "epub" -> OpfDir(pr)

\* relative segments from the declaring document's directory to the parts
RelSegs(f, pr) ==
    CASE f = "xlsx" -> (CASE pr.paths = "std" -> <<"worksheets">> [] pr.paths = "nested" -> <<"worksheets", "sub">>
                          [] pr.paths = "renamed" -> <<"data">> [] pr.paths = "dot" -> <<".", "worksheets">>)
      [] f = "pptx" -> (CASE pr.paths = "std" -> <<"slides">> [] pr.paths = "nested" -> <<"slides", "deck">>
                          [] pr.paths = "renamed" -> <<"pages">> [] pr.paths = "dot" -> <<".", "slides">>)
      [] f = "epub" -> (CASE pr.paths = "std" -> <<>> [] pr.paths = "nested" -> <<"text", "part">>
                          [] pr.paths = "renamed" -> <<"..", "text">> [] pr.paths = "dot" -> <<".", "text">>)
StemOf(f, pr) ==
    CASE f = "xlsx" -> (IF pr.paths = "renamed" THEN "tab" ELSE "sheet")
      [] f = "pptx" -> (IF pr.paths = "renamed" THEN "page" ELSE "slide")
      [] f = "epub" -> (IF pr.paths = "renamed" THEN "sec" ELSE "ch")
ExtOf(f) == IF f = "epub" THEN "xhtml" ELSE "xml"

HrefOf(f, pr, n) ==
    [abs  |-> pr.tgt = "abs",
     segs |-> IF pr.tgt = "abs" THEN BaseOf(f, pr) \o RelSegs(f, pr) ELSE RelSegs(f, pr),
     stem |-> StemOf(f, pr), enc |-> pr.enc, n |-> n, ext |-> ExtOf(f)]

\* the member name is DEFINED as what the reference denotes under URL path rules
NameOf(f, pr, n) == ResolveWith(StdMode(f), BaseOf(f, pr), HrefOf(f, pr, n))

\* the name a wrong reading of the reference would look for
AliasSp(f, pr) ==
    LET real == DecodeWith(StdMode(f), pr.enc) IN
    CASE pr.alias = "decoded"   -> ReDecode(real)
      [] pr.alias = "undecoded" -> Literal(pr.enc)
      [] pr.alias = "query"     -> (IF real = "plus" THEN "space" ELSE real)
      [] OTHER -> real

Part(f, pr, id, n, decl, rel, zip) ==
    [id |-> id, name |-> NameOf(f, pr, n), href |-> HrefOf(f, pr, n), decl |-> decl, rel |-> rel, zip |-> zip,
     present |-> ~(decl > 0 /\ decl = pr.missing),
     notes |-> f = "pptx" /\ decl > 0 /\ (CASE pr.notes = "all" -> TRUE [] pr.notes = "odd" -> id % 2 = 1
                                              [] pr.notes = "even" -> id % 2 = 0 [] OTHER -> FALSE)]

\* the conventional place and stem of the parts of a format
StdProf(pr) == [pr EXCEPT !.paths = "std", !.tgt = "rel"]
ConvDir(f, pr)  == NameOf(f, StdProf(pr), 1).dir
ConvStem(f, pr) == StemOf(f, StdProf(pr))

MkPkg(f, pr, d, r, z) ==
    LET real  == [i \in 1..K |-> Part(f, pr, i, i, PosIn(d, i), PosIn(r, i), PosIn(z, i))]
        decoy == IF pr.decoy = "none" THEN <<>>
                 ELSE IF pr.decoy = "conv" THEN << Part(f, StdProf(pr), 90, pr.missing, 0, 0, K + 1) >>
                 ELSE IF pr.decoy = "first" THEN << Part(f, pr, 90, 0, 0, 0, 0) >>
                 ELSE << Part(f, pr, 90, K + 1, 0, 0, K + 1) >>
        \* one alias decoy per real part (ids 71..), after everything else in the archive
        alias == IF pr.alias = "none" \/ AliasSp(f, pr) = DecodeWith(StdMode(f), pr.enc) THEN <<>>
                 ELSE [i \in 1..K |-> [Part(f, pr, 70 + i, i, 0, 0, K + 2 + i) EXCEPT !.name.sp = AliasSp(f, pr)]]
        extra == IF pr.extra THEN << Part(f, pr, 91, K + 2, 0, K + 1, K + 2) >> ELSE <<>>
        altonly == IF pr.chain \in {"altSub", "three"} THEN << Part(f, pr, 93, K + 3, 0, 0, K + 9) >> ELSE <<>>
        byDecl == SetToSortSeq({real[i] : i \in 1..K}, LAMBDA a, b : a.decl < b.decl)
        RootHref(x) == [x.href EXCEPT !.abs = FALSE, !.segs = x.name.dir]     \* from a package document in the root
        main   == [media |-> "opf", auth |-> TRUE, dir |-> BaseOf(f, pr), file |-> "content", spine |-> <<>>, hrefs |-> <<>>]
        other  == [media |-> "other", auth |-> FALSE, dir |-> <<"alt">>, file |-> "book", spine |-> <<>>, hrefs |-> <<>>]
        altRev == [media |-> "opf", auth |-> FALSE, dir |-> BaseOf(f, pr), file |-> "alt1",
                   spine |-> [i \in 1..K |-> byDecl[K + 1 - i].id], hrefs |-> [i \in 1..K |-> byDecl[K + 1 - i].href]]
        altSub == [media |-> "opf", auth |-> FALSE, dir |-> <<>>, file |-> "alt2",
                   spine |-> <<93>> \o [i \in 1..(K - 1) |-> byDecl[i + 1].id],
                   hrefs |-> << RootHref(altonly[1]) >> \o [i \in 1..(K - 1) |-> RootHref(byDecl[i + 1])]]
        roots  == CASE pr.chain = "altRev" -> <<main, altRev>>
                    [] pr.chain = "altSub" -> <<main, altSub>>
                    [] pr.chain = "otherFirst" -> <<other, main>>
                    [] pr.chain = "three" -> (IF pr.ver = 2 THEN <<other>> ELSE <<>>) \o <<main, altRev, altSub>>
                    [] OTHER -> <<main>>
    IN [fmt |-> f, base |-> BaseOf(f, pr), prof |-> pr, convdir |-> ConvDir(f, pr), convstem |-> ConvStem(f, pr),
        roots |-> roots, parts |-> real \o decoy \o extra \o alias \o altonly]

MCInit ==
    /\ \E f \in Fmts : \E pr \in ProfilesOf(f) : \E d \in Perms, r \in ListPerms, z \in Perms :
          pkg = MkPkg(f, pr, d, r, z)
    /\ pages = <<>> /\ pos = 0

MCSpec == MCInit /\ [][Next]_vars

\* simulation: the package is drawn at random in the first step (enumerating the full
\* product as initial states would be millions of states)
NoPkg == [fmt |-> "none", base |-> <<>>, prof |-> OProf("std", "rel", "none", FALSE, FALSE), convdir |-> <<>>, convstem |-> "",
          roots |-> <<>>, parts |-> <<>>]
SimInit == pkg = NoPkg /\ pages = <<>> /\ pos = 0
\* every option is drawn separately (drawing from the full product would build it for every trace);
\* a bound variable is evaluated once (a LET definition would be re-drawn at every use)
R(S) == {RandomElement(S)}
Draw(f, pr) == pkg' = MkPkg(f, pr, RandomElement(Perms), RandomElement(Perms), RandomElement(Perms))
SimPick ==
    /\ pkg.fmt = "none"
    /\ \E f \in R(Fmts) :
          IF Wide # "wide" THEN \E pr \in R(ProfilesOf(f)) : Draw(f, pr)
          ELSE IF f = "epub" THEN
            \E pa \in R({"std", "nested", "renamed", "dot"}), al \in R({"none", "decoded", "undecoded", "query"}),
               en \in R({"none", "sp20", "plusLit", "plus2B", "pct2520", "pct25z", "eC3A9", "eRaw", "paren", "amp"}),
               op \in R({"root", "one", "two"}), ve \in R({2, 3}), de \in R({"none", "first", "last"}),
               xt \in R(BOOLEAN), ex \in R(BOOLEAN), inf \in R(BOOLEAN), m \in R(0..K),
               ch \in R({"one", "one", "altRev", "altSub", "otherFirst", "three"}), x \in R(XmlSome \cup {XStd}) :
               Draw(f, Xml(ChainOf(Alias(Miss(EProf(pa, en, IF pa = "renamed" /\ op = "root" THEN "one" ELSE op,
                                               IF ch = "otherFirst" THEN 2 ELSE ve, de, xt, ex, inf), m), al), ch), x))
          ELSE
            \E pa \in R({"std", "nested", "renamed", "dot"}), tg \in R({"rel", "abs"}), de \in R({"none", "first", "last", "conv"}),
               ex \in R(BOOLEAN), inf \in R(BOOLEAN), m \in R(0..K),
               en \in R({"none", "sp20", "plusLit", "pct2520", "eC3A9", "paren", "amp"}), al \in R({"none", "decoded", "query"}),
               ch \in R({"one", "infraFirst", "infraMixed"}), x \in R(XmlSome \cup {XStd}), cf \in R({"transitional", "strict"}),
               nt \in R({"none", "all", "odd", "even"}) :
               Draw(f, Notes(Conf(Xml(ChainOf(Alias(Enc(Miss(OProf(pa, tg, IF de = "conv" /\ ~(m > 0 /\ pa \in {"nested", "renamed"}) THEN "none" ELSE de,
                                            ex, inf), m), en), al), ch), x), cf), nt))
    /\ UNCHANGED <<pages, pos>>
SimNext == SimPick \/ (pkg.fmt # "none" /\ Next)
SimSpec == SimInit /\ [][SimNext]_vars

\* every declared part in declared order, readable or not (what a navigation document lists)
DeclaredAll(p) == LET q == SetToSortSeq(Declared(p), LAMBDA a, b : a.decl < b.decl) IN [i \in 1..Len(q) |-> q[i].id]

\* one case per package: the terminal state carries the pages the contract yields
Emit == (pkg.fmt # "none" /\ Done) => PrintT(ToJson([fmt |-> pkg.fmt, base |-> pkg.base, prof |-> pkg.prof, parts |-> pkg.parts, roots |-> pkg.roots,
                               declared |-> DeclaredAll(pkg), pages |-> pages, count |-> Len(pages)]))
=============================================================================
