---------------------------- MODULE PartsOrderMC ----------------------------
(* Bounded instances of PartsOrder: construction of XLSX / PPTX / EPUB         *)
(* packages from K parts, three independent permutations (declared order,      *)
(* relationship / manifest listing order, archive order; the file-name order   *)
(* is the part number itself) and a layout profile; case emission.             *)
EXTENDS PartsOrder, Json

CONSTANTS K,         \* number of declared parts
          Fmts,      \* subset of {"xlsx", "pptx", "epub"}
          Wide       \* FALSE: the hand-picked profiles; TRUE: the full product (simulation)

Perms == {p \in [1..K -> 1..K] : \A i, j \in 1..K : (p[i] = p[j]) => i = j}
PosIn(p, x) == CHOOSE i \in 1..K : p[i] = x

\* ------------------------------- profiles -------------------------------
\* paths  : "std" usual names | "nested" deeper directory | "renamed" other directory and stem
\*          (EPUB: chapters beside the package file | in text/part/ | in ../text/)
\* tgt    : OOXML relationship Target "rel"ative to the source part or "abs"olute (/xl/..)
\* decoy  : an undeclared member that looks like a part, numbered before ("first") or
\*          after ("last") the real ones
\* extras : optional parts present (docProps, styles, theme, notes / NCX in EPUB 3, guide)
\* infra  : TRUE: the infrastructure members precede the parts in the archive
\* enc    : EPUB: special character in chapter file names and its spelling in the href
\* opf    : EPUB: package document in the root, in OEBPS/, in OPS/pkg/
\* ver    : EPUB 2 (NCX) or 3 (nav document)
\* extra  : EPUB: a manifest item that is not in the spine
\* missing: 0, or the DECLARED POSITION whose part is absent from the archive (declared but
\*          not readable: no page, not counted, nothing shown in its place)
\* decoy "conv": an undeclared member with the CONVENTIONAL name (xl/worksheets/sheet<k>.xml,
\*          ppt/slides/slide<k>.xml) numbered by the missing position, in packages whose real
\*          parts live elsewhere
OProf(pa, tg, de, ex, inf) == [paths |-> pa, tgt |-> tg, decoy |-> de, extras |-> ex, infra |-> inf,
                               enc |-> "none", opf |-> "root", ver |-> 0, extra |-> FALSE, missing |-> 0]
EProf(pa, en, op, ve, de, xt, ex, inf) == [paths |-> pa, tgt |-> "rel", decoy |-> de, extras |-> ex, infra |-> inf,
                               enc |-> en, opf |-> op, ver |-> ve, extra |-> xt, missing |-> 0]
Miss(pr, m) == [pr EXCEPT !.missing = m]

OProfiles == { OProf("std", "rel", "none", TRUE, TRUE),      OProf("std", "abs", "last", FALSE, FALSE),
               OProf("nested", "rel", "first", FALSE, TRUE), OProf("renamed", "rel", "none", TRUE, FALSE),
               OProf("renamed", "abs", "last", FALSE, TRUE), OProf("nested", "abs", "none", TRUE, FALSE),
               \* one declared part absent
               Miss(OProf("std", "rel", "none", TRUE, TRUE), 1),     Miss(OProf("std", "abs", "last", FALSE, FALSE), 2),
               Miss(OProf("std", "rel", "first", FALSE, TRUE), 3),   Miss(OProf("renamed", "rel", "conv", TRUE, FALSE), 2),
               Miss(OProf("nested", "abs", "conv", FALSE, TRUE), 1), Miss(OProf("renamed", "abs", "none", FALSE, TRUE), 3) }
EProfiles == { EProf("std", "none", "one", 3, "none", FALSE, TRUE, TRUE),
               EProf("std", "sp20", "root", 2, "last", TRUE, FALSE, FALSE),
               EProf("nested", "plusLit", "one", 3, "none", FALSE, FALSE, TRUE),
               EProf("renamed", "plus2B", "two", 2, "first", FALSE, TRUE, FALSE),
               EProf("nested", "none", "two", 3, "last", TRUE, TRUE, FALSE),
               EProf("renamed", "plusLit", "one", 2, "none", TRUE, FALSE, TRUE),
               EProf("std", "plus2B", "root", 3, "first", FALSE, FALSE, FALSE),
               Miss(EProf("std", "none", "one", 3, "last", FALSE, TRUE, TRUE), 1),
               Miss(EProf("nested", "sp20", "two", 2, "none", TRUE, FALSE, FALSE), 2),
               Miss(EProf("renamed", "plus2B", "one", 3, "first", FALSE, FALSE, TRUE), 3) }
OWide == { o \in { Miss(OProf(pa, tg, de, ex, inf), m) : pa \in {"std", "nested", "renamed"}, tg \in {"rel", "abs"},
                                         de \in {"none", "first", "last", "conv"}, ex \in BOOLEAN, inf \in BOOLEAN,
                                         m \in 0..K } :
             (o.decoy = "conv") => (o.missing > 0 /\ o.paths # "std") }
EWide == { e \in { Miss(EProf(pa, en, op, ve, de, xt, ex, inf), m) :
                     pa \in {"std", "nested", "renamed"}, en \in {"none", "sp20", "plusLit", "plus2B"},
                     op \in {"root", "one", "two"}, ve \in {2, 3}, de \in {"none", "first", "last"},
                     xt \in BOOLEAN, ex \in BOOLEAN, inf \in BOOLEAN, m \in 0..K } :
             ~(e.paths = "renamed" /\ e.opf = "root") }     \* ../text/ needs a parent directory
ProfilesOf(f) == IF f = "epub" THEN (IF Wide THEN EWide ELSE EProfiles)
                 ELSE (IF Wide THEN OWide ELSE OProfiles)

\* -------------------------- names and references --------------------------
OpfDir(pr) == CASE pr.opf = "root" -> <<>> [] pr.opf = "one" -> <<"OEBPS">> [] pr.opf = "two" -> <<"OPS", "pkg">>
BaseOf(f, pr) == CASE f = "xlsx" -> <<"xl">> [] f = "pptx" -> <<"ppt">> [] f = "epub" -> OpfDir(pr)

\* relative segments from the declaring document's directory to the parts
RelSegs(f, pr) ==
    CASE f = "xlsx" -> (CASE pr.paths = "std" -> <<"worksheets">> [] pr.paths = "nested" -> <<"worksheets", "sub">>
                          [] pr.paths = "renamed" -> <<"data">>)
      [] f = "pptx" -> (CASE pr.paths = "std" -> <<"slides">> [] pr.paths = "nested" -> <<"slides", "deck">>
                          [] pr.paths = "renamed" -> <<"pages">>)
      [] f = "epub" -> (CASE pr.paths = "std" -> <<>> [] pr.paths = "nested" -> <<"text", "part">>
                          [] pr.paths = "renamed" -> <<"..", "text">>)
StemOf(f, pr) ==
    CASE f = "xlsx" -> (IF pr.paths = "renamed" THEN "tab" ELSE "sheet")
      [] f = "pptx" -> (IF pr.paths = "renamed" THEN "page" ELSE "slide")
      [] f = "epub" -> (IF pr.paths = "renamed" THEN "sec" ELSE "ch")
ExtOf(f) == IF f = "epub" THEN "xhtml" ELSE "xml"

HrefOf(f, pr, n) ==
    [abs  |-> pr.tgt = "abs",
     segs |-> IF pr.tgt = "abs" THEN BaseOf(f, pr) \o RelSegs(f, pr) ELSE RelSegs(f, pr),
     stem |-> StemOf(f, pr), enc |-> pr.enc, n |-> n, ext |-> ExtOf(f)]

\* the member name is DEFINED as what the reference denotes under URL path rules
NameOf(f, pr, n) == ResolveWith("path", BaseOf(f, pr), HrefOf(f, pr, n))

Part(f, pr, id, n, decl, rel, zip) ==
    [id |-> id, name |-> NameOf(f, pr, n), href |-> HrefOf(f, pr, n), decl |-> decl, rel |-> rel, zip |-> zip,
     present |-> ~(decl > 0 /\ decl = pr.missing)]

\* the conventional place and stem of the parts of a format
StdProf(pr) == [pr EXCEPT !.paths = "std", !.tgt = "rel"]
ConvDir(f, pr)  == NameOf(f, StdProf(pr), 1).dir
ConvStem(f, pr) == StemOf(f, StdProf(pr))

MkPkg(f, pr, d, r, z) ==
    LET real  == [i \in 1..K |-> Part(f, pr, i, i, PosIn(d, i), PosIn(r, i), PosIn(z, i))]
        decoy == IF pr.decoy = "none" THEN <<>>
                 ELSE IF pr.decoy = "conv" THEN << Part(f, StdProf(pr), 90, pr.missing, 0, 0, K + 1) >>
                 ELSE IF pr.decoy = "first" THEN << Part(f, pr, 90, 0, 0, 0, 0) >>
                 ELSE << Part(f, pr, 90, K + 1, 0, 0, K + 1) >>
        extra == IF pr.extra THEN << Part(f, pr, 91, K + 2, 0, K + 1, K + 2) >> ELSE <<>>
    IN [fmt |-> f, base |-> BaseOf(f, pr), prof |-> pr, convdir |-> ConvDir(f, pr), convstem |-> ConvStem(f, pr),
        parts |-> real \o decoy \o extra]

MCInit ==
    /\ \E f \in Fmts : \E pr \in ProfilesOf(f) : \E d \in Perms, r \in Perms, z \in Perms :
          pkg = MkPkg(f, pr, d, r, z)
    /\ pages = <<>> /\ pos = 0

MCSpec == MCInit /\ [][Next]_vars

\* simulation: the package is drawn at random in the first step (enumerating the full
\* product as initial states would be millions of states)
NoPkg == [fmt |-> "none", base |-> <<>>, prof |-> OProf("std", "rel", "none", FALSE, FALSE), convdir |-> <<>>, convstem |-> "",
          parts |-> <<>>]
SimInit == pkg = NoPkg /\ pages = <<>> /\ pos = 0
SimPick ==
    /\ pkg.fmt = "none"
    \* a bound variable is evaluated once (a LET definition would be re-drawn at every use)
    /\ \E f \in {RandomElement(Fmts)} : \E pr \in {RandomElement(ProfilesOf(f))} :
          pkg' = MkPkg(f, pr, RandomElement(Perms), RandomElement(Perms), RandomElement(Perms))
    /\ UNCHANGED <<pages, pos>>
SimNext == SimPick \/ (pkg.fmt # "none" /\ Next)
SimSpec == SimInit /\ [][SimNext]_vars

\* one case per package: the terminal state carries the pages the contract yields
Emit == (pkg.fmt # "none" /\ Done) => PrintT(ToJson([fmt |-> pkg.fmt, base |-> pkg.base, prof |-> pkg.prof, parts |-> pkg.parts,
                               pages |-> pages, count |-> Len(pages)]))
=============================================================================
