SPECIFICATION Spec
CONSTANTS
  Cases <- ImplCases
  Expand <- McExpand
  Esc = "raw"
  Header = "first"
  Merge = "grid"
  Sep = "each"
  Dedup = "none"
  Width = "widest"
  MaxSpecial = 1
  FullCells = 0
  MaxRepeat = 2
INVARIANTS RoundTrip
CHECK_DEADLOCK FALSE
