SPECIFICATION HSpec
CONSTANTS
  Codec = "bijective"
  Place = "byref"
  Window = 1
  WindowRows = 1
  MergeMode = "all"
  Ordered = FALSE
  Offsets = {}
  Rects = {}
  MaxCells = 1000
  MaxMerges = 1000
  MaxSheets = 1000
  KindSeq <- KindsAll
  Rots = {}
  Layouts = {}
  Books <- HBooks
  Calls <- HCallsQ
  Readers = {"reader", "facade"}
  MaxLen = 3
  Cache = "pure"
INVARIANTS HTypeOK Purity HeldFaithful
CONSTRAINT EmitHist
CHECK_DEADLOCK FALSE
