------------------------------- MODULE HtmlWalk -------------------------------
(***************************************************************************)
(* C19 - HTML extraction keeps content; navigation filtering only narrows. *)
(*                                                                         *)
(* Part 1: a pushdown machine that generates HTML documents as well-nested *)
(* token streams.  It respects the HTML5 content models, so the tree the    *)
(* HTML5 parsing algorithm (golang.org/x/net/html) builds is the tree that *)
(* was generated (the driver audits that):                                 *)
(*   flow containers (body, div, section, nav, aside, header, footer,      *)
(*   blockquote) hold text and block elements; p / h1-h6 / pre / a hold    *)
(*   phrasing only; ul / ol hold li only; li holds phrasing, p and nested  *)
(*   lists; tables are opened with a plan (row groups, rows, cells with    *)
(*   spans) that satisfies the table model; td / th hold phrasing, p, ul;  *)
(*   header / footer have no header / footer descendants; a is not nested. *)
(* With Lax = TRUE the machine additionally writes malformed list markup    *)
(* that the parser does not repair: ul / ol / div as a direct child of ul / *)
(* ol ("sub-items" without an li).  The tree is still built as written.     *)
(* Every element the machine may open is a descriptor                      *)
(*   [tag, attr, planned, plan]                                            *)
(* A planned element must open exactly the children listed in its plan, in *)
(* order, at no cost (tables, scripts, link lists); any other element is   *)
(* filled freely, one unit of cost per child.                              *)
(*                                                                         *)
(* Part 2: the walker contract.  Every text token is numbered in document  *)
(* order and carries: asserted (inside a heading, paragraph, list item,    *)
(* table cell, pre or blockquote), forb (script / style text), and the     *)
(* hints of its ancestors.  The mode lattice is                            *)
(*   May(Explicit)   = subtrees rooted at nav / aside / header / footer or *)
(*                     an ARIA landmark role of those kinds                *)
(*   May(Standard)   = May(Explicit) + subtrees whose root has a class or  *)
(*                     id value of its own that matches the vocabulary     *)
(*                     (table VocabAttrs; look-alikes in NearAttrs do not) *)
(*   May(Aggressive) = May(Standard) + subtrees (other than body) that     *)
(*                     contain at least one link                           *)
(* and the contract for the outputs Out(None), Out(Explicit), ... is       *)
(*   W1  Out(None) restricted to asserted tokens = those tokens, once, in  *)
(*       document order, with their entities decoded                      *)
(*   W2  Out(m) is a subsequence of Out(m') for the next weaker mode m'    *)
(*   W3  tokens outside May(m) appear in Out(m) exactly as in Out(None)    *)
(*   W4  script / style text never appears                                 *)
(*   WU  (W3 for the emitted units) tokens outside May(m) share a block /  *)
(*       list item / cell in Out(m) iff they do in Out(None)               *)
(***************************************************************************)
EXTENDS Integers, Sequences, FiniteSets, SequencesExt, TLC

CONSTANTS Opens,      \* descriptors the machine may open by a free step
          Forms,      \* text forms a free text step may use
          MaxLen,     \* bound on the cost (free steps)
          MaxDepth,   \* bound on the nesting depth
          Lax         \* TRUE: also generate the malformed list markup the HTML5 parser keeps in
                      \* place - a list or a div directly inside ul / ol (not inside an li)

VARIABLES stack,      \* open elements, body first
          stream,     \* the token stream generated so far
          toks,       \* the text tokens generated so far
          linky,      \* ids of the elements (body excluded) that contain a link
          nel,        \* elements opened so far
          cost,       \* free steps taken
          outs        \* walker outputs observed for the finished document: mode -> seq of <<id, form>>

gvars == <<stack, stream, toks, linky, nel, cost>>
vars  == <<stack, stream, toks, linky, nel, cost, outs>>

\* ------------------------------------------------------------ vocabulary
Headings    == {"h1", "h2", "h3", "h4", "h5", "h6"}
FlowBoxes   == {"body", "div", "section", "nav", "aside", "header", "footer", "blockquote"}
ContentTags == Headings \cup {"p", "li", "td", "th", "pre", "blockquote"}
\* start tags that imply the end of an open p (HTML 13.1.2.4 optional tags)
PEnders     == Headings \cup {"div", "section", "nav", "aside", "header", "footer", "blockquote",
                              "p", "ul", "ol", "table", "pre", "dl", "figure", "figcaption", "details"}
AllForms    == {"plain", "amp", "num"}

RoleHints   == {"role:navigation", "role:complementary", "role:banner", "role:contentinfo"}
\* The attribute dimension.  An attr is "" or "key:value" or "key:value|key:value" (the
\* attributes in source order).  Class values are space-separated token lists.
\*
\* Matches: the documented vocabulary semantics of htmldoc (navigation.go: the words nav,
\* navbar, navigation, menu, topnav, sidenav, breadcrumb(s), site-header, page-header,
\* masthead, banner, footer, site-footer, page-footer, colophon, sidebar, widget-area,
\* widget, aside; matched case-insensitively as a whole word, i.e. delimited by the ends of
\* the attribute value or by any non-letter: space, hyphen, underscore, digit).  An element
\* is excluded by pattern only if one of ITS OWN attribute values matches; a word formed
\* only by putting two attribute values next to each other is not a match.  The relation
\* is given as a finite table over the generated attribute strings:
VocabAttrs  == {\* the word alone, class or id
                "class:nav", "class:navbar", "class:menu", "class:sidebar", "class:footer", "class:widget",
                "class:site-header", "class:breadcrumbs", "id:nav", "id:menu", "id:sidebar", "id:footer",
                "id:page-footer",
                \* upper / mixed case
                "class:SIDEBAR", "class:SideBar", "id:Footer",
                \* delimited by hyphen, underscore, digit
                "class:main-nav", "class:my-sidebar", "class:sidebar-left", "class:x_nav", "class:sidebar2",
                \* one token among several class tokens
                "class:top menu", "class:main sidebar wide", "class:content footer",
                \* both attributes, either order; one of them matches on its own
                "class:sidebar|id:secondary", "id:footer|class:content", "class:content|id:menu",
                "id:main|class:widget dark"}
\* look-alikes that do NOT match: the word is only a prefix / suffix / infix of a longer
\* word, or exists only across the junction of two attribute values or two class tokens
NearAttrs   == {"class:navy", "class:menubar", "class:footnote", "class:canvas", "class:bannerad",
                "class:widgets", "class:sidebars", "class:mysidebar", "id:asides", "id:navigate",
                "class:side bar", "class:foot er",
                "class:side|id:bar-chart", "id:side|class:bar", "class:bread|id:crumbs", "class:foot|id:er"}
PlainAttrs  == {"", "class:content", "class:article-body", "id:main", "role:main", "class:content|id:main"}
SpanAttrs   == {"", "colspan:2", "rowspan:2"}

ExplicitHint(d) == d.tag \in {"nav", "aside", "header", "footer"} \/ d.attr \in RoleHints
\* (NearAttrs carry no hint: an element whose own attribute values do not match is outside
\* every subtree a mode may exclude by pattern)
PatternHint(d)  == d.attr \in VocabAttrs

TextDesc(form) == [tag |-> "#text", attr |-> form, planned |-> FALSE, plan |-> <<>>]
IsText(d) == d.tag = "#text"

\* ------------------------------------------------------- content models
\* containers of flow content besides the flow boxes: dd, figcaption, figure, details (after
\* its summary); list items and table cells take phrasing, p, lists and - mixed content -
\* div / section / nav / aside / table children as well
CellLike == {"li", "td", "th"}
FlowIn   == FlowBoxes \cup {"dd", "figcaption", "figure", "details"}
Mixable  == {"div", "section", "nav", "aside"}

TextOK(f) == \/ f.tag \in FlowBoxes \cup Headings \cup {"p", "li", "td", "th", "pre", "a", "script", "style"}
             \/ f.tag \in {"dt", "dd", "figcaption", "summary", "figure"}
             \/ f.tag = "details" /\ f.nch >= 1

\* may a FREE step open element d inside frame f ?
Allowed(f, d) ==
    /\ ~f.planned
    /\ d.tag \in FlowBoxes \ {"body"} =>
          /\ \/ f.tag \in FlowIn
             \/ d.tag \in Mixable /\ f.tag \in CellLike /\ d.planned   \* (as a ready-made child: keeps the small alphabets small)
             \/ Lax /\ d.tag = "div" /\ f.tag \in {"ul", "ol"}
          /\ d.tag \in {"header", "footer"} => ~f.nohf
    /\ d.tag \in Headings \cup {"pre", "script"} => f.tag \in FlowIn
    /\ d.tag = "table" => f.tag \in FlowIn \/ (f.tag \in CellLike /\ d.attr # "")   \* (in a cell: the excludable table)
    /\ d.tag = "p"  => f.tag \in FlowIn \cup CellLike
    /\ d.tag \in {"ul", "ol"} => f.tag \in FlowIn \cup CellLike \cup (IF Lax THEN {"ul", "ol"} ELSE {})
    /\ d.tag = "li" => f.tag \in {"ul", "ol"}
    /\ d.tag = "a"  => ~f.inA /\ f.tag \in FlowIn \cup Headings \cup CellLike \cup {"p", "dt", "summary"}
    /\ d.tag = "br" => f.tag \in Headings \cup CellLike \cup {"p", "dt", "summary"}
    /\ d.tag \in {"dl", "figure", "details"} => f.tag \in FlowBoxes
    /\ d.tag \in {"dt", "dd"} => f.tag = "dl"
    /\ d.tag = "figcaption" => f.tag = "figure" /\ f.nch = 0
    /\ d.tag = "summary" => f.tag = "details" /\ f.nch = 0
    /\ d.tag \in {"tr", "td", "th", "thead", "tbody", "tfoot", "style", "body", "#text"} => FALSE
    /\ f.tag \in {"ul", "ol"} => d.tag = "li" \/ (Lax /\ d.tag \in {"ul", "ol", "div"})
    /\ f.tag = "dl" => d.tag \in {"dt", "dd"}
    /\ f.tag = "details" /\ f.nch = 0 => d.tag = "summary"
    /\ f.tag \in {"pre", "a", "script", "style", "br", "table", "tr", "thead", "tbody", "tfoot"} => FALSE

Top == stack[Len(stack)]

Body == [tag |-> "body", id |-> 0, attr |-> "", plan |-> <<>>, planned |-> FALSE,
         hE |-> FALSE, hS |-> FALSE, as |-> FALSE, nohf |-> FALSE, inA |-> FALSE,
         path |-> <<>>, lastText |-> FALSE, nch |-> 0, pli |-> FALSE]

Init == /\ stack = <<Body>> /\ stream = <<>> /\ toks = <<>> /\ linky = {}
        /\ nel = 0 /\ cost = 0 /\ outs = <<>>

Touch(f, isText, rest) == [f EXCEPT !.lastText = isText, !.nch = @ + 1, !.plan = rest]
ReplaceTop(f) == [stack EXCEPT ![Len(stack)] = f]

\* push element d (free or planned) into the top frame
Push(d, rest) ==
    LET f  == Top
        id == nel + 1
        nf == [tag |-> d.tag, id |-> id, attr |-> d.attr, plan |-> d.plan, planned |-> d.planned,
               hE |-> f.hE \/ ExplicitHint(d), hS |-> f.hS \/ PatternHint(d),
               as |-> f.as \/ d.tag \in ContentTags,
               nohf |-> f.nohf \/ d.tag \in {"header", "footer"},
               inA |-> f.inA \/ d.tag = "a",
               path |-> Append(f.path, id), lastText |-> FALSE, nch |-> 0,
               \* (for the implementation-shaped walker) a block child of a list item
               pli |-> f.pli \/ (f.tag = "li" /\ d.tag \in {"p", "div", "table", "blockquote"})]
    IN /\ stack' = Append(ReplaceTop(Touch(f, FALSE, rest)), nf)
       /\ stream' = Append(stream, [op |-> "open", tag |-> d.tag, attr |-> d.attr, id |-> id])
       /\ nel' = id
       /\ linky' = IF d.tag = "a" THEN linky \cup {f.path[i] : i \in 1..Len(f.path)} \cup {id} ELSE linky
       /\ UNCHANGED toks

\* a void element (br): opened and closed at once, no frame
Void(d, rest) ==
    /\ stack' = ReplaceTop(Touch(Top, FALSE, rest))
    /\ stream' = Append(stream, [op |-> "void", tag |-> d.tag, attr |-> d.attr, id |-> nel + 1])
    /\ nel' = nel + 1
    /\ UNCHANGED <<toks, linky>>

PutText(form, rest) ==
    LET f == Top
        id == Len(toks) + 1
    IN /\ toks' = Append(toks, [id |-> id, form |-> form, as |-> f.as, hE |-> f.hE, hS |-> f.hS,
                                path |-> f.path, forb |-> f.tag \in {"script", "style"}, pli |-> f.pli])
       /\ stream' = Append(stream, [op |-> "text", tag |-> form, attr |-> "", id |-> id])
       /\ stack' = ReplaceTop(Touch(f, TRUE, rest))
       /\ UNCHANGED <<nel, linky>>

FreeOpen(d) ==
    /\ Allowed(Top, d) /\ Len(stack) < MaxDepth /\ cost < MaxLen
    /\ IF d.tag = "br" THEN Void(d, <<>>) ELSE Push(d, <<>>)
    /\ cost' = cost + 1 /\ UNCHANGED outs

FreeText(form) ==
    /\ ~Top.planned /\ TextOK(Top) /\ ~Top.lastText /\ cost < MaxLen
    /\ PutText(form, <<>>)
    /\ cost' = cost + 1 /\ UNCHANGED outs

\* the next child of a planned element
PlanStep ==
    /\ Top.planned /\ Top.plan # <<>>
    /\ LET d == Head(Top.plan) rest == Tail(Top.plan) IN
         IF IsText(d) THEN PutText(d.attr, rest) ELSE Push(d, rest)
    /\ UNCHANGED <<cost, outs>>

Close ==
    /\ Len(stack) > 1
    /\ IF Top.planned THEN Top.plan = <<>> ELSE Top.nch >= 1
    /\ stream' = Append(stream, [op |-> "close", tag |-> Top.tag, attr |-> "", id |-> Top.id])
    /\ stack' = [SubSeq(stack, 1, Len(stack) - 1) EXCEPT ![Len(stack) - 1].lastText = FALSE]
    /\ UNCHANGED <<toks, linky, nel, cost, outs>>

GenNext == \/ \E d \in Opens : FreeOpen(d)
           \/ \E fm \in Forms : FreeText(fm)
           \/ PlanStep
           \/ Close

GenSpec == Init /\ [][GenNext]_vars

Complete == Len(stack) = 1 /\ stream # <<>>

\* ----------------------------------------------------------- expectations
TokSel(P(_)) == SelectSeq(toks, P)
Pair(t) == <<t.id, t.form>>
Pairs(s) == [i \in 1..Len(s) |-> Pair(s[i])]

Content   == Pairs(TokSel(LAMBDA t : t.as /\ ~t.forb))
\* the renderer always puts a <style> element with token 999 into the head
HeadStyleTok == 999
Forbidden == {toks[i].id : i \in {j \in 1..Len(toks) : toks[j].forb}} \cup {HeadStyleTok}
LinkFree(t) == \A i \in 1..Len(t.path) : t.path[i] \notin linky
CleanIds(m) == {toks[i].id : i \in {j \in 1..Len(toks) :
                    /\ ~toks[j].forb
                    /\ m \in {"explicit", "standard", "aggressive"} => ~toks[j].hE
                    /\ m \in {"standard", "aggressive"} => ~toks[j].hS
                    /\ m = "aggressive" => LinkFree(toks[j])}}
ContentIds == {Content[i][1] : i \in 1..Len(Content)}

Modes == <<"none", "explicit", "standard", "aggressive">>
ModeIx(m) == CHOOSE i \in 1..4 : Modes[i] = m

\* optional end tags (HTML 13.1.2.4): which close items the renderer may leave out
Omittable(i) ==
    /\ stream[i].op = "close"
    /\ \/ stream[i].tag \in {"td", "th", "tr", "thead", "tbody", "tfoot"}
       \* </li> may go only before another <li> or the end of the parent (in Lax documents
       \* an li can be followed by a list or a div, which would then be parsed INTO the li)
       \/ /\ stream[i].tag = "li"
          /\ \/ i = Len(stream)
             \/ stream[i + 1].op = "close"
             \/ stream[i + 1].op = "open" /\ stream[i + 1].tag = "li"
       \/ /\ stream[i].tag = "p"
          /\ \/ i = Len(stream)
             \/ stream[i + 1].op = "close"
             \/ stream[i + 1].op = "open" /\ stream[i + 1].tag \in PEnders
Omit == [i \in 1..Len(stream) |-> Omittable(i)]

\* -------------------------------------------------------- walker contract
Filter(s, S) == SelectSeq(s, LAMBDA x : x[1] \in S)
IdsOf(s) == {s[i][1] : i \in 1..Len(s)}

NextPos(t, from, x) == LET c == {j \in (from + 1)..Len(t) : t[j] = x} IN
                       IF c = {} THEN Len(t) + 1 ELSE CHOOSE j \in c : \A k \in c : j <= k
IsSubseq(s, t) == FoldLeft(LAMBDA acc, x : IF acc > Len(t) THEN acc ELSE NextPos(t, acc, x), 0, s) <= Len(t)

W1(none)          == Filter(none, ContentIds) = Content
W2(obs, weaker)   == IsSubseq(obs, weaker)
W3(m, obs, none)  == Filter(obs, CleanIds(m)) = Filter(none, CleanIds(m))
W4(obs)           == IdsOf(obs) \cap Forbidden = {}

\* the four outputs o[1..4] (None, Explicit, Standard, Aggressive) of one output kind
Contract(o) == /\ W1(o[1])
               /\ \A i \in 1..4 : W4(o[i]) /\ W3(Modes[i], o[i], o[1])
               /\ \A i \in 2..4 : W2(o[i], o[i - 1])

\* the walker observed mode Modes[Len(outs)+1] next; the guard is the contract
\* An observed token may carry, as a third component, the number of the emitted unit (block,
\* list item, table cell) it came out in.  P2 strips it.
P2(obs) == [i \in 1..Len(obs) |-> <<obs[i][1], obs[i][2]>>]
HasUnits(obs) == \A i \in 1..Len(obs) : Len(obs[i]) = 3
\* WU - W3 at the granularity of emitted units: content outside the subtrees mode m may
\* exclude keeps its unit structure - two such tokens share a unit in Out(m) iff they share
\* one in Out(None) (an excluded child must not glue the text before and after it together)
CleanSeq(m, obs) == SelectSeq(obs, LAMBDA x : x[1] \in CleanIds(m))
WU(m, obs, none) ==
    (HasUnits(obs) /\ HasUnits(none)) =>
        LET a == CleanSeq(m, obs) b == CleanSeq(m, none) IN
        Len(a) = Len(b) => \A i \in 1..(Len(a) - 1) : (a[i][3] = a[i + 1][3]) <=> (b[i][3] = b[i + 1][3])

Walk(m, obs) ==
    /\ Complete /\ Len(outs) < 4 /\ m = Modes[Len(outs) + 1]
    /\ W4(P2(obs))
    /\ m = "none" => W1(P2(obs))
    /\ m # "none" => /\ W2(P2(obs), P2(outs[Len(outs)])) /\ W3(m, P2(obs), P2(outs[1]))
                      /\ WU(m, obs, outs[1])
    /\ outs' = Append(outs, obs)
    /\ UNCHANGED gvars

\* an entry point without a mode parameter (string, file) extracts in a mode of
\* its own choosing: only content that no mode may exclude is asserted
WalkDefault(obs) ==
    /\ Complete /\ outs = <<>>
    /\ W4(P2(obs))
    /\ Filter(P2(obs), ContentIds \cap CleanIds("aggressive")) = Filter(Content, CleanIds("aggressive"))
    /\ outs' = <<obs>>
    /\ UNCHANGED gvars

\* ------------------------------------------------- reference walkers (R1)
\* a walker that returns every non-forbidden token and excludes exactly the
\* subtrees of Excl(m): the least (exclude nothing) and the greatest (exclude
\* everything May(m) allows) walkers both satisfy the contract.
AllOut == Pairs(TokSel(LAMBDA t : ~t.forb))
RefLeast    == [i \in 1..4 |-> AllOut]
RefGreatest == [i \in 1..4 |-> Filter(AllOut, CleanIds(Modes[i]))]

RefOK == Complete => Contract(RefLeast) /\ Contract(RefGreatest)

\* implementation-shaped walker (pinned htmldoc list handling): the text of a list
\* item is its direct text plus its inline children; p / div / table / blockquote
\* children of an li are skipped.  TLC refutes W1 for it (witness ul > li > p > text).
PinnedOut  == Pairs(TokSel(LAMBDA t : ~t.forb /\ ~t.pli))
PinnedLiOK == Complete => W1(PinnedOut)

\* ------------------------------------------------ invariants of the machine
Lattice == /\ CleanIds("aggressive") \subseteq CleanIds("standard")
           /\ CleanIds("standard") \subseteq CleanIds("explicit")
           /\ CleanIds("explicit") \subseteq CleanIds("none")
           /\ ContentIds \subseteq CleanIds("none")
           /\ ContentIds \cap Forbidden = {}

\* the elements still open in the stream are exactly the stack (well-nestedness)
StillOpen == LET closed == {stream[i].id : i \in {j \in 1..Len(stream) : stream[j].op = "close"}} IN
             SelectSeq(stream, LAMBDA it : it.op = "open" /\ it.id \notin closed)
WellNested == /\ Len(StillOpen) = Len(stack) - 1
              /\ \A i \in 1..Len(StillOpen) : StillOpen[i].id = stack[i + 1].id /\ StillOpen[i].tag = stack[i + 1].tag

\* HTML5 content models, stated on the result (covers planned children as well)
ChildOK(pt, ct) ==
    CASE pt \in FlowBoxes -> ct \in (FlowBoxes \ {"body"}) \cup Headings \cup {"p", "ul", "ol", "table", "pre", "a", "script",
                                                                            "dl", "figure", "details"}
      [] pt \in {"dd", "figcaption", "figure", "details"} ->
              ct \in (FlowBoxes \ {"body"}) \cup Headings \cup {"p", "ul", "ol", "table", "pre", "a", "script", "figcaption", "summary"}
      [] pt \in Headings \cup {"p", "dt", "summary"} -> ct = "a"
      [] pt \in {"ul", "ol"} -> ct = "li" \/ (Lax /\ ct \in {"ul", "ol", "div"})
      [] pt \in CellLike -> ct \in {"p", "ul", "ol", "a", "table"} \cup Mixable
      [] pt = "dl" -> ct \in {"dt", "dd"}
      [] pt = "table" -> ct \in {"thead", "tbody", "tfoot", "tr"}
      [] pt \in {"thead", "tbody", "tfoot"} -> ct = "tr"
      [] pt = "tr" -> ct \in {"td", "th"}
      [] OTHER -> FALSE
ContentModelOK ==
    /\ \A i \in 2..Len(stack) : ChildOK(stack[i - 1].tag, stack[i].tag)
    /\ \A i, j \in 1..Len(stack) : i < j /\ stack[i].tag = "a" => stack[j].tag # "a"
    /\ \A i, j \in 1..Len(stack) : i < j /\ stack[i].tag \in {"header", "footer"} => stack[j].tag \notin {"header", "footer"}

DocOrder == \A i \in 1..Len(toks) : toks[i].id = i
=============================================================================
