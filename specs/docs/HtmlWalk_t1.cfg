SPECIFICATION GenSpec
CONSTANTS
  Opens <- AlphaSet
  Forms = {"plain"}
  Alpha = "q1"
  MaxLen = 5
  MaxDepth = 6
  Lax = FALSE
INVARIANTS Lattice WellNested ContentModelOK DocOrder RefOK
CONSTRAINT Emit
CHECK_DEADLOCK FALSE
