----------------------------- MODULE HtmlWalkTrace -----------------------------
(* Trace validation for HtmlWalk.  The driver builds a random document from the   *)
(* specification's alphabet and logs every generator step (Open / Text / Close);  *)
(* the machine's own actions replay them, so the document is re-validated against *)
(* the content models.  Then come the outputs of the real extractor, one Walk     *)
(* event per (entry, output kind, mode) in mode order; the guard of Walk is the   *)
(* contract W1..W4.  NextOut starts the next output kind, Reset the next document.*)
EXTENDS HtmlWalkMC

Trace == ndJsonDeserialize("trace.ndjson")

VARIABLE l
tvars == <<vars, l>>

Ev == Trace[l]

TraceInit == Init /\ l = 1

TraceReset ==
    /\ l <= Len(Trace) /\ Ev.event = "Reset" /\ l' = l + 1
    /\ stack' = <<Body>> /\ stream' = <<>> /\ toks' = <<>> /\ linky' = {}
    /\ nel' = 0 /\ cost' = 0 /\ outs' = <<>>

TraceOpen ==
    /\ l <= Len(Trace) /\ Ev.event = "Open" /\ l' = l + 1
    /\ \/ Ev.d \in FullAlphabet /\ FreeOpen(Ev.d)
       \/ Top.planned /\ Top.plan # <<>> /\ Head(Top.plan) = Ev.d /\ PlanStep

TraceText ==
    /\ l <= Len(Trace) /\ Ev.event = "Text" /\ l' = l + 1
    /\ Ev.form \in AllForms
    /\ \/ FreeText(Ev.form)
       \/ Top.planned /\ Top.plan # <<>> /\ Head(Top.plan) = TextDesc(Ev.form) /\ PlanStep

TraceClose ==
    /\ l <= Len(Trace) /\ Ev.event = "Close" /\ l' = l + 1
    /\ Close

TraceWalk ==
    /\ l <= Len(Trace) /\ Ev.event = "Walk" /\ l' = l + 1
    /\ IF Ev.mode = "default" THEN WalkDefault(Ev.toks) ELSE Walk(Ev.mode, Ev.toks)

TraceNextOut ==
    /\ l <= Len(Trace) /\ Ev.event = "NextOut" /\ l' = l + 1
    /\ Len(outs) >= 1 /\ outs' = <<>>
    /\ UNCHANGED gvars

TraceNext == TraceReset \/ TraceOpen \/ TraceText \/ TraceClose \/ TraceWalk \/ TraceNextOut

TraceSpec == TraceInit /\ [][TraceNext]_tvars

TraceAccepted == TLCGet("stats").diameter - 1 = Len(Trace)
=============================================================================
