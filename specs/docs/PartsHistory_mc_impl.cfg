SPECIFICATION HSpec
CONSTANTS
  OrderBy = "declared"
  Chain = "first"
  Decode = "path"
  Packages = {}
  K = 3
  Fmts = {}
  Wide = "some"
  HPackages <- HPkgs
  Calls <- HCalls
  MaxLen = 2
  Cache = "writeback"
INVARIANTS Purity
CHECK_DEADLOCK FALSE
