SPECIFICATION HSpec
CONSTANTS
  Docs <- HDocs
  Calls <- HCalls
  MaxLen = 2
  Cache = "writeback"
INVARIANTS Purity

CHECK_DEADLOCK FALSE
