SPECIFICATION Spec
CONSTANTS
  Cases <- CasesG
  Expand <- McExpand
  Esc = "escape"
  Header = "first"
  Merge = "grid"
  Sep = "each"
  Dedup = "none"
  Width = "first"
  MaxSpecial = 1
  FullCells = 0
  MaxRepeat = 2
INVARIANTS RoundTrip
CHECK_DEADLOCK FALSE
