------------------------------ MODULE DocModel ------------------------------
(***************************************************************************)
(* The structural content of a document that Markdown output must keep:    *)
(* tables (grid of cell texts, merged cells), headings (level), lists      *)
(* (depth, kind) and body text.  TLC strings carry the concrete texts, so  *)
(* the harness renders nothing itself: Raw gives the text put into the     *)
(* source document, Words the words a Markdown reader must find in the     *)
(* cell (cell texts are compared up to white space: a newline inside a     *)
(* cell cannot survive in a pipe table and a GFM reader trims cells).      *)
(***************************************************************************)
EXTENDS Integers, Sequences, FiniteSets, TLC

Tag(r, c) == ToString(r) \o ToString(c)

\* ---------------------------------------------------------------- tables
CellKinds == {"plain", "pipe", "nl", "empty", "padded"}
\* one more special kind outside the small alphabet: non-ASCII text.  TLC prints only
\* ASCII, so the marker ~u stands for U+00E9 (the harness substitutes it everywhere)
\* and one whose text does not depend on the position: the word rA, which documents of the
\* repeated-content family also use as a heading text
AllCellKinds == CellKinds \cup {"uni", "rep"}

Raw(kd, r, c) ==
    CASE kd = "plain"  -> "p" \o Tag(r, c)
      [] kd = "pipe"   -> "a" \o Tag(r, c) \o "|" \o "b" \o Tag(r, c)
      [] kd = "nl"     -> "x" \o Tag(r, c) \o "\n" \o "y" \o Tag(r, c)
      [] kd = "empty"  -> ""
      [] kd = "padded" -> " q" \o Tag(r, c) \o " "
      [] kd = "uni"    -> "~u" \o Tag(r, c)
      [] kd = "rep"    -> "rA"

Words(kd, r, c) ==
    CASE kd = "plain"  -> <<"p" \o Tag(r, c)>>
      [] kd = "pipe"   -> <<"a" \o Tag(r, c) \o "|" \o "b" \o Tag(r, c)>>
      [] kd = "nl"     -> <<"x" \o Tag(r, c), "y" \o Tag(r, c)>>
      [] kd = "empty"  -> <<>>
      [] kd = "padded" -> <<"q" \o Tag(r, c)>>
      [] kd = "uni"    -> <<"~u" \o Tag(r, c)>>
      [] kd = "rep"    -> <<"rA">>

\* Header marking of the SOURCE (hm): which rows the source format marks as header rows
\*   "none"   no row          "first"  row 1            "lead2" / "lead3"  the first two / three rows
\*   "mid"    row 2 only (a marked row that is not at the top)          "all"  every row
\* (DOCX w:tblHeader rows, ODT table:table-header-rows, HTML thead / th rows, model.Cell.IsHeader,
\* PPTX firstRow).  The marking never changes what must be read back: the same nr x nc grid, i.e. one
\* delimiter row directly after the first line of the pipe table.
HMarks == {"none", "first", "lead2", "lead3", "mid", "all"}
HMarkFits(hm, nr) == CASE hm = "lead2" -> nr >= 2 [] hm = "lead3" -> nr >= 3 [] hm = "mid" -> nr >= 2 [] OTHER -> TRUE
HdrRowsOf(hm, nr) == CASE hm = "none" -> {} [] hm = "first" -> {1} [] hm = "lead2" -> {1, 2} [] hm = "lead3" -> {1, 2, 3}
                       [] hm = "mid" -> {2} [] hm = "all" -> 1..nr
\* the number of marked rows at the top of the table
LeadMarked(hm, nr) == CASE hm = "none" -> 0 [] hm = "first" -> 1 [] hm = "lead2" -> 2 [] hm = "lead3" -> 3
                        [] hm = "mid" -> 0 [] hm = "all" -> nr

\* a table: [nr, nc, kind |-> [1..nr -> [1..nc -> CellKinds]], hm |-> header marking, hdr |-> BOOLEAN (first row is a
\* header row in the source), m |-> at most one merged cell [r, c, rs, cs] (r = 0: none)]
NoMerge == [r |-> 0, c |-> 0, rs |-> 1, cs |-> 1]
HasMerge(t)      == t.m.r > 0
InMerge(t, r, c) == HasMerge(t) /\ r >= t.m.r /\ r < t.m.r + t.m.rs /\ c >= t.m.c /\ c < t.m.c + t.m.cs
Anchor(t, r, c)  == t.m.r = r /\ t.m.c = c
Covered(t, r, c) == InMerge(t, r, c) /\ ~Anchor(t, r, c)
MergeFits(t)     == ~HasMerge(t) \/ (t.m.r + t.m.rs - 1 <= t.nr /\ t.m.c + t.m.cs - 1 <= t.nc /\ t.m.rs * t.m.cs > 1)

\* Ragged tables: a table may carry rw, the number of cells each row has in the source (<= nc; the
\* widest row has nc).  The positions a short row lacks are not cells of the source: they read back
\* as whatever the writer pads with (free); every cell that exists reads back in its row and column.
RowWidth(t, r) == IF "rw" \in DOMAIN t THEN t.rw[r] ELSE t.nc
Absent(t, r, c) == c > RowWidth(t, r)
IsRagged(t) == \E r \in 1..t.nr : RowWidth(t, r) < t.nc

\* what a reader of the output must see: the same nr x nc grid; the text of a merged cell
\* at its anchor; positions covered by the merge are free (empty or a repeat - unspecified)
\* t.off shifts the row number used in the cell texts, so that the tables of one document
\* (off = 0, 3, 6) have different words
GridCell(t, r, c) == IF Covered(t, r, c) \/ Absent(t, r, c) THEN [free |-> TRUE, words |-> <<>>]
                                         ELSE [free |-> FALSE, words |-> Words(t.kind[r][c], r + t.off, c)]
Grid(t) == [r \in 1..t.nr |-> [c \in 1..t.nc |-> GridCell(t, r, c)]]

\* the source cells with their texts and spans (covered positions are not cells)
SrcCell(t, r, c) == [raw |-> Raw(t.kind[r][c], r + t.off, c), kind |-> t.kind[r][c], covered |-> Covered(t, r, c), absent |-> Absent(t, r, c),
                     rs |-> IF Anchor(t, r, c) THEN t.m.rs ELSE 1, cs |-> IF Anchor(t, r, c) THEN t.m.cs ELSE 1]
Src(t) == [r \in 1..t.nr |-> [c \in 1..t.nc |-> SrcCell(t, r, c)]]

\* the "special" features of a table (evidence: non-trivial cases; signatures)
Special(t) == (\E r \in 1..t.nr, c \in 1..t.nc : t.kind[r][c] # "plain") \/ HasMerge(t) \/ t.hm # "first" \/ IsRagged(t)

\* ---------------------------------------------------------------- headings
Min(a, b) == IF a < b THEN a ELSE b
Max(a, b) == IF a > b THEN a ELSE b
\* ATX level of a heading of source level `level` under offset `off` and cap `mx`
Out(level, off, mx) == Max(1, Min(level + off, Min(mx, 6)))

\* ---------------------------------------------------------------- lists
\* items: sequence of [d |-> depth 0.., k |-> "o" | "u", w |-> word]
\* a list tree: the first item is at depth 0, an item is at most one level deeper than its
\* predecessor, and the items of one (sub)list share the kind
SameList(items, a, b) == /\ a < b /\ items[a].d = items[b].d
                         /\ \A x \in a..b : items[x].d >= items[a].d
WellFormedList(items) ==
    /\ Len(items) > 0 => items[1].d = 0
    /\ \A n \in 2..Len(items) : items[n].d <= items[n - 1].d + 1
    /\ \A a, b \in 1..Len(items) : SameList(items, a, b) => items[a].k = items[b].k
Uniform(items) == \A a, b \in 1..Len(items) : items[a].k = items[b].k
=============================================================================
