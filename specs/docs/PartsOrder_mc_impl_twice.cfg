SPECIFICATION MCSpec
CONSTANTS
  OrderBy = "declared"
  Chain = "first"
  Decode = "twice"
  Packages = {}
  K = 3
  Fmts = {"epub"}
  Wide = "neg"
INVARIANTS TypeOK ValidPackage DeclaredPrefix DeclaredOrder OwnPage
CHECK_DEADLOCK FALSE
