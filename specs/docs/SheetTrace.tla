----------------------------- MODULE SheetTrace -----------------------------
(* Trace validation for Sheet.  A segment is one workbook the harness wrote   *)
(* (any size, any addresses A1..ZZ200, any file order) and read back through  *)
(* the real code:                                                             *)
(*   Merge / Write / NewSheet   the items in file order - replayed through    *)
(*                              the spec's own actions, which also check that *)
(*                              the harness generated a valid workbook        *)
(*   Obs(view, sh, x, y, d)     one non-blank cell the real code shows in a   *)
(*                              view: "grid" (xlsx.Sheet.Cell), "tsv" (line,  *)
(*                              field of Text()), "md" (row, column of the    *)
(*                              Markdown table), "doc" (model table),         *)
(*                              "tables" (xlsx.Reader.Tables())               *)
(*   End(view, sh, n)           the view of that sheet showed n cells         *)
(*   Span(sh,c,r,rows,cols)     a cell flagged as merge root, with its span   *)
(*   Spans(sh, n)               number of flagged roots in that sheet         *)
(*   Ref(idx,row,col,digits,..) one conversion by the real A1 codec           *)
(* The guard of Obs is the property: the spec must know a cell with that      *)
(* value whose address is (x,y) plus the view's translation - none for the    *)
(* grid, none for the text of the first sheet and rows only for later sheets  *)
(* (their block starts somewhere below), one per sheet for the tables -       *)
(* and each cell is shown once.                                               *)
EXTENDS Sheet, Json

Trace == ndJsonDeserialize("trace.ndjson")

VARIABLES l, orig, seen
tvars == <<vars, l, orig, seen>>

Ev == Trace[l]

Fresh ==
    /\ off = <<0, 0>> /\ rot = 0 /\ lay = [rowR |-> TRUE, sstRev |-> FALSE, perm |-> <<>>, pad |-> "none", xml |-> "std", valsp |-> "none"]
    /\ cur = 1 /\ nv = 0
    /\ items = << <<>> >> /\ mseq = << <<>> >> /\ grid = << {} >>

TraceInit == Fresh /\ l = 1 /\ orig = {} /\ seen = {}

TraceReset ==
    /\ l <= Len(Trace) /\ Ev.event = "Reset" /\ l' = l + 1
    /\ off' = <<0, 0>> /\ rot' = 0 /\ lay' = [rowR |-> TRUE, sstRev |-> FALSE, perm |-> <<>>, pad |-> "none", xml |-> "std", valsp |-> "none"]
    /\ cur' = 1 /\ nv' = 0
    /\ items' = << <<>> >> /\ mseq' = << <<>> >> /\ grid' = << {} >>
    /\ orig' = {} /\ seen' = {}

TraceMerge ==
    /\ l <= Len(Trace) /\ Ev.event = "Merge" /\ l' = l + 1
    /\ AddMerge(<<Ev.m[1], Ev.m[2], Ev.m[3], Ev.m[4]>>)
    /\ UNCHANGED <<orig, seen>>

TraceWrite ==
    /\ l <= Len(Trace) /\ Ev.event = "Write" /\ l' = l + 1
    /\ WriteCell(Ev.c, Ev.r, Ev.t, Ev.v)
    /\ UNCHANGED <<orig, seen>>

TraceNewSheet ==
    /\ l <= Len(Trace) /\ Ev.event = "NewSheet" /\ l' = l + 1
    /\ NewSheet
    /\ UNCHANGED <<orig, seen>>

\* translations a view may apply to sheet sh
Allowed(view, sh, dc, dr) ==
    CASE view = "grid" -> dc = 0 /\ dr = 0
      [] view = "tsv"  -> dc = 0 /\ (sh = 1 => dr = 0) /\ dr <= 0
      [] view \in {"md", "doc", "tables"} -> dc >= 0 /\ dr >= 0

TraceObs ==
    /\ l <= Len(Trace) /\ Ev.event = "Obs" /\ l' = l + 1
    /\ Ev.sh \in 1..cur
    /\ \E g \in Shown(Ev.sh) :
          /\ g.d = Ev.d
          /\ LET dc == g.c - Ev.x
                 dr == g.r - Ev.y
                 known == {o \in orig : o.view = Ev.view /\ o.sh = Ev.sh}
             IN /\ Allowed(Ev.view, Ev.sh, dc, dr)
                /\ \A o \in known : o.dc = dc /\ o.dr = dr
                /\ orig' = orig \cup {[view |-> Ev.view, sh |-> Ev.sh, dc |-> dc, dr |-> dr]}
          /\ [view |-> Ev.view, sh |-> Ev.sh, c |-> g.c, r |-> g.r] \notin seen
          /\ seen' = seen \cup {[view |-> Ev.view, sh |-> Ev.sh, c |-> g.c, r |-> g.r]}
    /\ UNCHANGED vars

TraceEnd ==
    /\ l <= Len(Trace) /\ Ev.event = "End" /\ l' = l + 1
    /\ Ev.sh \in 1..cur
    /\ Ev.n = Cardinality(Shown(Ev.sh))
    /\ Cardinality({e \in seen : e.view = Ev.view /\ e.sh = Ev.sh}) = Ev.n
    /\ UNCHANGED <<vars, orig, seen>>

\* one conversion by the real codec outside the exhaustively checked range (three-letter
\* columns up to XFD, rows up to 1048576): index -> letters -> index, row -> digits -> row
TraceRef ==
    /\ l <= Len(Trace) /\ Ev.event = "Ref" /\ l' = l + 1
    /\ Ref(Ev.idx, Ev.row) = [col |-> Ev.col, row |-> Ev.digits]
    /\ Deref([col |-> Ev.col, row |-> Ev.digits]) = [c |-> Ev.back, r |-> Ev.prow]
    /\ Ev.back = Ev.idx /\ Ev.prow = Ev.row
    /\ UNCHANGED <<vars, orig, seen>>

\* merge metadata of the grid: a cell the real sheet flags as the root of a merged region
\* with its span (full, or clipped to the populated extent), and per sheet the number of
\* flagged roots = the regions whose top-left cell lies inside the populated extent
Min(a, b) == IF a < b THEN a ELSE b
TraceSpan ==
    /\ l <= Len(Trace) /\ Ev.event = "Span" /\ l' = l + 1
    /\ Ev.sh \in 1..cur
    /\ \E m \in MergeSet(Ev.sh) :
          /\ IsRoot(m, Ev.c, Ev.r)
          /\ Ev.rows \in {SpanRows(m), Min(SpanRows(m), Extent(Ev.sh).r - m[2] + 1)}
          /\ Ev.cols \in {SpanCols(m), Min(SpanCols(m), Extent(Ev.sh).c - m[1] + 1)}
    /\ UNCHANGED <<vars, orig, seen>>

TraceSpans ==
    /\ l <= Len(Trace) /\ Ev.event = "Spans" /\ l' = l + 1
    /\ Ev.sh \in 1..cur
    /\ Ev.n = Cardinality({m \in MergeSet(Ev.sh) : m[1] <= Extent(Ev.sh).c /\ m[2] <= Extent(Ev.sh).r})
    /\ UNCHANGED <<vars, orig, seen>>

TraceNext == TraceSpan \/ TraceSpans \/ TraceRef \/ TraceReset \/ TraceMerge \/ TraceWrite \/ TraceNewSheet \/ TraceObs \/ TraceEnd

TraceSpec == TraceInit /\ [][TraceNext]_tvars

TraceAccepted == TLCGet("stats").diameter - 1 = Len(Trace)
=============================================================================
