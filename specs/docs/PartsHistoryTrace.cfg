SPECIFICATION TraceSpec
CONSTANTS
  OrderBy = "declared"
  Chain = "first"
  Decode = "path"
  Packages = {}
  HPackages = {}
  Calls = {}
  MaxLen = 1000000
  Cache = "pure"
INVARIANTS Purity HeldFaithful
POSTCONDITION TraceAccepted
CHECK_DEADLOCK FALSE
