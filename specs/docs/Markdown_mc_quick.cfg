SPECIFICATION Spec
CONSTANTS
  Cases <- AllCases
  Expand <- McExpand
  Esc = "escape"
  Header = "first"
  Merge = "grid"
  Sep = "each"
  Dedup = "none"
  Width = "widest"
  MaxSpecial = 1
  FullCells = 3
  MaxRepeat = 3
INVARIANTS TypeOK RoundTrip HeadingLevelOK
PROPERTIES PrefixStable Terminates
CONSTRAINT EmitCase
CHECK_DEADLOCK FALSE
