---- MODULE LayoutConserveMC ----
(* (1) lemma check over a small universe; (2) generator of abstract pages. *)
EXTENDS LayoutConserve, Json

\* ---------- (1) lemma: if gs is a conserving partition of F and pi partitions its
\* index set, then Regroup(gs, pi) conserves F too
CONSTANT U
Parts(S) == {P \in SUBSET (SUBSET S \ {{}}) : (UNION P = S) /\ \A a, b \in P : a # b => a \cap b = {}}
AsSeq(P) == CHOOSE s \in [1..Cardinality(P) -> P] : \A i, j \in 1..Cardinality(P) : i # j => s[i] # s[j]
Lemma == \A P \in Parts(U) : LET gs == AsSeq(P) IN
            \A Q \in Parts(1..Len(gs)) : LET rg == Regroup(gs, AsSeq(Q)) IN Disjoint(rg) /\ Flat(rg) = U
ASSUME Lemma

\* ---------- (2) page generator
VARIABLES pg
PageSpace == [cols : 1..3, rows : 2..4, fill : {"full", "ragged", "sparse"},
              feature : {"none", "stickout", "tinyline", "title", "headingcol", "bullets", "duplayer", "charlevel", "fineprint", "widetitle", "marginnums", "footmark",
                         "scale10", "scale01", "inverted", "offsetbox", "rtl", "spaceonly", "shortlast", "justified", "repeatword", "nestedbullets", "numbered", "itemlist", "nestedlist",
                         "hyphenated", "softhyphen", "dashend",
                         "midspan", "footspan", "narrowcols", "midmark", "headingcol2"}]       \* a full-width line between the rows of the body / under it with a page number below; nothing but narrow columns    \* lines of a paragraph ending in a hyphen / soft hyphen / dash: characters like any other
GInit == pg \in PageSpace /\ Init
GNext == UNCHANGED <<pg, vars>> /\ FALSE
GSpec == GInit /\ [][GNext]_<<pg, vars>>
\* slots present on the page
Present(p, c, r) == CASE p.fill = "full" -> TRUE
                      [] p.fill = "ragged" -> ~(c = p.cols /\ r = p.rows)
                      [] p.fill = "sparse" -> (c + r) % 2 = 0
Slots(p) == {<<c, r>> \in (1..p.cols) \X (1..p.rows) : Present(p, c, r)}
Emit == PrintT(ToJson([page |-> pg, slots |-> Slots(pg)]))
====
