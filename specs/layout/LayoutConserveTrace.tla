---- MODULE LayoutConserveTrace ----
(* Events: {"event":"Page","n":n,"dups":[ids]}                                         *)
(*         {"event":"Stage","name":s,"groups":[[ids],..]}                              *)
(*         {"event":"Render","mode":m,"cnt":[c1,..,cn]}   (counts per original fragment) *)
EXTENDS LayoutConserve, Json
Trace == ndJsonDeserialize("trace.ndjson")
VARIABLE l
Ev == Trace[l]
SetOf(s) == {s[i] : i \in 1..Len(s)}
TraceInit == Init /\ l = 1
TracePage == /\ l <= Len(Trace) /\ Ev.event = "Page" /\ l' = l + 1 /\ Page(Ev.n, IF "dups" \in DOMAIN Ev THEN Ev.dups ELSE <<>>, IF "opt" \in DOMAIN Ev THEN SetOf(Ev.opt) ELSE {}, Ev.cls)
TraceStage == /\ l <= Len(Trace) /\ Ev.event = "Stage" /\ l' = l + 1
              /\ Stage(Ev.name, [i \in 1..Len(Ev.groups) |-> SetOf(Ev.groups[i])])
TraceRender == /\ l <= Len(Trace) /\ Ev.event = "Render" /\ l' = l + 1
               /\ Len(Ev.cnt) = Cardinality(F \ Dup) /\ Render(Ev.mode, Ev.cnt)
TraceSpec == TraceInit /\ [][TracePage \/ TraceStage \/ TraceRender]_<<vars, l>>
TraceAccepted == TLCGet("stats").diameter - 1 = Len(Trace)
====
