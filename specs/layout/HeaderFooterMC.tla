---- MODULE HeaderFooterMC ----
EXTENDS HeaderFooter, Json
Case == [flags |-> flags, opt |-> opt, doc |-> doc,
         allowed |-> [p \in 1..Len(doc) |-> Allowed(p)], mandatory |-> [p \in 1..Len(doc) |-> Mandatory(p)]]
Emit == PrintT(ToJson(Case))
====
