SPECIFICATION GSpec
CONSTANTS U = {1, 2, 3, 4}
CONSTRAINT Emit
CHECK_DEADLOCK FALSE
