----------------------------- MODULE LayoutConserve -----------------------------
(***************************************************************************)
(* Layout analysis only regroups and orders text.  A page is a finite set  *)
(* F of fragment ids; Dup \subseteq F are exact duplicates (same text,     *)
(* same origin) of other fragments - the one removal the library sanctions.*)
(* Every analysis stage (lines, columns, paragraphs, blocks, reading       *)
(* order, elements) yields groups of fragments; every rendering (text      *)
(* modes, element texts) yields a multiset of fragment texts.  The spec    *)
(* does not say HOW to group - the heuristics are free - the guard of each *)
(* action says the result conserves the page:                              *)
(*   Stage(name, gs):  the groups are pairwise disjoint, contain only      *)
(*                     fragments of F, and cover F \ D for some D in Dup   *)
(*   Render(mode, cnt): cnt[f] = 1 for f outside Dup and its original,     *)
(*                     and a duplicated text appears once or twice         *)
(***************************************************************************)
EXTENDS Integers, Sequences, FiniteSets, TLC

VARIABLES F, Dup, Opt, orig, cls, done
vars == <<F, Dup, Opt, orig, cls, done>>
\* cls[f] = text class of f: fragments with identical text (a word occurring twice on the page) share a class
\* Opt = fragments consisting of white space only: white space is free, they may vanish
\* orig[d] = the fragment that d duplicates (for d in Dup)

Init == F = {} /\ Dup = {} /\ Opt = {} /\ orig = <<>> /\ cls = <<>> /\ done = {}

Page(n, dups, opt, classes) ==             \* a new page: fragments 1..n, then the duplicates: fragment n+i duplicates dups[i]
    /\ F' = 1..(n + Len(dups))
    /\ Dup' = {n + i : i \in 1..Len(dups)} /\ Opt' = opt
    /\ orig' = [d \in 1..(n + Len(dups)) |-> IF d > n THEN dups[d - n] ELSE d]
    /\ cls' = classes /\ done' = {}

Flat(gs) == UNION {gs[i] : i \in 1..Len(gs)}
Disjoint(gs) == \A i, j \in 1..Len(gs) : i # j => gs[i] \cap gs[j] = {}

\* the guard IS the property
StageOK(gs) == /\ Disjoint(gs) /\ Flat(gs) \subseteq F /\ (F \ (Dup \cup Opt)) \subseteq Flat(gs)

Stage(name, gs) == /\ StageOK(gs) /\ done' = done \cup {name} /\ UNCHANGED <<F, Dup, Opt, orig, cls>>

\* cnt[f] for f in F \ Dup = how many times the TEXT of f occurs in the output
Twins(f) == {d \in Dup : orig[d] = f}
Mates(f) == {g \in F \ Dup : cls[g] = cls[f]}                       \* fragments showing the same text (incl. f)
TwinsOfMates(f) == UNION {Twins(g) : g \in Mates(f)}
RenderOK(cnt) == \A f \in F \ (Dup \cup Opt) : cnt[f] >= Cardinality(Mates(f))
                                               /\ cnt[f] <= Cardinality(Mates(f)) + Cardinality(TwinsOfMates(f))
Render(mode, cnt) == /\ RenderOK(cnt) /\ done' = done \cup {mode} /\ UNCHANGED <<F, Dup, Opt, orig, cls>>

\* ---- composition lemma (checked by TLC on a small universe): partition stages
\* compose - regrouping the groups of a conserving stage conserves the page
Regroup(gs, pi) == [i \in 1..Len(pi) |-> UNION {gs[j] : j \in pi[i]}]
================================================================================
