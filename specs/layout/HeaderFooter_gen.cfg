SPECIFICATION Spec
INVARIANTS MandatoryIsAllowed NoRepetitionNothingAllowed BodyNeverAllowed
CONSTRAINT Emit
CHECK_DEADLOCK FALSE
