------------------------------ MODULE HeaderFooter ------------------------------
(***************************************************************************)
(* Header / footer exclusion as a contract.  A document is a sequence of   *)
(* pages; a page is a sequence of fragments                                *)
(*    [band |-> "Top"|"Body"|"Bottom", slot |-> position class,            *)
(*     key  |-> text class modulo digits, num |-> is a page-number pattern] *)
(* Excluding headers/footers may only DELETE fragments (order kept).  The  *)
(* property is the guard of Filter:                                        *)
(*   allowed   a removed fragment lies in a margin band and (its key       *)
(*             repeats at the same band+slot on another page, or it is a   *)
(*             page-number pattern)                                        *)
(*   mandatory a margin line present at the same band+slot with the same   *)
(*             key on EVERY page (>= 2 pages), and running page numbers,   *)
(*             are removed from every page - for the requested band(s)     *)
(*   nothing in the Body band, nothing in a document without repetition.   *)
(***************************************************************************)
EXTENDS Integers, Sequences, FiniteSets, TLC

VARIABLES flags, doc, opt
vars == <<flags, doc, opt>>

\* ----- document generator: document-level choices ---------------------
FlagSpace == [ np     : 1..4,                       \* pages
               hdr    : {"none", "all", "oddeven"}, \* running header
               num    : {"none", "pageN", "bare"},  \* page number footer
               foot   : BOOLEAN,                    \* running footer line
               brep   : BOOLEAN,                    \* body line repeating on every page at the same place
               bnum   : BOOLEAN,                    \* purely numeric body line
               beqh   : BOOLEAN,                    \* body line whose text equals the header text
               title  : {"none", "once", "twice"},  \* a top-band line found on page 1 only; "twice": drawn twice at the same
                                                    \* place (emboldening by overprinting) - still on no other page
               drift  : {"none", "x", "y"},         \* the same top-band word on every page, but never twice at one place:
                                                    \* same height and another x on each page / same x and another height
               hnum   : BOOLEAN,                    \* the running header carries a number that is not a page number ("... 2024")
               grid   : BOOLEAN,                    \* the last page is a column of 40 one-digit cells: its fragments average
                                                    \* <= 2 characters (a "character-level" page) while the other pages do not
               short  : BOOLEAN,                    \* last page has little content (content bounds << page)
               cover  : BOOLEAN,                    \* page 1 is a cover: no running header, footer line or page number
               wide   : BOOLEAN ]                   \* ... and the cover is a landscape page: the pages of a document need not share one
                                                    \* size, and a page's margin bands are those of ITS OWN height

\* keys: 1 header A, 2 header B (11, 12: the same with a constant number in the text), 3 "Page #", 4 "#", 5 footer line, 6 repeating body line, 7 title,
\*       8 drifting word, 100+p*10+i unique body lines
F(b, s, k, n) == [band |-> b, slot |-> s, key |-> k, num |-> n]

HKey(fl, k) == IF fl.hnum THEN 10 + k ELSE k
PageOf(fl, p) ==
    (IF fl.title # "none" /\ p = 1 THEN <<F("Top", 2, 7, FALSE)>> ELSE <<>>)
    \o (IF fl.title = "twice" /\ p = 1 THEN <<F("Top", 2, 7, FALSE)>> ELSE <<>>)
    \o (CASE fl.cover /\ p = 1 -> <<>>
          [] fl.hdr = "all" -> <<F("Top", 1, HKey(fl, 1), FALSE)>>
          [] fl.hdr = "oddeven" -> <<F("Top", 1, IF p % 2 = 1 THEN HKey(fl, 1) ELSE HKey(fl, 2), FALSE)>>
          [] OTHER -> <<>>)
    \o (IF fl.drift = "x" THEN <<F("Top", 10 + p, 8, FALSE)>> ELSE IF fl.drift = "y" THEN <<F("Top", 20 + p, 8, FALSE)>> ELSE <<>>)
    \* on a short page the body lines sit right below the top band
    \o (IF fl.beqh THEN <<F("Body", IF fl.short /\ p = fl.np THEN 9 ELSE 3, HKey(fl, 1), FALSE)>> ELSE <<>>)
    \o (IF fl.bnum THEN <<F("Body", IF fl.short /\ p = fl.np THEN 8 ELSE 4, 4, TRUE)>> ELSE <<>>)
    \o (IF fl.grid /\ p = fl.np /\ fl.np >= 2 THEN [k \in 1..40 |-> F("Body", 100 + k, 200 + (k % 10), TRUE)]
        ELSE IF fl.short /\ p = fl.np THEN <<>> ELSE <<F("Body", 5, 100 + p * 10 + 1, FALSE), F("Body", 6, 100 + p * 10 + 2, FALSE)>>)
    \o (IF fl.brep THEN <<F("Body", 7, 6, FALSE)>> ELSE <<>>)
    \o (IF fl.foot /\ ~(fl.cover /\ p = 1) THEN <<F("Bottom", 1, 5, FALSE)>> ELSE <<>>)
    \o (CASE fl.cover /\ p = 1 -> <<>>
          [] fl.num = "pageN" -> <<F("Bottom", 2, 3, TRUE)>> [] fl.num = "bare" -> <<F("Bottom", 2, 4, TRUE)>> [] OTHER -> <<>>)

DocOf(fl) == [p \in 1..fl.np |-> PageOf(fl, p)]

Init == /\ flags \in {f \in FlagSpace : (f.wide => (f.cover /\ f.np >= 3 /\ ~f.grid /\ f.drift = "none")) /\ (f.hnum => (f.hdr # "none" /\ ~f.grid /\ ~f.brep /\ ~f.bnum /\ f.drift = "none" /\ f.title = "none")) /\ (f.grid => (f.np >= 2 /\ ~f.short /\ ~f.brep /\ ~f.bnum /\ ~f.beqh /\ f.drift = "none"))} /\ doc = DocOf(flags) /\ opt \in {"headers", "footers", "both"}
Next == FALSE /\ UNCHANGED vars
Spec == Init /\ [][Next]_vars

\* ----- the contract ----------------------------------------------------
Frags(p) == 1..Len(doc[p])
Same(f, g) == f.band = g.band /\ f.slot = g.slot /\ f.key = g.key
RepeatsAtPosition(p, i) == \E q \in 1..Len(doc) : q # p /\ \E j \in Frags(q) : Same(doc[p][i], doc[q][j])
OnEveryPage(p, i) == Len(doc) >= 2 /\ \A q \in 1..Len(doc) : \E j \in Frags(q) : Same(doc[p][i], doc[q][j])
\* running page numbers: a page-number pattern at the same margin position on every page,
\* where an unnumbered first page (a cover) does not stop the numbers from running (at least 3 numbered pages)
RunningNumber(p, i) == /\ doc[p][i].num /\ Len(doc) >= 4
                       /\ \A q \in 2..Len(doc) : \E j \in Frags(q) : Same(doc[p][i], doc[q][j])
Requested(b) == (b = "Top" /\ opt \in {"headers", "both"}) \/ (b = "Bottom" /\ opt \in {"footers", "both"})

Allowed(p)   == {i \in Frags(p) : doc[p][i].band # "Body" /\ (RepeatsAtPosition(p, i) \/ doc[p][i].num)}
Mandatory(p) == {i \in Frags(p) : doc[p][i].band # "Body" /\ Requested(doc[p][i].band) /\ (OnEveryPage(p, i) \/ RunningNumber(p, i))}

\* Filter(p, removed) is a legal result for page p iff ...
FilterOK(p, removed) == /\ removed \subseteq Allowed(p) /\ Mandatory(p) \subseteq removed

\* sanity of the contract itself
MandatoryIsAllowed == \A p \in 1..Len(doc) : Mandatory(p) \subseteq Allowed(p)
NoRepetitionNothingAllowed ==
    (\A p \in 1..Len(doc) : \A i \in Frags(p) : ~RepeatsAtPosition(p, i) /\ ~doc[p][i].num) => \A p \in 1..Len(doc) : Allowed(p) = {}
BodyNeverAllowed == \A p \in 1..Len(doc) : \A i \in Allowed(p) : doc[p][i].band # "Body"
==================================================================================
