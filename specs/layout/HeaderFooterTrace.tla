---- MODULE HeaderFooterTrace ----
(* Events: {"event":"Doc","flags":{..},"opt":o} then per page {"event":"Filter","p":p,"removed":[ids]}. *)
(* A Filter event is accepted iff FilterOK(p, removed): the guard is the property.                     *)
EXTENDS HeaderFooter, Json
Trace == ndJsonDeserialize("trace.ndjson")
VARIABLE l
Ev == Trace[l]
TraceInit == l = 1 /\ flags = [np |-> 1, hdr |-> "none", num |-> "none", foot |-> FALSE, brep |-> FALSE, bnum |-> FALSE, beqh |-> FALSE, title |-> "none", drift |-> "none", grid |-> FALSE, hnum |-> FALSE, short |-> FALSE, cover |-> FALSE]
             /\ doc = DocOf(flags) /\ opt = "both"
TraceDoc == /\ l <= Len(Trace) /\ Ev.event = "Doc" /\ l' = l + 1
            /\ flags' = Ev.flags /\ doc' = DocOf(Ev.flags) /\ opt' = Ev.opt
TraceFilter == /\ l <= Len(Trace) /\ Ev.event = "Filter" /\ l' = l + 1
               /\ Ev.p \in 1..Len(doc)
               /\ FilterOK(Ev.p, {Ev.removed[i] : i \in 1..Len(Ev.removed)})
               /\ UNCHANGED vars
TraceSpec == TraceInit /\ [][TraceDoc \/ TraceFilter]_<<vars, l>>
TraceAccepted == TLCGet("stats").diameter - 1 = Len(Trace)
====
