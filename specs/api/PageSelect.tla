------------------------------ MODULE PageSelect ------------------------------
(***************************************************************************)
(* Page selection algebra of the fluent API.  A selection is spelled by a  *)
(* sequence of builder calls Pages(p1, .., pk) and PageRange(a, b); its    *)
(* meaning is the SET of pages named.  For a document of N pages:          *)
(*   - any named page outside 1..N  => the terminal operation fails,       *)
(*   - otherwise the result is the per-page results of the selected pages  *)
(*     in ascending page order (duplicates and order of spelling are       *)
(*     irrelevant), and page-level metadata names the true source page.    *)
(* The statement fixes nothing for an EMPTY selection (Pages(), a reversed *)
(* range): any of {all pages, no pages, error} is accepted, but every      *)
(* spelling of the empty selection must behave the same, and an empty call *)
(* composed with a non-empty one selects exactly the non-empty part.       *)
(***************************************************************************)
EXTENDS Integers, Sequences, FiniteSets, TLC

CONSTANTS N, MaxCalls, ArgVals, MaxArgs

VARIABLES calls
vars == <<calls>>

\* a call: [k |-> "pages", a |-> <<p1,..>>]  or  [k |-> "range", a |-> <<lo, hi>>]
ArgSeqs == UNION {[1..n -> ArgVals] : n \in 0..MaxArgs}
CallSpace == {[k |-> "pages", a |-> s] : s \in ArgSeqs} \cup {[k |-> "range", a |-> <<lo, hi>>] : lo \in ArgVals, hi \in ArgVals}

Named(c) == IF c.k = "pages" THEN {c.a[i] : i \in 1..Len(c.a)} ELSE {p \in ArgVals \cup (c.a[1]..c.a[2]) : p >= c.a[1] /\ p <= c.a[2]}
Sel(cs)  == UNION {Named(cs[i]) : i \in 1..Len(cs)}

RECURSIVE SortedSeq(_)
SortedSeq(S) == IF S = {} THEN <<>> ELSE LET m == CHOOSE x \in S : \A y \in S : x <= y IN <<m>> \o SortedSeq(S \ {m})

Expected(cs) ==
    LET s == Sel(cs) IN
    IF \E p \in s : p < 1 \/ p > N THEN [outcome |-> "error", pages |-> <<>>]
    ELSE IF s = {} THEN [outcome |-> "unspecified", pages |-> <<>>]
    ELSE [outcome |-> "pages", pages |-> SortedSeq(s)]

Init == calls = <<>>
AddCall == /\ Len(calls) < MaxCalls /\ \E c \in CallSpace : calls' = Append(calls, c)
Spec == Init /\ [][AddCall]_vars

\* algebra: the meaning is invariant under permutation and duplication of calls
Commutes == \A i, j \in 1..Len(calls) :
               LET sw == [calls EXCEPT ![i] = calls[j], ![j] = calls[i]] IN Expected(sw) = Expected(calls)
Idempotent == calls # <<>> => Expected(calls \o <<calls[1]>>) = Expected(calls)
Ascending == LET e == Expected(calls) IN \A i \in 1..(Len(e.pages) - 1) : e.pages[i] < e.pages[i + 1]
===============================================================================
