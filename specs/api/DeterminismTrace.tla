-------------------------- MODULE DeterminismTrace --------------------------
(* Validates a recorded history of extractions: events                       *)
(*   {"event":"Begin","doc":d,"op":o,"g":g}                                  *)
(*   {"event":"Observe","doc":d,"op":o,"g":g,"hash":h}                       *)
(*   {"event":"Race"}      (never accepted)                                  *)
EXTENDS Integers, Sequences, FiniteSets, TLC, Json

Trace == ndJsonDeserialize("trace.ndjson")

None == "none"
Idx  == 1..Len(Trace)
Doc  == {Trace[i].doc : i \in {j \in Idx : Trace[j].event # "Race"}}
Op   == {Trace[i].op : i \in {j \in Idx : Trace[j].event # "Race"}}
Hash == {Trace[i].hash : i \in {j \in Idx : Trace[j].event = "Observe"}}

VARIABLES memo, inflight, nobs, l
D == INSTANCE Determinism

Ev == Trace[l]

TraceInit == D!Init /\ l = 1

TraceBegin ==
    /\ l <= Len(Trace) /\ Ev.event = "Begin" /\ l' = l + 1
    /\ D!Begin(Ev.doc, Ev.op, Ev.g)

TraceObserve ==
    /\ l <= Len(Trace) /\ Ev.event = "Observe" /\ l' = l + 1
    /\ D!Observe(Ev.doc, Ev.op, Ev.g, Ev.hash)

TraceNext == TraceBegin \/ TraceObserve      \* no action consumes a "Race" event

TraceSpec == TraceInit /\ [][TraceNext]_<<memo, inflight, nobs, l>>

TraceAccepted == TLCGet("stats").diameter - 1 = Len(Trace)
=============================================================================
