---- MODULE PageSelectMC ----
EXTENDS PageSelect, Json
Emit == PrintT(ToJson([calls |-> calls, n |-> N, expected |-> Expected(calls)]))
\* the same selections under every combination of per-page options: the expected pages do not depend on the
\* options, and the result of page p under options o is whatever the whole document gives for page p under o
CONSTANT OptSets
OptSetsMC == { <<>>, <<"xh">>, <<"xf">>, <<"xhf">>, <<"col">>, <<"join">>, <<"layout">>, <<"xh", "col">>, <<"xhf", "join">>, <<"xf", "layout">> }
EmitO == \A o \in OptSets : PrintT(ToJson([calls |-> calls, n |-> N, opts |-> o, expected |-> Expected(calls)]))
\* ... and spelled more than once, through every terminal operation that renders whole pages: a selection repeated r
\* times names the same pages (Idempotent), whatever its spelled length is compared with the document's page count,
\* and every operation has its own page loop and its own header/footer pass
CONSTANT Reps, Vias
ViasMC == {"text", "markdown", "fragments", "lines", "paragraphs", "readingorder", "analyze", "blocks", "elements", "document"}
RECURSIVE Repeat(_, _)
Repeat(cs, r) == IF r = 0 THEN <<>> ELSE cs \o Repeat(cs, r - 1)
EmitR == \A o \in OptSets, r \in Reps, v \in Vias :
            (r > 1 \/ v # "text") => PrintT(ToJson([calls |-> Repeat(calls, r), n |-> N, opts |-> o, via |-> v, expected |-> Expected(Repeat(calls, r))]))
RepeatIsIdempotent == \A r \in Reps : Expected(Repeat(calls, r)) = Expected(calls) \/ calls = <<>>
====
