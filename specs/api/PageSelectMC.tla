---- MODULE PageSelectMC ----
EXTENDS PageSelect, Json
Emit == PrintT(ToJson([calls |-> calls, n |-> N, expected |-> Expected(calls)]))
\* the same selections under every combination of per-page options: the expected pages do not depend on the
\* options, and the result of page p under options o is whatever the whole document gives for page p under o
CONSTANT OptSets
OptSetsMC == { <<>>, <<"xh">>, <<"xf">>, <<"xhf">>, <<"col">>, <<"join">>, <<"layout">>, <<"xh", "col">>, <<"xhf", "join">>, <<"xf", "layout">> }
EmitO == \A o \in OptSets : PrintT(ToJson([calls |-> calls, n |-> N, opts |-> o, expected |-> Expected(calls)]))
====
