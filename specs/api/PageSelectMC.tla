---- MODULE PageSelectMC ----
EXTENDS PageSelect, Json
Emit == PrintT(ToJson([calls |-> calls, n |-> N, expected |-> Expected(calls)]))
====
