---------------------------- MODULE LifecycleTrace ----------------------------
(* Events recorded from real tabula.Extractor values:                           *)
(*   {"event":"derive"|"pagecount"|"text"|"close","e":i,"kind":k,"pages":[..],"res":r,"open":k} *)
(* plus {"event":"reset"} between histories.  An event is accepted iff the      *)
(* specification's action for it yields the logged result class and the number  *)
(* of open descriptors does not exceed the number the specification accounts for *)
EXTENDS Lifecycle, Json
Trace == ndJsonDeserialize("trace.ndjson")
VARIABLE l
Ev == Trace[l]
TraceInit == Init /\ l = 1
TraceReset == /\ l <= Len(Trace) /\ Ev.event = "reset" /\ l' = l + 1
              /\ ext' = << [reader |-> 0, owns |-> FALSE, opened |-> FALSE, arr |-> 1, len |-> 0] >>
              /\ arrays' = <<EmptyArr>>
              /\ handles' = {} /\ nextH' = 1 /\ log' = <<>>
Last == log'[Len(log')]
TraceOp == /\ l <= Len(Trace) /\ Ev.event # "reset" /\ l' = l + 1 /\ Ev.e <= Len(ext)
           /\ \/ (Ev.event = "derive" /\ Derive(Ev.e, Ev.kind))
              \/ (Ev.event = "pagecount" /\ NonTerminal(Ev.e, Ev.kind))
              \/ (Ev.event = "text" /\ Terminal(Ev.e, Ev.kind))
              \/ (Ev.event = "close" /\ Close(Ev.e))
           /\ Last.res = Ev.res /\ Ev.open <= Last.open
           /\ (Ev.event = "text" /\ Ev.res = "ok") => Last.pages = Ev.pages
TraceSpec == TraceInit /\ [][TraceReset \/ TraceOp]_<<vars, l>>
TraceAccepted == TLCGet("stats").diameter - 1 = Len(Trace)
===============================================================================
