SPECIFICATION Spec
CONSTANTS
  Doc = {"d1", "d2"}
  Op = {"text", "md"}
  Hash = {"h1", "h2"}
  None = "none"
INVARIANT TypeOK
PROPERTY Stable
CONSTRAINT Bound
CHECK_DEADLOCK FALSE
