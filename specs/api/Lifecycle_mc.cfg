SPECIFICATION Spec
CONSTANTS
  MaxExt = 3
  MaxOps = 5
  Mode = "own"
INVARIANTS DeriveIsPure OneOwner QuiescentReleased
CHECK_DEADLOCK FALSE
