SPECIFICATION TraceSpec
CONSTANTS
  MaxExt = 1000
  MaxOps = 1000000
  Mode = "own"
  NP = 6
  Terminals = {"text", "markdown", "mdopts", "fragments", "lines", "paragraphs", "readingorder", "analyze", "headings", "lists", "blocks", "elements", "document", "chunks", "chunkscfg"}
  NonTerminals = {"pagecount", "ischarlevel", "ismulticol"}
INVARIANTS DeriveIsPure OneOwner
POSTCONDITION TraceAccepted
CHECK_DEADLOCK FALSE
