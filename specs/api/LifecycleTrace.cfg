SPECIFICATION TraceSpec
CONSTANTS
  MaxExt = 1000
  MaxOps = 1000000
  Mode = "own"
  NP = 6
INVARIANTS DeriveIsPure OneOwner
POSTCONDITION TraceAccepted
CHECK_DEADLOCK FALSE
