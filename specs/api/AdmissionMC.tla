---- MODULE AdmissionMC ----
EXTENDS Admission, Json
Emit == PrintT(ToJson([mode |-> mode, kind |-> kind, ext |-> ext, ecase |-> ecase, order |-> order,
                       decoy |-> IF RealDecoy THEN decoy ELSE "none", epub |-> epub, tgt |-> tgt, then |-> then, conf |-> conf, expected |-> Expected]))
====
