------------------------------- MODULE Admission -------------------------------
(***************************************************************************)
(* Files are admitted by content.  Decision tables:                        *)
(*  Detect(content, layout)  the format named for the bytes is the format  *)
(*                           of the content, whatever the ZIP member order *)
(*                           and whatever unreferenced decoy members of    *)
(*                           other formats the archive carries             *)
(*  Admit(content, ext)      own extension (any letter case) => opens;     *)
(*                           another supported extension => refused;       *)
(*                           no / unknown extension: only Detect is fixed  *)
(*  Drm(epub)                rights file => refused; a content document    *)
(*                           (spine item) encrypted with anything other    *)
(*                           than font obfuscation => refused; only        *)
(*                           obfuscated fonts => opens; other combinations *)
(*                           are not fixed by the statement                *)
(***************************************************************************)
EXTENDS Integers, Sequences, FiniteSets, TLC

Kinds == {"pdf", "docx", "odt", "xlsx", "pptx", "html", "epub"}
Zips  == {"docx", "odt", "xlsx", "pptx", "epub"}
Exts  == Kinds \cup {"htm", "none", "dat"}
OwnExt(k, e) == e = k \/ (k = "html" /\ e = "htm")
Supported(e) == e \in Kinds \cup {"htm"}

VARIABLES mode, kind, ext, ecase, order, decoy, epub, tgt, then, conf
vars == <<mode, kind, ext, ecase, order, decoy, epub, tgt, then, conf>>
Ooxml == {"docx", "xlsx", "pptx"}

\* an EPUB for the DRM table: which resources are listed in encryption.xml and how
Algos == {"idpf-obf", "adobe-obf", "aes128", "aes256", "unknown"}
EpubSpace == [ rights : BOOLEAN,
               enc    : SUBSET {"ch1", "ch2", "ch3", "nav", "font", "font2", "font3", "img"},   \* ch3 = spine item declared as image/svg+xml (an SVG content document, *.svg); ch1 = spine item *.xhtml, ch2 = spine item with an
                                                                                        \* unusual suffix, nav = the navigation document (a content
                                                                                        \* document that is not in the spine)
               rev    : BOOLEAN,                                                        \* entries of encryption.xml in reverse order
               algo   : Algos,
               uri    : {"plain", "upper", "dotslash"},
               rfirst : BOOLEAN ]                       \* archive order of rights.xml relative to encryption.xml
NoEpub == [rights |-> FALSE, enc |-> {}, algo |-> "aes128", uri |-> "plain", rfirst |-> TRUE, rev |-> FALSE]

Init == \/ /\ mode = "admit" /\ kind \in Kinds /\ ext \in Exts /\ ecase \in {"lower", "upper", "mixed"}
           \* "mimelast": the "mimetype" member of an ODF / EPUB package written last instead of first (what zip tools that
           \* sort or append produce); the other orders keep it first
           /\ order \in (IF kind \in Zips THEN {"canonical", "reversed", "decoyfirst"} \cup (IF kind \in {"odt", "epub"} THEN {"mimelast", "mimelast-decoyfirst"} ELSE {})
                          ELSE {"canonical"})
           \* "x+rels": the stray main part of an OOXML format together with a package relationship file naming it, inside an
           \* ODF / EPUB package (whose mimetype member says what it is; without [Content_Types].xml it is no OOXML package)
           \* "magic-x": the signature bytes of ANOTHER format somewhere behind the start of the file, inside the window a
           \* detector sniffs ("%PDF-1.7" in an HTML title or in a stored first member of a package, "<html>" in a stored member,
           \* "PK\x03\x04" in an HTML comment): a signature identifies a format only where that format puts it
           /\ decoy \in (IF kind \in Zips THEN {"none", "word", "xl", "ppt", "magic-pdf", "magic-html"} \cup (IF kind \in {"odt", "epub"} THEN {"word+rels", "xl+rels", "ppt+rels"} ELSE {})
                          ELSE IF kind = "html" THEN {"none", "magic-pdf", "magic-zip"} ELSE {"none"})
           /\ epub = NoEpub
           \* how the package relationship names the main part of an OOXML document: relative ("xl/workbook.xml"),
           \* absolute ("/xl/workbook.xml") or with a dot segment ("./xl/workbook.xml") - all three are the same part
           /\ tgt \in (IF kind \in Ooxml THEN {"rel", "abs", "dot"} ELSE {"rel"}) /\ then = "none"
           \* the conformance class of a workbook or deck: Transitional, or ISO/IEC 29500 Strict (purl.oclc.org namespaces and
           \* relationship types, also for the package relationship that names the main part)
           /\ conf \in (IF kind \in {"xlsx", "pptx"} THEN {"transitional", "strict"} ELSE {"transitional"})
        \* "rewrite": the file is admitted (or refused) once, then the bytes under the SAME name are replaced by a document
        \* of kind `then` and it is opened again: each decision depends on the bytes the name holds at that moment
        \/ /\ mode = "rewrite" /\ kind \in Kinds /\ then \in Kinds /\ then # kind /\ ext \in Kinds \cup {"htm"}
           /\ ecase = "lower" /\ order = "canonical" /\ decoy = "none" /\ epub = NoEpub /\ tgt = "rel" /\ conf = "transitional"
        \/ /\ mode = "drm" /\ kind = "epub" /\ ext = "epub" /\ ecase = "lower" /\ order = "canonical" /\ decoy = "none" /\ tgt = "rel" /\ then = "none" /\ conf = "transitional"
           /\ epub \in {e \in EpubSpace : ((e.rights /\ e.enc # {}) \/ e.rfirst) /\ (e.rev => Cardinality(e.enc) >= 2)}      \* the order only exists when both files do
Next == FALSE /\ UNCHANGED vars
Spec == Init /\ [][Next]_vars

\* a decoy that is the format's own main directory is not a decoy
RealDecoy == decoy # "none" /\ ~((decoy = "word" /\ kind = "docx") \/ (decoy = "xl" /\ kind = "xlsx") \/ (decoy = "ppt" /\ kind = "pptx"))

Obf(a) == a \in {"idpf-obf", "adobe-obf"}
ContentDocs == {"ch1", "ch2", "ch3", "nav"}
DrmVerdict(e) ==
    IF e.rights THEN "refused"
    ELSE IF e.enc = {} THEN "opens"
    ELSE IF ~Obf(e.algo) /\ (e.enc \cap ContentDocs) # {} THEN "refused"
    ELSE IF Obf(e.algo) /\ e.enc \subseteq {"font", "font2", "font3"} THEN "opens"
    ELSE "unspecified"

OpenVerdict(k, e) == IF OwnExt(k, e) THEN "opens" ELSE IF Supported(e) THEN "refused" ELSE "unspecified"
Expected ==
    IF mode = "drm" THEN [detect |-> "epub", open |-> DrmVerdict(epub), open2 |-> "none"]
    ELSE [detect |-> kind, open |-> OpenVerdict(kind, ext),
          open2 |-> IF mode = "rewrite" THEN OpenVerdict(then, ext) ELSE "none"]

\* sanity: the table is total and refusal / admission never coincide
TypeOK == Expected.open \in {"opens", "refused", "unspecified"}
OwnAlwaysOpens == (mode = "admit" /\ OwnExt(kind, ext)) => Expected.open = "opens"
================================================================================
