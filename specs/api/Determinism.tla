----------------------------- MODULE Determinism -----------------------------
(***************************************************************************)
(* Extraction is a function of (document bytes, options, operation).       *)
(* memo remembers the first observed result of every (doc, op); a later    *)
(* observation is only possible if it equals the remembered one - alone,   *)
(* after other extractions, after failing inputs, or concurrently.  A data *)
(* race reported by the Go race detector is never an allowed step.         *)
(***************************************************************************)
EXTENDS Integers, Sequences, FiniteSets, TLC

CONSTANTS Doc, Op, Hash, None

VARIABLES memo, inflight, nobs

vars == <<memo, inflight, nobs>>

Init == /\ memo = [k \in Doc \X Op |-> None]
        /\ inflight = {}                \* extractions currently running (any number, any docs)
        /\ nobs = 0

\* an extraction of d starts on some goroutine while others may be in flight
Begin(d, o, g) ==
    /\ \A x \in inflight : x[3] # g
    /\ inflight' = inflight \cup {<<d, o, g>>}
    /\ UNCHANGED <<memo, nobs>>

\* ... and returns h: allowed only if h is THE result of (d, o)
Observe(d, o, g, h) ==
    /\ <<d, o, g>> \in inflight
    /\ memo[<<d, o>>] \in {None, h}
    /\ memo' = [memo EXCEPT ![<<d, o>>] = h]
    /\ inflight' = inflight \ {<<d, o, g>>}
    /\ nobs' = nobs + 1

Next == \E d \in Doc, o \in Op, g \in 1..2 :
           \/ Begin(d, o, g)
           \/ \E h \in Hash : Observe(d, o, g, h)

Spec == Init /\ [][Next]_vars

\* the observable consequence: once known, a result never changes
Stable == [][\A k \in Doc \X Op : memo[k] # None => memo'[k] = memo[k]]_vars
TypeOK == memo \in [Doc \X Op -> Hash \cup {None}]
=============================================================================
