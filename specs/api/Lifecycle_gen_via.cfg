SPECIFICATION Spec
CONSTANTS
  MaxExt = 3
  MaxOps = 3
  Mode = "own"
  NP = 6
  Terminals = {"text", "markdown", "mdopts", "fragments", "lines", "paragraphs", "readingorder", "analyze", "headings", "lists", "blocks", "elements", "document", "chunks", "chunkscfg"}
  NonTerminals = {"pagecount", "ischarlevel", "ismulticol"}
CONSTRAINT Emit
CHECK_DEADLOCK FALSE
