SPECIFICATION Spec
CONSTANTS
  MaxExt = 3
  MaxOps = 5
  Mode = "share"
INVARIANTS DeriveIsPure OneOwner QuiescentReleased
CHECK_DEADLOCK FALSE
