SPECIFICATION Spec
CONSTANTS
  MaxExt = 3
  MaxOps = 5
  Mode = "share"
  NP = 6
  Terminals = {"text"}
  NonTerminals = {"pagecount"}
INVARIANTS DeriveIsPure OneOwner QuiescentReleased
PROPERTY SelectionIsStable
CHECK_DEADLOCK FALSE
