SPECIFICATION Spec
INVARIANTS TypeOK OwnAlwaysOpens
CONSTRAINT Emit
CHECK_DEADLOCK FALSE
