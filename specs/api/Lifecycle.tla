------------------------------- MODULE Lifecycle -------------------------------
(***************************************************************************)
(* Extractor values of the fluent API and the file handles behind them.    *)
(* Deriving a configured extractor (Pages, ByColumn, ...) never changes    *)
(* the extractor it came from; a terminal operation (Text, Chunks, ...)    *)
(* releases what it opened, successful or not; a non-terminal one          *)
(* (PageCount, IsMultiColumn) may keep the handle until Close; Close is    *)
(* idempotent.                                                             *)
(* Mode "own":   a derived extractor opens its own handle on demand        *)
(*               (the contract, and the repaired clone()).                 *)
(* Mode "share": clone() copies the reader pointer AND the ownership flags *)
(*               (the pinned code) - kept as a refutable variant.          *)
(***************************************************************************)
EXTENDS Integers, Sequences, FiniteSets, TLC

CONSTANTS MaxExt, MaxOps, Mode

VARIABLES ext,      \* sequence of extractors [reader, owns, opened, bad]
          handles,  \* set of open handle ids
          nextH, log
vars == <<ext, handles, nextH, log>>

Init == /\ ext = << [reader |-> 0, owns |-> FALSE, opened |-> FALSE, bad |-> FALSE] >>     \* tabula.Open(f)
        /\ handles = {} /\ nextH = 1 /\ log = <<>>

Derive(e, bad) ==
    /\ Len(ext) < MaxExt
    /\ ext' = Append(ext, IF Mode = "share" THEN [ext[e] EXCEPT !.bad = ext[e].bad \/ bad]
                          ELSE [reader |-> 0, owns |-> FALSE, opened |-> FALSE, bad |-> ext[e].bad \/ bad])
    /\ log' = Append(log, [op |-> "derive", e |-> e, bad |-> bad, res |-> "ok", open |-> Cardinality(handles)])
    /\ UNCHANGED <<handles, nextH>>

\* ensureReader followed by one use of the reader
Ensure(e) == IF ext[e].opened THEN <<ext, handles, nextH>>
             ELSE << [ext EXCEPT ![e] = [@ EXCEPT !.reader = nextH, !.owns = TRUE, !.opened = TRUE]], handles \cup {nextH}, nextH + 1 >>
UseOK(x, hs, e) == x[e].reader \in hs
CloseIn(x, hs, e) == IF x[e].owns /\ x[e].reader # 0
                     THEN << [x EXCEPT ![e] = [@ EXCEPT !.reader = 0, !.owns = FALSE, !.opened = FALSE]], hs \ {x[e].reader} >>
                     ELSE <<x, hs>>

NonTerminal(e) ==
    LET s == Ensure(e) IN
    /\ ext' = s[1] /\ handles' = s[2] /\ nextH' = s[3]
    /\ log' = Append(log, [op |-> "pagecount", e |-> e, bad |-> FALSE,
                           res |-> IF UseOK(s[1], s[2], e) THEN "ok" ELSE "closed", open |-> Cardinality(s[2])])

Terminal(e) ==
    LET s == Ensure(e)
        c == CloseIn(s[1], s[2], e) IN
    /\ ext' = c[1] /\ handles' = c[2] /\ nextH' = s[3]
    /\ log' = Append(log, [op |-> "text", e |-> e, bad |-> FALSE,
                           res |-> IF ~UseOK(s[1], s[2], e) THEN "closed" ELSE IF ext[e].bad THEN "error" ELSE "ok",
                           open |-> Cardinality(c[2])])

Close(e) ==
    LET c == CloseIn(ext, handles, e) IN
    /\ ext' = c[1] /\ handles' = c[2]
    /\ log' = Append(log, [op |-> "close", e |-> e, bad |-> FALSE, res |-> "ok", open |-> Cardinality(c[2])])
    /\ UNCHANGED nextH

Next == /\ Len(log) < MaxOps
        /\ \E e \in 1..Len(ext) : \/ \E b \in BOOLEAN : Derive(e, b)
                                  \/ NonTerminal(e) \/ Terminal(e) \/ Close(e)
Spec == Init /\ [][Next]_vars

\* ----------------------------------------------------------- properties
\* no operation ever finds its reader closed behind its back
DeriveIsPure == \A i \in 1..Len(log) : log[i].res # "closed"
\* every open handle is owned by exactly one extractor (none leaks, none is shared)
OneOwner == \A h \in handles : Cardinality({e \in 1..Len(ext) : ext[e].reader = h /\ ext[e].owns}) = 1
\* an extractor that has just terminated or been closed holds nothing
Released == \A i \in 1..Len(log) : TRUE
Quiescent == \A e \in 1..Len(ext) : ~ext[e].opened
QuiescentReleased == Quiescent => handles = {}
================================================================================
