------------------------------- MODULE Lifecycle -------------------------------
(***************************************************************************)
(* Extractor values of the fluent API: their page selection, and the file  *)
(* handles behind them.                                                    *)
(*  - Deriving a configured extractor (Pages, PageRange, ByColumn, ...)    *)
(*    never changes the extractor it came from - neither its options nor   *)
(*    any later result - nor any other extractor derived earlier.          *)
(*  - A terminal operation (Text, Chunks, ...) returns the pages the       *)
(*    extractor's own selection names (ascending; an error if one is       *)
(*    outside the document) and releases what it opened, successful or     *)
(*    not; a non-terminal one (PageCount) may keep the handle until Close; *)
(*    Close is idempotent.                                                 *)
(*  - Which terminal (Text, ToMarkdown, Fragments, Lines, Paragraphs,      *)
(*    ReadingOrder, Analyze, Headings, Lists, Blocks, Elements, Document,  *)
(*    Chunks, ChunksWithConfig) or non-terminal (PageCount,                *)
(*    IsCharacterLevel, IsMultiColumn) operation is used makes no          *)
(*    difference to the selection or to the handles: the operation's name  *)
(*    is only carried into the log (via).                                  *)
(* Modes (the last two are refutable implementation-shaped variants):      *)
(*  "own"    derivation copies the selection; a derived extractor opens    *)
(*           its own handle on demand (the contract and the repaired code) *)
(*  "share"  clone() copies the reader pointer AND the ownership flags     *)
(*           (the pinned code)                                             *)
(*  "alias"  clone() reuses the page slice: the selection is a (backing    *)
(*           array, length) pair with Go's append semantics - in place     *)
(*           while capacity lasts, so siblings derived from one base write *)
(*           into the same slot                                            *)
(***************************************************************************)
EXTENDS Integers, Sequences, FiniteSets, TLC

CONSTANTS MaxExt, MaxOps, Mode, NP,     \* NP = pages of the document
          Terminals, NonTerminals        \* the public operations by name (the implementation has one page loop and one release per operation)

VARIABLES ext,      \* sequence of extractors [reader, owns, opened, arr, len]
          arrays,   \* backing arrays: sequence of [cap, data] with data \in [1..cap -> Nat]
          handles,  \* set of open handle ids
          nextH, log
vars == <<ext, arrays, handles, nextH, log>>

\* what each builder call appends to the selection
Appends(kind) == CASE kind = "p4" -> <<4>> [] kind = "p5" -> <<5>> [] kind = "r13" -> <<1, 2, 3>>
                   [] kind = "bad" -> <<99>> [] kind = "col" -> <<>>
Kinds == {"p4", "p5", "r13", "bad", "col"}

Visible(x, as, e) == [i \in 1..x[e].len |-> as[x[e].arr].data[i]]
SelSet(s) == {s[i] : i \in 1..Len(s)}
RECURSIVE SortedSeq(_)
SortedSeq(S) == IF S = {} THEN <<>> ELSE LET m == CHOOSE x \in S : \A y \in S : x <= y IN <<m>> \o SortedSeq(S \ {m})
\* the result a terminal operation must give for a selection
ResultOf(s) == IF \E p \in SelSet(s) : p < 1 \/ p > NP THEN <<-1>>                 \* error
               ELSE IF s = <<>> THEN [i \in 1..NP |-> i] ELSE SortedSeq(SelSet(s))

EmptyArr == [cap |-> 0, data |-> <<>>]
Init == /\ ext = << [reader |-> 0, owns |-> FALSE, opened |-> FALSE, arr |-> 1, len |-> 0] >>     \* tabula.Open(f)
        /\ arrays = <<EmptyArr>>
        /\ handles = {} /\ nextH = 1 /\ log = <<>>

\* Go's append of one element x to the slice (a, n) over the arrays as: <<arrays', a', n'>>
Append1(as, a, n, x) ==
    IF n < as[a].cap
    THEN << [as EXCEPT ![a].data[n + 1] = x], a, n + 1 >>                                   \* in place: shared with every alias
    ELSE LET c == IF as[a].cap = 0 THEN 1 ELSE 2 * as[a].cap
             d == [i \in 1..c |-> IF i <= n THEN as[a].data[i] ELSE IF i = n + 1 THEN x ELSE 0]
         IN << Append(as, [cap |-> c, data |-> d]), Len(as) + 1, n + 1 >>
RECURSIVE AppendAll(_, _, _, _)
AppendAll(as, a, n, xs) == IF xs = <<>> THEN <<as, a, n>>
                           ELSE LET r == Append1(as, a, n, Head(xs)) IN AppendAll(r[1], r[2], r[3], Tail(xs))
\* a private copy of the visible part
CopyOf(as, a, n) == << Append(as, [cap |-> n, data |-> [i \in 1..n |-> as[a].data[i]]]), Len(as) + 1, n >>

Derive(e, kind) ==
    /\ Len(ext) < MaxExt
    /\ LET start == IF Mode = "alias" THEN <<arrays, ext[e].arr, ext[e].len>> ELSE CopyOf(arrays, ext[e].arr, ext[e].len)
           r == AppendAll(start[1], start[2], start[3], Appends(kind))
           base == IF Mode = "share" THEN ext[e] ELSE [reader |-> 0, owns |-> FALSE, opened |-> FALSE, arr |-> 0, len |-> 0]
       IN /\ arrays' = r[1]
          /\ ext' = Append(ext, [base EXCEPT !.arr = r[2], !.len = r[3]])
    /\ log' = Append(log, [op |-> "derive", e |-> e, kind |-> kind, res |-> "ok", pages |-> <<>>, open |-> Cardinality(handles)])
    /\ UNCHANGED <<handles, nextH>>

\* ensureReader followed by one use of the reader
Ensure(e) == IF ext[e].opened THEN <<ext, handles, nextH>>
             ELSE << [ext EXCEPT ![e] = [@ EXCEPT !.reader = nextH, !.owns = TRUE, !.opened = TRUE]], handles \cup {nextH}, nextH + 1 >>
UseOK(x, hs, e) == x[e].reader \in hs
CloseIn(x, hs, e) == IF x[e].owns /\ x[e].reader # 0
                     THEN << [x EXCEPT ![e] = [@ EXCEPT !.reader = 0, !.owns = FALSE, !.opened = FALSE]], hs \ {x[e].reader} >>
                     ELSE <<x, hs>>

NonTerminal(e, v) ==
    LET s == Ensure(e) IN
    /\ ext' = s[1] /\ handles' = s[2] /\ nextH' = s[3]
    /\ log' = Append(log, [op |-> "pagecount", e |-> e, kind |-> v,
                           res |-> IF UseOK(s[1], s[2], e) THEN "ok" ELSE "closed", pages |-> <<>>, open |-> Cardinality(s[2])])
    /\ UNCHANGED arrays

Terminal(e, v) ==
    LET s == Ensure(e)
        c == CloseIn(s[1], s[2], e)
        r == ResultOf(Visible(ext, arrays, e)) IN
    /\ ext' = c[1] /\ handles' = c[2] /\ nextH' = s[3]
    /\ log' = Append(log, [op |-> "text", e |-> e, kind |-> v,
                           res |-> IF ~UseOK(s[1], s[2], e) THEN "closed" ELSE IF r = <<-1>> THEN "error" ELSE "ok",
                           pages |-> IF r = <<-1>> THEN <<>> ELSE r, open |-> Cardinality(c[2])])
    /\ UNCHANGED arrays

Close(e) ==
    LET c == CloseIn(ext, handles, e) IN
    /\ ext' = c[1] /\ handles' = c[2]
    /\ log' = Append(log, [op |-> "close", e |-> e, kind |-> "-", res |-> "ok", pages |-> <<>>, open |-> Cardinality(c[2])])
    /\ UNCHANGED <<nextH, arrays>>

Next == /\ Len(log) < MaxOps
        /\ \E e \in 1..Len(ext) : \/ \E k \in Kinds : Derive(e, k)
                                  \/ (\E v \in NonTerminals : NonTerminal(e, v)) \/ (\E v \in Terminals : Terminal(e, v)) \/ Close(e)
Spec == Init /\ [][Next]_vars

\* ----------------------------------------------------------- properties
\* no operation ever finds its reader closed behind its back
DeriveIsPure == \A i \in 1..Len(log) : log[i].res # "closed"
\* the selection an extractor was created with never changes afterwards
SelectionIsStable == [][\A e \in 1..Len(ext) : Visible(ext', arrays', e) = Visible(ext, arrays, e)]_vars
\* every open handle is owned by exactly one extractor (none leaks, none is shared)
OneOwner == \A h \in handles : Cardinality({e \in 1..Len(ext) : ext[e].reader = h /\ ext[e].owns}) = 1
Quiescent == \A e \in 1..Len(ext) : ~ext[e].opened
QuiescentReleased == Quiescent => handles = {}
================================================================================
