SPECIFICATION Spec
CONSTANTS
  MaxExt = 4
  MaxOps = 5
  Mode = "alias"
  NP = 6
INVARIANTS DeriveIsPure OneOwner QuiescentReleased
PROPERTY SelectionIsStable
CHECK_DEADLOCK FALSE
