SPECIFICATION Spec
CONSTANTS
  MaxExt = 4
  MaxOps = 5
  Mode = "alias"
  NP = 6
  Terminals = {"text"}
  NonTerminals = {"pagecount"}
INVARIANTS DeriveIsPure OneOwner QuiescentReleased
PROPERTY SelectionIsStable
CHECK_DEADLOCK FALSE
