SPECIFICATION Spec
CONSTANTS
  Reps = {1}
  Vias = {"text"}
  N = 5
  MaxCalls = 2
  ArgVals = {1, 2, 3, 5, 6}
  MaxArgs = 2
  OptSets <- OptSetsMC
INVARIANTS Commutes Idempotent Ascending
CONSTRAINT EmitO
CHECK_DEADLOCK FALSE
