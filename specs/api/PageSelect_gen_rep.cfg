SPECIFICATION Spec
CONSTANTS
  N = 5
  MaxCalls = 1
  ArgVals = {1, 2, 3, 5, 6}
  MaxArgs = 2
  OptSets <- OptSetsMC
  Reps = {1, 6}
  Vias <- ViasMC
INVARIANTS Commutes Idempotent Ascending RepeatIsIdempotent
CONSTRAINT EmitR
CHECK_DEADLOCK FALSE
