SPECIFICATION Spec
CONSTANTS
  Reps = {1}
  Vias = {"text"}
  N = 3
  MaxCalls = 3
  ArgVals = {0, 1, 2, 3, 4}
  MaxArgs = 2
  OptSets <- OptSetsMC
INVARIANTS Commutes Idempotent Ascending
CONSTRAINT Emit
CHECK_DEADLOCK FALSE
