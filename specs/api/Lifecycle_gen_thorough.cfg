SPECIFICATION Spec
CONSTANTS
  MaxExt = 3
  MaxOps = 5
  Mode = "own"
CONSTRAINT Emit
CHECK_DEADLOCK FALSE
