---- MODULE AdmissionTrace ----
(* Events {"event":"Admit","mode":m,"kind":k,"ext":e,"detect":d,"open":"opens"|"refused","epub":{..},"drm":b} *)
(* accepted iff the observation is one the decision tables of Admission.tla allow.                            *)
EXTENDS Admission, Json
Trace == ndJsonDeserialize("trace.ndjson")
VARIABLE l
Ev == Trace[l]
SetOf(ev, f) == IF f \in DOMAIN ev THEN {ev[f][i] : i \in 1..Len(ev[f])} ELSE {}
TraceInit == l = 1 /\ mode = "admit" /\ kind = "pdf" /\ ext = "pdf" /\ ecase = "lower" /\ order = "canonical" /\ decoy = "none" /\ epub = NoEpub /\ tgt = "rel" /\ then = "none" /\ conf = "transitional"
TraceAdmit ==
    /\ l <= Len(Trace) /\ Ev.event = "Admit" /\ l' = l + 1
    /\ mode' = Ev.mode /\ kind' = Ev.kind /\ ext' = Ev.ext
    /\ epub' = [rights |-> Ev.epub.rights, enc |-> SetOf(Ev.epub, "enc"), algo |-> Ev.epub.algo, uri |-> Ev.epub.uri, rfirst |-> Ev.epub.rfirst, rev |-> Ev.epub.rev]
    /\ UNCHANGED <<ecase, order, decoy, tgt, then, conf>>
    /\ Ev.detect = Ev.kind
    /\ LET want == IF Ev.mode = "drm" THEN DrmVerdict(epub')
                   ELSE IF OwnExt(Ev.kind, Ev.ext) THEN "opens" ELSE IF Supported(Ev.ext) THEN "refused" ELSE "unspecified"
       IN /\ want \in {"unspecified", Ev.open}
          /\ (Ev.mode = "drm" /\ want = "refused") => Ev.drm = TRUE
TraceSpec == TraceInit /\ [][TraceAdmit]_<<vars, l>>
TraceAccepted == TLCGet("stats").diameter - 1 = Len(Trace)
====
