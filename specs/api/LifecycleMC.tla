---- MODULE LifecycleMC ----
EXTENDS Lifecycle, Json
Emit == (Len(log) = MaxOps) => PrintT(ToJson([log |-> log, quiescent |-> Quiescent, open |-> Cardinality(handles)]))
\* generation: only complete histories that end in a terminal or non-terminal use (a history of derivations alone observes nothing)
====
