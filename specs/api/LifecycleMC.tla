---- MODULE LifecycleMC ----
EXTENDS Lifecycle, Json
Emit == (Len(log) = MaxOps) => PrintT(ToJson([log |-> log, quiescent |-> Quiescent, open |-> Cardinality(handles)]))
====
