---- MODULE DeterminismMC ----
EXTENDS Determinism
Bound == nobs <= 4
====
