SPECIFICATION Spec
CONSTANTS
  MaxExt = 4
  MaxOps = 4
  Mode = "own"
  NP = 6
CONSTRAINT Emit
CHECK_DEADLOCK FALSE
