SPECIFICATION Spec
CONSTANTS
  MaxExt = 4
  MaxOps = 4
  Mode = "own"
  NP = 6
  Terminals = {"text"}
  NonTerminals = {"pagecount"}
CONSTRAINT Emit
CHECK_DEADLOCK FALSE
