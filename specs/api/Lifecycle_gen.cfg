SPECIFICATION Spec
CONSTANTS
  MaxExt = 3
  MaxOps = 4
  Mode = "own"
CONSTRAINT Emit
CHECK_DEADLOCK FALSE
