SPECIFICATION Spec
CONSTANTS
  Ops <- OpsA
  MaxLen = 5
  MaxDepth = 2
  Order = "pre"
CONSTRAINT Emit
CHECK_DEADLOCK FALSE
