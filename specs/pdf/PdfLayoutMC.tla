----------------------------- MODULE PdfLayoutMC -----------------------------
EXTENDS PdfLayout, Json
Emit == Done => PrintT(ToJson([layout |-> L, expected |-> Expected(L),
                                 base |-> BaseDoc(L["doc"]), rev2page1 |-> Rev2Page1, rev3page |-> Rev3Page]))
==============================================================================
