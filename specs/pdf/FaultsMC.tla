---- MODULE FaultsMC ----
EXTENDS Faults, Json
GenNext == Damage
GenSpec == Init /\ [][GenNext]_vars
Emit == (faults # <<>>) => PrintT(ToJson([fmt |-> fmt, faults |-> faults]))
====
