SPECIFICATION SimSpec
CONSTANTS
  Ops <- OpsB
  MaxLen = 40
  MaxDepth = 8
  Order = "pre"
CONSTRAINT EmitLeaf
CHECK_DEADLOCK FALSE
