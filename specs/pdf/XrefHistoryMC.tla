---------------------------- MODULE XrefHistoryMC ----------------------------
EXTENDS XrefHistory, Json
\* physical options of the rendered file (all legal; chosen per case)
\* xlow: a cross-reference stream takes its object number before the object stream of its revision (its section
\*       then ends with the entry of a real object)
\* sparse: the objects of the history are numbered 1, 4, 7, ... (numbers in between never existed)
\* nohead: an update that frees objects leaves the entry of object 0 (the head of the free list) alone, so a
\*         section can begin with the free entry of object 1
\* compact: object numbers without gaps (so /Size is the number of objects, as in files written by ordinary
\* producers) or with unused numbers between the document's objects and the containers
Opts == { [big |-> FALSE, w |-> <<1,2,1>>, flate |-> FALSE, eol |-> "lf",   split |-> FALSE, compact |-> TRUE, sparse |-> FALSE, xlow |-> TRUE, nohead |-> TRUE],
          [big |-> TRUE,  w |-> <<1,4,2>>, flate |-> TRUE,  eol |-> "crlf", split |-> TRUE,  compact |-> FALSE, sparse |-> FALSE, xlow |-> FALSE, nohead |-> FALSE],
          [big |-> TRUE,  w |-> <<1,3,1>>, flate |-> FALSE, eol |-> "lf",   split |-> TRUE,  compact |-> TRUE, sparse |-> TRUE, xlow |-> FALSE, nohead |-> TRUE],
          [big |-> FALSE, w |-> <<2,4,2>>, flate |-> TRUE,  eol |-> "cr",   split |-> FALSE, compact |-> FALSE, sparse |-> TRUE, xlow |-> TRUE, nohead |-> FALSE] }
NewestMap == [n \in Obj |-> Newest(n)]
Case(o) == [revs |-> revs, opt |-> o, newest |-> NewestMap]
\* one case per (history, option set), emitted when the history is opened
EmitOpen == (opened /\ log = <<>>) => \A o \in Opts : PrintT(ToJson(Case(o)))
\* after Open the generator stops (lookup sequences are enumerated by the driver
\* and checked by XrefHistoryTrace)
GenNext == (\E rv \in RevSpace : AppendRev(rv)) \/ Open
GenSpec == Init /\ [][GenNext]_vars
==============================================================================
