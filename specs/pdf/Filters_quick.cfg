SPECIFICATION Spec
CONSTANTS
  Alphabet = {0, 1, 128, 255}
  MaxRowLen = 2
  MaxRows = 2
  MaxLenAscii = 5
  Kinds <- AllKinds
  Preds <- AllPreds
INVARIANT RoundTrip
CONSTRAINT Emit
CHECK_DEADLOCK FALSE
