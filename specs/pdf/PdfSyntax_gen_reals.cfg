SPECIFICATION GenSpecR
CONSTANTS
  Leaves <- RealGridLeaves
  Keys <- KeysMC
  OpNames <- OpsSmall
  Policies <- PoliciesOne
  MaxToks = 2
  MaxDepth = 0
INVARIANTS WellNested SepAlwaysOK
CONSTRAINT Emit
CHECK_DEADLOCK FALSE
