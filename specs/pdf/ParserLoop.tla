------------------------------ MODULE ParserLoop ------------------------------
(***************************************************************************)
(* The token machine of core.Parser (two-token lookahead over a lexer) and *)
(* its parse loops, at the granularity of the code:                        *)
(*   lexer   NextToken returns the token at pos and advances - except for  *)
(*           BAD (a lone '>'), for which it returns an error WITHOUT       *)
(*           consuming it                                                  *)
(*   parser  nextToken: cur := peek; peek := lexer.NextToken()             *)
(*           ParseObject / parseArray / parseDict loops                    *)
(* Mode "drop":   nextToken's error is ignored and peek keeps its old      *)
(*                value (the pinned code)  -> refuted: lasso               *)
(* Mode "sticky": the first lexer error is remembered, peek drains to NIL  *)
(*                and every loop stops on a NIL current token (the repair) *)
(* Property: every parse returns (value or error) - Termination.           *)
(***************************************************************************)
EXTENDS Integers, Sequences, FiniteSets, TLC

CONSTANTS MaxLen, Mode
Toks == {"name", "int", "dopen", "dclose", "aopen", "aclose", "BAD"}

VARIABLES input, pos, cur, peek, err, stack, pc, steps
vars == <<input, pos, cur, peek, err, stack, pc, steps>>
NIL == "nil"
EOF == "eof"

TokAt(p) == IF p <= Len(input) THEN input[p] ELSE EOF

\* one lexer call from position p: <<token or NIL, new position, error?>>
Lex(p) == IF TokAt(p) = "BAD" THEN <<NIL, p, TRUE>> ELSE <<TokAt(p), IF p <= Len(input) THEN p + 1 ELSE p, FALSE>>

\* nextToken as a function of the state: <<cur', peek', pos', err'>>
NextTok ==
    IF Mode = "sticky" /\ err THEN <<peek, NIL, pos, TRUE>>
    ELSE LET l == Lex(pos) IN
         IF l[3] THEN (IF Mode = "sticky" THEN <<peek, NIL, pos, TRUE>> ELSE <<peek, peek, pos, err>>)   \* drop: peek unchanged
         ELSE <<peek, l[1], l[2], err>>

Seqs == UNION {[1..n -> Toks] : n \in 0..MaxLen}

\* NewParser loads two tokens
Load2(inp) ==
    LET l1 == IF inp # <<>> /\ inp[1] = "BAD" THEN <<NIL, 1, TRUE>> ELSE <<IF inp = <<>> THEN EOF ELSE inp[1], IF inp = <<>> THEN 1 ELSE 2, FALSE>>
    IN l1

Init == /\ input \in Seqs /\ pos = 1 /\ cur = NIL /\ peek = NIL /\ err = FALSE
        /\ stack = <<>> /\ pc = "load1" /\ steps = 0

Advance(npc) == LET n == NextTok IN cur' = n[1] /\ peek' = n[2] /\ pos' = n[3] /\ err' = n[4] /\ pc' = npc

Step ==
    /\ steps' = steps + 1 /\ UNCHANGED input
    /\ CASE pc = "load1" -> Advance("load2") /\ UNCHANGED stack
         [] pc = "load2" -> Advance("obj") /\ UNCHANGED stack
         \* ParseObject
         [] pc = "obj" ->
              IF cur = NIL \/ cur = EOF \/ cur \in {"dclose", "aclose", "BAD"} THEN pc' = "error" /\ UNCHANGED <<cur, peek, pos, err, stack>>
              ELSE IF cur \in {"name", "int"} THEN Advance(IF stack = <<>> THEN "done" ELSE "loop") /\ UNCHANGED stack
              ELSE Advance("loop") /\ stack' = Append(stack, IF cur = "dopen" THEN "d" ELSE "a")
         \* parseArray / parseDict loop head
         [] pc = "loop" ->
              LET top == stack[Len(stack)] IN
              IF cur = NIL \/ cur = EOF THEN pc' = "error" /\ UNCHANGED <<cur, peek, pos, err, stack>>
              ELSE IF (top = "a" /\ cur = "aclose") \/ (top = "d" /\ cur = "dclose")
                   THEN Advance(IF Len(stack) = 1 THEN "done" ELSE "loop") /\ stack' = SubSeq(stack, 1, Len(stack) - 1)
              ELSE IF top = "d" THEN (IF cur = "name" THEN Advance("obj") /\ UNCHANGED stack       \* key, then value via ParseObject
                                      ELSE pc' = "error" /\ UNCHANGED <<cur, peek, pos, err, stack>>)
              ELSE pc' = "obj" /\ UNCHANGED <<cur, peek, pos, err, stack>>                         \* array element
         [] OTHER -> FALSE

Next == pc \notin {"done", "error"} /\ Step
Spec == Init /\ [][Next]_vars /\ WF_vars(Next)

Returned == pc \in {"done", "error"}
Termination == <>Returned
\* a bound that the repaired machine respects: it never takes more steps than 2 per token plus a constant
BoundedWork == steps <= 3 * (Len(input) + 3)
=============================================================================
