---------------------------- MODULE FontDecodeTrace ----------------------------
(* Events recorded from the real decoders on random byte strings:               *)
(*  {"event":"Enc","enc":name,"bytes":[..],"out":[cps],"valid":b,"nfc":b}       *)
(*      bytes drawn from the asserted codes of the encoding: out must be the     *)
(*      reference decoding, valid UTF-8 and NFC                                  *)
(*  {"event":"Out","valid":b,"nfc":b}   any other returned string: valid, NFC    *)
EXTENDS FontDecode, Json
Trace == ndJsonDeserialize("trace.ndjson")
VARIABLE l
Seq0(ev, f) == IF f \in DOMAIN ev THEN ev[f] ELSE <<>>
TraceInit == l = 1
TraceEnc == /\ l <= Len(Trace) /\ Trace[l].event = "Enc" /\ l' = l + 1
            /\ LET ev == Trace[l] IN /\ Seq0(ev, "out") = DecodeEnc(ev.enc, Seq0(ev, "bytes"))
                                     /\ ev.valid = TRUE /\ ev.nfc = TRUE
TraceOut == /\ l <= Len(Trace) /\ Trace[l].event = "Out" /\ l' = l + 1
            /\ Trace[l].valid = TRUE /\ Trace[l].nfc = TRUE
TraceSpec == TraceInit /\ [][TraceEnc \/ TraceOut]_l
TraceAccepted == TLCGet("stats").diameter - 1 = Len(Trace)
===============================================================================
