SPECIFICATION TraceSpec
CONSTANTS
  K = 1000000
  MaxFaults = 1000
INVARIANT AlwaysReturns
POSTCONDITION TraceAccepted
CHECK_DEADLOCK FALSE
