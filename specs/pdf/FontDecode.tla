------------------------------ MODULE FontDecode ------------------------------
(***************************************************************************)
(* Character-code decoding (ISO 32000-1 9.10, 9.6.6, 7.9.2.2).             *)
(*                                                                         *)
(* A ToUnicode CMap is [width, entries]; an entry is one of                *)
(*   [k |-> "char",  code, dst]          bfchar: code -> dst               *)
(*   [k |-> "range", lo, n, dst]         bfrange with a string target: the *)
(*                                       i-th code (0-based) maps to dst   *)
(*                                       with its LAST unit incremented by i*)
(*   [k |-> "arr",   lo, dsts]           bfrange with an array target      *)
(* codes are byte sequences of length width, dst a sequence of code points.*)
(* Render(cmap, fmt) is the CMap program text (bytes) under a formatting   *)
(* policy; Decode gives the text a string of codes denotes.  Decoding      *)
(* priority of a font: ToUnicode, then a UTF-16 byte-order mark, then the  *)
(* named encoding (EncTables), then the raw bytes; the result is in NFC.   *)
(***************************************************************************)
EXTENDS Integers, Sequences, FiniteSets, TLC, SequencesExt, EncTables

FlatS(ss) == FoldLeft(LAMBDA acc, s : acc \o s, <<>>, ss)
HexD(d) == IF d < 10 THEN 48 + d ELSE 55 + d
HexDl(d) == IF d < 10 THEN 48 + d ELSE 87 + d
Hex2(b, lower) == IF lower THEN <<HexDl(b \div 16), HexDl(b % 16)>> ELSE <<HexD(b \div 16), HexD(b % 16)>>

\* UTF-16BE code units of a code point
Units(cp) == IF cp < 65536 THEN <<cp>>
             ELSE <<55296 + ((cp - 65536) \div 1024), 56320 + ((cp - 65536) % 1024)>>
UnitsOf(cps) == FlatS([i \in 1..Len(cps) |-> Units(cps[i])])
UnitBytes(u) == <<u \div 256, u % 256>>
HexOfBytes(bs, lower) == <<60>> \o FlatS([i \in 1..Len(bs) |-> Hex2(bs[i], lower)]) \o <<62>>
HexOfCps(cps, lower) == HexOfBytes(FlatS([i \in 1..Len(UnitsOf(cps)) |-> UnitBytes(UnitsOf(cps)[i])]), lower)

\* code arithmetic on the last byte (ranges never cross a last-byte boundary, 9.10.3)
Bump(code, i) == [code EXCEPT ![Len(code)] = @ + i]
BumpCp(dst, i) == [dst EXCEPT ![Len(dst)] = @ + i]

KwCodeSpaceB == <<98, 101, 103, 105, 110, 99, 111, 100, 101, 115, 112, 97, 99, 101, 114, 97, 110, 103, 101>>
KwCodeSpaceE == <<101, 110, 100, 99, 111, 100, 101, 115, 112, 97, 99, 101, 114, 97, 110, 103, 101>>
KwBfCharB == <<98, 101, 103, 105, 110, 98, 102, 99, 104, 97, 114>>
KwBfCharE == <<101, 110, 100, 98, 102, 99, 104, 97, 114>>
KwBfRangeB == <<98, 101, 103, 105, 110, 98, 102, 114, 97, 110, 103, 101>>
KwBfRangeE == <<101, 110, 100, 98, 102, 114, 97, 110, 103, 101>>
Prolog == <<47, 67, 73, 68, 73, 110, 105, 116, 32, 47, 80, 114, 111, 99, 83, 101, 116, 32, 102, 105, 110, 100, 114, 101, 115, 111, 117, 114, 99, 101, 32, 98, 101, 103, 105, 110, 10, 49, 50, 32, 100, 105, 99, 116, 32, 98, 101, 103, 105, 110, 10, 98, 101, 103, 105, 110, 99, 109, 97, 112, 10, 47, 67, 77, 97, 112, 78, 97, 109, 101, 32, 47, 65, 100, 111, 98, 101, 45, 73, 100, 101, 110, 116, 105, 116, 121, 45, 85, 67, 83, 32, 100, 101, 102, 10, 47, 67, 77, 97, 112, 84, 121, 112, 101, 32, 50, 32, 100, 101, 102, 10>>
Epilog == <<101, 110, 100, 99, 109, 97, 112, 10, 67, 77, 97, 112, 78, 97, 109, 101, 32, 99, 117, 114, 114, 101, 110, 116, 100, 105, 99, 116, 32, 47, 67, 77, 97, 112, 32, 100, 101, 102, 105, 110, 101, 114, 101, 115, 111, 117, 114, 99, 101, 32, 112, 111, 112, 10, 101, 110, 100, 10, 101, 110, 100, 10>>
RECURSIVE DecDigits(_)
DecDigits(n) == IF n < 10 THEN <<48 + n>> ELSE DecDigits(n \div 10) \o <<48 + (n % 10)>>

\* formatting policies:
\*   fmt.sep   "lf" | "crlf" | "cr" | "sp"   (what ends each entry; "sp": the whole section on one line)
\*   fmt.tight TRUE: no space between the hex tokens of an entry
\*   fmt.lower TRUE: lower-case hex digits
\*   fmt.split TRUE: arrays are split over two lines (only when sep is a line end)
Eol(fmt) == CASE fmt.sep = "lf" -> <<10>> [] fmt.sep = "crlf" -> <<13, 10>> [] fmt.sep = "cr" -> <<13>> [] fmt.sep = "sp" -> <<32>>
Gap(fmt) == IF fmt.tight THEN <<>> ELSE <<32>>

RenderEntry(e, fmt) ==
    CASE e.k = "char"  -> HexOfBytes(e.code, fmt.lower) \o Gap(fmt) \o HexOfCps(e.dst, fmt.lower)
      [] e.k = "range" -> HexOfBytes(e.lo, fmt.lower) \o Gap(fmt) \o HexOfBytes(Bump(e.lo, e.n - 1), fmt.lower) \o Gap(fmt) \o HexOfCps(e.dst, fmt.lower)
      [] e.k = "arr"   -> HexOfBytes(e.lo, fmt.lower) \o Gap(fmt) \o HexOfBytes(Bump(e.lo, Len(e.dsts) - 1), fmt.lower) \o Gap(fmt) \o <<91>>
                          \o FlatS([i \in 1..Len(e.dsts) |-> (IF i > 1 THEN (IF fmt.split /\ fmt.sep # "sp" /\ i = 2 THEN Eol(fmt) ELSE Gap(fmt)) ELSE <<>>)
                                                              \o HexOfCps(e.dsts[i], fmt.lower)])
                          \o <<93>>

Section(es, kwB, kwE, fmt) ==
    IF es = <<>> THEN <<>>
    ELSE DecDigits(Len(es)) \o <<32>> \o kwB \o Eol(fmt)
         \o FlatS([i \in 1..Len(es) |-> RenderEntry(es[i], fmt) \o Eol(fmt)]) \o kwE \o Eol(fmt)

\* fmt.order: "asc" entries in ascending code order in one section per kind; "desc" the same section with the entries
\* in descending order; "sections" one section per entry, highest codes first (nothing in 9.10.3 orders the entries)
RevSeq(s) == [i \in 1..Len(s) |-> s[Len(s) + 1 - i]]
Sections(es, kwB, kwE, fmt) ==
    CASE fmt.order = "asc"  -> Section(es, kwB, kwE, fmt)
      [] fmt.order = "desc" -> Section(RevSeq(es), kwB, kwE, fmt)
      [] OTHER -> FlatS([i \in 1..Len(es) |-> Section(<<RevSeq(es)[i]>>, kwB, kwE, fmt)])

Render(cm, fmt) ==
    LET chars == SelectSeq(cm.entries, LAMBDA e : e.k = "char")
        rngs  == SelectSeq(cm.entries, LAMBDA e : e.k # "char")
        lo == [i \in 1..cm.width |-> 0] hi == [i \in 1..cm.width |-> 255]
    IN Prolog \o <<49, 32>> \o KwCodeSpaceB \o Eol(fmt) \o HexOfBytes(lo, fmt.lower) \o Gap(fmt) \o HexOfBytes(hi, fmt.lower) \o Eol(fmt)
       \o KwCodeSpaceE \o Eol(fmt)
       \o Sections(chars, KwBfCharB, KwBfCharE, fmt) \o Sections(rngs, KwBfRangeB, KwBfRangeE, fmt) \o Epilog

\* ------------------------------------------------------------- decoding
Covers(e, code) ==
    CASE e.k = "char"  -> e.code = code
      [] e.k = "range" -> /\ SubSeq(e.lo, 1, Len(code) - 1) = SubSeq(code, 1, Len(code) - 1)
                          /\ code[Len(code)] >= e.lo[Len(code)] /\ code[Len(code)] < e.lo[Len(code)] + e.n
      [] e.k = "arr"   -> /\ SubSeq(e.lo, 1, Len(code) - 1) = SubSeq(code, 1, Len(code) - 1)
                          /\ code[Len(code)] >= e.lo[Len(code)] /\ code[Len(code)] < e.lo[Len(code)] + Len(e.dsts)
Target(e, code) ==
    CASE e.k = "char"  -> e.dst
      [] e.k = "range" -> BumpCp(e.dst, code[Len(code)] - e.lo[Len(code)])
      [] e.k = "arr"   -> e.dsts[code[Len(code)] - e.lo[Len(code)] + 1]
Mapped(cm, code) == \E i \in 1..Len(cm.entries) : Covers(cm.entries[i], code)
\* the generator keeps entries disjoint, so the covering entry is unique
LookupCode(cm, code) == LET i == CHOOSE j \in 1..Len(cm.entries) : Covers(cm.entries[j], code) IN Target(cm.entries[i], code)

\* canonical composition (NFC) over the code points the generators use: every pair (starter, combining mark) of that
\* alphabet - and of the characters such pairs compose to - that has a precomposed form (table computed from the Unicode
\* data by tools, all marks of the alphabet have combining class 230, so there is no reordering and a mark composes
\* only with the character directly before it); every other generated code point is NFC-inert. Composition runs over
\* the WHOLE decoded string: a mark that is the target of its own code composes with the letter of the code before it.
NfcPairs == { <<65, 769, 193>>, <<65, 770, 194>>, <<65, 771, 195>>, <<65, 776, 196>>, <<65, 777, 7842>>, <<65, 778, 197>>, <<67, 769, 262>>, <<67, 770, 264>>, <<101, 769, 233>>, <<101, 770, 234>>, <<101, 771, 7869>>, <<101, 776, 235>>, <<101, 777, 7867>>, <<103, 769, 501>>, <<103, 770, 285>>, <<105, 769, 237>>, <<105, 770, 238>>, <<105, 771, 297>>, <<105, 776, 239>>, <<105, 777, 7881>>, <<106, 770, 309>>, <<107, 769, 7729>>, <<117, 769, 250>>, <<117, 770, 251>>, <<117, 771, 361>>, <<117, 776, 252>>, <<117, 777, 7911>>, <<117, 778, 367>>, <<194, 769, 7844>>, <<194, 771, 7850>>, <<194, 777, 7848>>, <<197, 769, 506>>, <<234, 769, 7871>>, <<234, 771, 7877>>, <<234, 777, 7875>>, <<239, 769, 7727>>, <<252, 769, 472>>, <<361, 769, 7801>> }
Compose(cps) ==
    LET step(acc, c) == IF acc # <<>> /\ \E p \in NfcPairs : p[1] = acc[Len(acc)] /\ p[2] = c
                        THEN [acc EXCEPT ![Len(acc)] = (CHOOSE p \in NfcPairs : p[1] = acc[Len(acc)] /\ p[2] = c)[3]]
                        ELSE Append(acc, c)
    IN FoldLeft(step, <<>>, cps)

DecodeCMap(cm, codes) == Compose(FlatS([i \in 1..Len(codes) |-> LookupCode(cm, codes[i])]))
DecodeEnc(name, bytes) == SelectSeq([i \in 1..Len(bytes) |-> EncTab(name)[bytes[i] + 1]], LAMBDA c : c # 0)

\* UTF-16 string with byte-order mark: big-endian FE FF, little-endian FF FE
Utf16(cps, be) == (IF be THEN <<254, 255>> ELSE <<255, 254>>)
                  \o FlatS([i \in 1..Len(UnitsOf(cps)) |-> LET u == UnitsOf(cps)[i] IN IF be THEN <<u \div 256, u % 256>> ELSE <<u % 256, u \div 256>>])
=============================================================================
