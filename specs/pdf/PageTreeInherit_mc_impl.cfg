SPECIFICATION Spec
CONSTANTS
  MaxDepth = 4
  Algorithm = "oneParent"
INVARIANT Correct
CHECK_DEADLOCK FALSE
