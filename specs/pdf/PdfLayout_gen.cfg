SPECIFICATION Spec
INVARIANTS TypeOK Valid
CONSTRAINT Emit
CHECK_DEADLOCK FALSE
