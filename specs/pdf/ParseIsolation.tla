--------------------------- MODULE ParseIsolation ---------------------------
(***************************************************************************)
(* Content-stream parsing by several parsers, in sequence and interleaved. *)
(*                                                                         *)
(* A stream is a sequence of tokens: operand n (a positive integer) or     *)
(* operator (0).  The sequential meaning of a stream groups the operands   *)
(* in front of each operator (operands after the last operator are         *)
(* dropped).  Each process performs a history of Parse calls.              *)
(*                                                                         *)
(* The parser is modelled at the granularity of contentstream.Parser:      *)
(*   Push   parseNext: an operand is appended to the pending list          *)
(*   Copy   parseOperator: the pending list is copied into an Operation    *)
(*   Clear  parseOperator: the pending list is cleared                     *)
(* Shared = FALSE: every parser owns its pending list (the contract, and   *)
(* the repaired code).  Shared = TRUE: one list for the whole package (the *)
(* pinned code) - kept so that TLC exhibits the interference.              *)
(***************************************************************************)
EXTENDS Integers, Sequences, FiniteSets, TLC

CONSTANTS Proc, MaxTok, MaxCalls, Shared

VARIABLES
    calls,      \* calls[p]  : streams parsed so far (history), last one is current
    pos,        \* pos[p]    : index of the next token of the current stream
    pc,         \* pc[p]     : "idle" | "run" | "copied"
    ops,        \* ops[p]    : operations produced by the current call
    pend,       \* pending operand list(s): one per process, or one shared
    results,    \* results[p]: result of every finished call
    sched       \* history: the schedule <<[p, act]>>

vars == <<calls, pos, pc, ops, pend, results, sched>>

\* tokens of process p: operand = p's own number, operator = 0
Tokens(p) == {p, 0}
RECURSIVE SeqsUpTo(_, _)
SeqsUpTo(S, n) == IF n = 0 THEN {<<>>}
                  ELSE LET R == SeqsUpTo(S, n - 1) IN
                       R \cup {Append(r, x) : r \in {q \in R : Len(q) = n - 1}, x \in S}
Streams(p) == SeqsUpTo(Tokens(p), MaxTok) \ {<<>>}

\* sequential meaning
RECURSIVE SeqFrom(_, _, _)
SeqFrom(s, i, acc) ==
    IF i > Len(s) THEN <<>>
    ELSE IF s[i] = 0 THEN <<acc>> \o SeqFrom(s, i + 1, <<>>)
    ELSE SeqFrom(s, i + 1, Append(acc, s[i]))
Sequential(s) == SeqFrom(s, 1, <<>>)

Get(p)       == IF Shared THEN pend ELSE pend[p]
Put(p, v)    == IF Shared THEN v ELSE [pend EXCEPT ![p] = v]
Cur(p)       == calls[p][Len(calls[p])]
Log(p, a)    == sched' = Append(sched, <<p, a>>)

Init ==
    /\ calls = [p \in Proc |-> <<>>]
    /\ pos = [p \in Proc |-> 1]
    /\ pc = [p \in Proc |-> "idle"]
    /\ ops = [p \in Proc |-> <<>>]
    /\ pend = IF Shared THEN <<>> ELSE [p \in Proc |-> <<>>]
    /\ results = [p \in Proc |-> <<>>]
    /\ sched = <<>>

\* NewParser + entering Parse: a fresh parser (its own pending list is empty;
\* a shared list is NOT cleared - that is the interference)
Start(p, s) ==
    /\ pc[p] = "idle" /\ Len(calls[p]) < MaxCalls
    /\ calls' = [calls EXCEPT ![p] = Append(@, s)]
    /\ pos' = [pos EXCEPT ![p] = 1]
    /\ ops' = [ops EXCEPT ![p] = <<>>]
    /\ pc' = [pc EXCEPT ![p] = "run"]
    /\ pend' = IF Shared THEN pend ELSE [pend EXCEPT ![p] = <<>>]
    /\ Log(p, "start")
    /\ UNCHANGED results

Push(p) ==
    /\ pc[p] = "run" /\ pos[p] <= Len(Cur(p)) /\ Cur(p)[pos[p]] # 0
    /\ pend' = Put(p, Append(Get(p), Cur(p)[pos[p]]))
    /\ pos' = [pos EXCEPT ![p] = @ + 1]
    /\ Log(p, "operand")
    /\ UNCHANGED <<calls, pc, ops, results>>

Copy(p) ==
    /\ pc[p] = "run" /\ pos[p] <= Len(Cur(p)) /\ Cur(p)[pos[p]] = 0
    /\ ops' = [ops EXCEPT ![p] = Append(@, Get(p))]
    /\ pc' = [pc EXCEPT ![p] = "copied"]
    /\ Log(p, "operator")
    /\ UNCHANGED <<calls, pos, pend, results>>

Clear(p) ==
    /\ pc[p] = "copied"
    /\ pend' = Put(p, <<>>)
    /\ pos' = [pos EXCEPT ![p] = @ + 1]
    /\ pc' = [pc EXCEPT ![p] = "run"]
    /\ Log(p, "copied")
    /\ UNCHANGED <<calls, ops, results>>

Finish(p) ==
    /\ pc[p] = "run" /\ pos[p] > Len(Cur(p))
    /\ results' = [results EXCEPT ![p] = Append(@, ops[p])]
    /\ pc' = [pc EXCEPT ![p] = "idle"]
    /\ Log(p, "finish")
    /\ UNCHANGED <<calls, pos, ops, pend>>

Next == \E p \in Proc :
           \/ \E s \in Streams(p) : Start(p, s)
           \/ Push(p) \/ Copy(p) \/ Clear(p) \/ Finish(p)

Spec == Init /\ [][Next]_vars

\* ------------------------------ properties ------------------------------

\* every finished call returned the sequential meaning of its own stream,
\* whatever ran before it and whatever ran concurrently
Isolation ==
    \A p \in Proc : \A i \in 1..Len(results[p]) : results[p][i] = Sequential(calls[p][i])

\* no operand of another process ever appears in p's operations
NoForeignOperand ==
    \A p \in Proc : \A i \in 1..Len(ops[p]) : \A j \in 1..Len(ops[p][i]) : ops[p][i][j] = p

AllDone == \A p \in Proc : pc[p] = "idle" /\ Len(calls[p]) = MaxCalls

\* the schedule is history only
View == <<calls, pos, pc, ops, pend, results>>
=============================================================================
