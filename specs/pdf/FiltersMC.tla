------------------------------ MODULE FiltersMC ------------------------------
(* Bounded case generation for Filters: a case is built choice by choice.    *)
EXTENDS Filters, Json

CONSTANTS Alphabet, MaxRowLen, MaxRows, MaxLenAscii,
          Kinds,      \* the case families explored
          Preds       \* the /Predictor values declared for PNG data

VARIABLES kind, x, geo, tags, opt, stage, pred
vars == <<kind, x, geo, tags, opt, stage, pred>>

\* geometry: [cols, colors]; row length = cols * colors
Geos == {g \in [cols : 1..MaxRowLen, colors : 1..4] : g.cols * g.colors <= MaxRowLen}
RowLen(g) == g.cols * g.colors

AllKinds == {"png", "tiff", "hex", "a85", "chain", "err"}
AllPreds == 10..15
Init == /\ kind \in Kinds
        /\ x = <<>> /\ geo = [cols |-> 1, colors |-> 1] /\ tags = <<>> /\ opt = "none" /\ stage = "geo" /\ pred = 0

PickGeo == /\ stage = "geo"
           /\ IF kind \in {"png", "tiff"} THEN \E g \in Geos : geo' = g ELSE geo' = geo
           /\ stage' = "rows" /\ UNCHANGED <<kind, x, tags, opt, pred>>
\* number of rows / per-row filter types (png), payload length (others)
PickRows == /\ stage = "rows"
            /\ IF kind = "png" THEN \E n \in 1..MaxRows : \E t \in [1..n -> 0..4] : tags' = t
               ELSE IF kind = "tiff" THEN \E n \in 1..MaxRows : tags' = [i \in 1..n |-> 0]
               ELSE tags' = tags
            /\ stage' = "data" /\ UNCHANGED <<kind, x, geo, opt, pred>>
Lens == IF kind \in {"png", "tiff"} THEN {Len(tags) * RowLen(geo)} ELSE 0..MaxLenAscii
AddByte == /\ stage = "data" /\ Len(x) < CHOOSE m \in Lens : \A k \in Lens : k <= m
           /\ \E b \in Alphabet : x' = Append(x, b)
           /\ UNCHANGED <<kind, geo, tags, opt, stage, pred>>
Finish == /\ stage = "data" /\ Len(x) \in Lens
          /\ \E o \in (CASE kind = "hex" -> {"upper", "lower", "ws", "odd", "noeod"}
                         [] kind = "a85" -> {"plain", "ws", "lead"}
                         [] kind = "png" -> {"dict", "array", "absent-columns"}
                         [] kind = "tiff" -> {"dict"}
                         [] kind = "chain" -> {"AHx+A85", "A85+AHx", "A85+Fl", "AHx+Fl", "AHx+A85+Fl", "abbrev", "null-parms", "Fl+png",
                                               "Fl+Fl:dict-null", "Fl+Fl:short", "Fl+Fl:null-dict", "AHx+Fl+Fl:null-dict-null"}
                         [] kind = "err" -> {"tag5", "rowsize", "badhex", "bad85", "over85"}) : opt' = o
          \* the /Predictor value written in the dictionary: for PNG any of 10..15 - it only says "PNG prediction is in
          \* use"; the filter type of a row is the tag byte in front of it (ISO 32000-1 7.4.4.4), whatever was declared
          /\ IF kind = "png" THEN \E p \in Preds : pred' = p ELSE pred' = (IF kind = "tiff" THEN 2 ELSE 0)
          /\ stage' = "done" /\ UNCHANGED <<kind, x, geo, tags>>
Next == PickGeo \/ PickRows \/ AddByte \/ Finish
Spec == Init /\ [][Next]_vars
Done == stage = "done"

\* ---- what the harness needs: the encoded bytes (spec-computed) and the expectation
PngData == PngEnc(x, tags, RowLen(geo), geo.colors)
Encoded ==
    CASE kind = "png"  -> PngData
      [] kind = "tiff" -> TiffEnc(x, Len(tags), RowLen(geo), geo.colors)
      [] kind = "hex"  -> HexEnc(x, opt)
      [] kind = "a85"  -> A85Enc(x, opt)
      [] kind = "chain" /\ opt = "AHx+A85" -> HexEnc(A85Enc(x, "plain"), "upper")
      [] kind = "chain" /\ opt = "A85+AHx" -> A85Enc(HexEnc(x, "lower"), "plain")
      \* Flate + PNG predictor innermost (one row, Sub filter), wrapped in ASCII85 by the harness
      [] kind = "chain" /\ opt \in {"Fl+png", "Fl+Fl:null-dict"} -> IF x = <<>> THEN <<>> ELSE PngEnc(x, <<1>>, Len(x), 1)
      \* two Flate stages where only the OUTER one (decoded first) has a predictor: the harness predicts the
      \* deflated inner data with its own encoder (validated by FiltersTrace), DecodeParms [dict null] or [dict]
      [] kind = "chain" -> x                        \* Flate innermost: the harness deflates x and wraps it
      [] kind = "err" /\ opt = "tag5"    -> <<5>> \o x
      [] kind = "err" /\ opt = "rowsize" -> <<0>> \o x \o <<0, 7>>
      [] kind = "err" /\ opt = "badhex"  -> HexEnc(x, "noeod") \o <<71, 48, 62>>                \* G before the EOD marker
      [] kind = "err" /\ opt = "bad85"   -> <<33, 118, 33, 33, 33, 126, 62>>                    \* 'v' > 'u'
      [] kind = "err" /\ opt = "over85"  -> <<115, 56, 87, 45, 34, 126, 62>>                    \* "s8W-\"" = 2^32
Expect == IF kind = "err" THEN "error" ELSE "bytes"

Case == [kind |-> kind, opt |-> opt, pred |-> pred, x |-> x, cols |-> geo.cols, colors |-> geo.colors, tags |-> tags,
         enc |-> Encoded, expect |-> Expect]
Emit == Done => PrintT(ToJson(Case))

\* ---- the reference validates itself: decode(encode(x)) = x
RoundTrip == Done =>
    CASE kind = "png"  -> PngDec(PngData, RowLen(geo), geo.colors) = x
      [] kind = "tiff" -> TiffDec(Encoded, Len(tags), RowLen(geo), geo.colors) = x
      [] kind = "hex"  -> HexDec(Encoded) = x
      [] kind = "a85"  -> A85Dec(Encoded) = x
      [] OTHER -> TRUE
==============================================================================
