SPECIFICATION GenSpec
CONSTANTS
  K = 16
  MaxFaults = 1
CONSTRAINT Emit
CHECK_DEADLOCK FALSE
