SPECIFICATION Spec
CONSTANTS
  MaxEntries = 2
  Targets <- TargetsMC
  Widths = {1, 2}
INVARIANT Disjoint
CONSTRAINT Emit
CHECK_DEADLOCK FALSE
