------------------------------- MODULE GState -------------------------------
(***************************************************************************)
(* PDF graphics state / text positioning machine (ISO 32000-1 8.3.4, 8.4.2,*)
(* 9.3, 9.4.2).  Row-vector convention: a point p maps to p x Tm x CTM.    *)
(*                                                                         *)
(*   cm M      :  CTM' = M x CTM              (pre-multiply)               *)
(*   Td tx ty  :  Tlm' = T(tx,ty) x Tlm ; Tm' = Tlm'                       *)
(*   TD tx ty  :  TL' = -ty ; Td tx ty                                     *)
(*   T*        :  Td 0 -TL                                                 *)
(*   Tm M      :  Tm' = Tlm' = M                                           *)
(*   BT        :  Tm' = Tlm' = I                                           *)
(*   q / Q     :  push / pop (CTM and the text-state parameters)           *)
(*   Tj, ', "  :  show a string at origin (0,0) x Tm x CTM                 *)
(*   Do        :  q ; cm Matrix ; body ; Q     (Form XObject, 8.10.1)      *)
(*                                                                         *)
(* One action per operator.  All numbers are integers, so every product is *)
(* exact both here and in float64.                                         *)
(***************************************************************************)
EXTENDS Integers, Sequences, FiniteSets, TLC

CONSTANTS
    Ops,        \* the operator alphabet explored by the model checker
    MaxLen,     \* bound on program length (exhaustive configs)
    MaxDepth,   \* bound on q nesting
    Order       \* "pre": ISO 32000 (M x CTM).  "post": the operand order of the
                \* pinned implementation (CTM x M), kept as a refutable variant

VARIABLES
    ctm, tm, tlm,       \* 6-tuples <<a,b,c,d,e,f>>
    lead, fs, tc, tw, tz,
    stack,              \* sequence of saved [ctm, lead, fs, tc, tw, tz]
    inText,             \* inside BT .. ET
    posKnown,           \* the text origin is determined by positioning ops alone
    out,                \* fragments shown so far (only those with known origin)
    nshow,              \* number of show operators executed
    prog                \* history: the program so far

vars == <<ctm, tm, tlm, lead, fs, tc, tw, tz, stack, inText, posKnown, out, nshow, prog>>

Id == <<1, 0, 0, 1, 0, 0>>

\* model.Matrix.Multiply semantics: row-vector product m x o
Mul(m, o) == << m[1]*o[1] + m[2]*o[3],
                m[1]*o[2] + m[2]*o[4],
                m[3]*o[1] + m[4]*o[3],
                m[3]*o[2] + m[4]*o[4],
                m[5]*o[1] + m[6]*o[3] + o[5],
                m[5]*o[2] + m[6]*o[4] + o[6] >>

Tr(x, y) == <<1, 0, 0, 1, x, y>>

\* concatenation of a new matrix m onto the current one
Cat(m, cur) == IF Order = "pre" THEN Mul(m, cur) ELSE Mul(cur, m)

Det(m)  == m[1]*m[4] - m[2]*m[3]
Frob(m) == m[1]*m[1] + m[2]*m[2] + m[3]*m[3] + m[4]*m[4]
Abs(x)  == IF x < 0 THEN -x ELSE x
IsSim(m) == /\ m[1]*m[1] + m[2]*m[2] = m[3]*m[3] + m[4]*m[4]
            /\ m[1]*m[3] + m[2]*m[4] = 0

Saved == [ctm |-> ctm, lead |-> lead, fs |-> fs, tc |-> tc, tw |-> tw, tz |-> tz]

\* The fragment a show operator produces.  Origin = (0,0) x Tm x CTM, i.e. the
\* translation part of Tm x CTM.  Font size oracle (squares, integers):
\* with r = size / fs (kept relative to fs so that all numbers stay below 2^31):
\*   both Tm and CTM similarities  -> r^2 = |det Tm| |det CTM|           (exact)
\*   otherwise  det^2/(F F) <= r^2 <= F F                                (bounds)
\* where F is the squared Frobenius norm (sigma_max^2 <= F, sigma_min^2 >= det^2/F).
\* fs = 0 stands for "no Tf executed yet" (ISO 32000-1 has no default font size);
\* the size of such a fragment is not asserted (sized = FALSE).
FragAt(k, tmx, ctmx) ==
    LET t == Mul(tmx, ctmx)
        exact == IsSim(tmx) /\ IsSim(ctmx)
        dd == Det(tmx) * Det(tmx) * Det(ctmx) * Det(ctmx)
        ff == Frob(tmx) * Frob(ctmx)
    IN [k |-> k, x |-> t[5], y |-> t[6], sized |-> fs # 0, fs |-> fs,
        exact |-> exact,
        s2 |-> Abs(Det(tmx)) * Abs(Det(ctmx)),
        loNum |-> dd, loDen |-> ff, hi |-> ff]
Frag(k) == FragAt(k, tm, ctm)

Init ==
    /\ ctm = Id /\ tm = Id /\ tlm = Id
    /\ lead = 0 /\ fs = 0 /\ tc = 0 /\ tw = 0 /\ tz = 100
    /\ stack = <<>> /\ inText = FALSE /\ posKnown = FALSE
    /\ out = <<>> /\ nshow = 0 /\ prog = <<>>

\* ---- one action per operator; o is [op |-> name, a |-> argument tuple] ----

OpQSave(o) ==
    /\ o.op = "q" /\ ~inText
    /\ stack' = Append(stack, Saved)
    /\ UNCHANGED <<ctm, tm, tlm, lead, fs, tc, tw, tz, inText, posKnown, out, nshow>>

OpQRestore(o) ==
    /\ o.op = "Q" /\ ~inText /\ stack # <<>>
    /\ LET s == stack[Len(stack)] IN
         /\ ctm' = s.ctm /\ lead' = s.lead /\ fs' = s.fs
         /\ tc' = s.tc /\ tw' = s.tw /\ tz' = s.tz
    /\ stack' = SubSeq(stack, 1, Len(stack) - 1)
    /\ UNCHANGED <<tm, tlm, inText, posKnown, out, nshow>>

\* cm pre-multiplies the CTM wherever it stands - also between BT and ET, where ISO 32000-1 Figure 9 does not list it
\* among the operators of a text object: the statement quantifies over all programs and gives cm one meaning, and the
\* text rendering matrix is Tm x CTM with the CTM current at the showing operator (9.4.4)
OpCm(o) ==
    /\ o.op = "cm"
    /\ ctm' = Cat(o.a, ctm)
    /\ UNCHANGED <<tm, tlm, lead, fs, tc, tw, tz, stack, inText, posKnown, out, nshow>>

OpBT(o) ==
    /\ o.op = "BT" /\ ~inText
    /\ tm' = Id /\ tlm' = Id /\ inText' = TRUE /\ posKnown' = TRUE
    /\ UNCHANGED <<ctm, lead, fs, tc, tw, tz, stack, out, nshow>>

OpET(o) ==
    /\ o.op = "ET" /\ inText
    /\ inText' = FALSE /\ posKnown' = FALSE
    /\ UNCHANGED <<ctm, tm, tlm, lead, fs, tc, tw, tz, stack, out, nshow>>

OpTf(o) ==
    /\ o.op = "Tf"
    /\ fs' = o.a[1]
    /\ UNCHANGED <<ctm, tm, tlm, lead, tc, tw, tz, stack, inText, posKnown, out, nshow>>

OpTL(o) ==
    /\ o.op = "TL"
    /\ lead' = o.a[1]
    /\ UNCHANGED <<ctm, tm, tlm, fs, tc, tw, tz, stack, inText, posKnown, out, nshow>>

OpTc(o) ==
    /\ o.op = "Tc"
    /\ tc' = o.a[1]
    /\ UNCHANGED <<ctm, tm, tlm, lead, fs, tw, tz, stack, inText, posKnown, out, nshow>>

OpTw(o) ==
    /\ o.op = "Tw"
    /\ tw' = o.a[1]
    /\ UNCHANGED <<ctm, tm, tlm, lead, fs, tc, tz, stack, inText, posKnown, out, nshow>>

OpTz(o) ==
    /\ o.op = "Tz"
    /\ tz' = o.a[1]
    /\ UNCHANGED <<ctm, tm, tlm, lead, fs, tc, tw, stack, inText, posKnown, out, nshow>>

OpTm(o) ==
    /\ o.op = "Tm" /\ inText
    /\ tm' = o.a /\ tlm' = o.a /\ posKnown' = TRUE
    /\ UNCHANGED <<ctm, lead, fs, tc, tw, tz, stack, inText, out, nshow>>

OpTd(o) ==
    /\ o.op = "Td" /\ inText
    /\ tlm' = Cat(Tr(o.a[1], o.a[2]), tlm) /\ tm' = tlm' /\ posKnown' = TRUE
    /\ UNCHANGED <<ctm, lead, fs, tc, tw, tz, stack, inText, out, nshow>>

OpTD(o) ==
    /\ o.op = "TD" /\ inText
    /\ lead' = -o.a[2]
    /\ tlm' = Cat(Tr(o.a[1], o.a[2]), tlm) /\ tm' = tlm' /\ posKnown' = TRUE
    /\ UNCHANGED <<ctm, fs, tc, tw, tz, stack, inText, out, nshow>>

OpTstar(o) ==
    /\ o.op = "T*" /\ inText
    /\ tlm' = Cat(Tr(0, -lead), tlm) /\ tm' = tlm' /\ posKnown' = TRUE
    /\ UNCHANGED <<ctm, lead, fs, tc, tw, tz, stack, inText, out, nshow>>

\* After a show the text matrix has advanced by the glyph widths, which this
\* module does not model (section "Limits"): the origin becomes unknown until
\* the next positioning operator.  tm keeps its pre-show value here; the trace
\* specification does not bind tm while posKnown is false.
OpTj(o) ==
    /\ o.op = "Tj" /\ inText
    /\ out' = IF posKnown THEN Append(out, Frag(nshow)) ELSE out
    /\ nshow' = nshow + 1 /\ posKnown' = FALSE
    /\ UNCHANGED <<ctm, tm, tlm, lead, fs, tc, tw, tz, stack, inText>>

\* '  ==  T* ; Tj
OpQuote(o) ==
    /\ o.op = "'" /\ inText
    /\ tlm' = Cat(Tr(0, -lead), tlm) /\ tm' = tlm'
    /\ out' = Append(out, FragAt(nshow, tm', ctm))
    /\ nshow' = nshow + 1 /\ posKnown' = FALSE
    /\ UNCHANGED <<ctm, lead, fs, tc, tw, tz, stack, inText>>

\* ' and " with an EMPTY string (a blank line): the move to the next line happens, nothing is shown, and - no glyph
\* having advanced the text matrix - the position of the next show is known
OpQuoteE(o) ==
    /\ o.op = "'e" /\ inText
    /\ tlm' = Cat(Tr(0, -lead), tlm) /\ tm' = tlm' /\ posKnown' = TRUE
    /\ UNCHANGED <<ctm, lead, fs, tc, tw, tz, stack, inText, out, nshow>>
OpDQuoteE(o) ==
    /\ o.op = "dqe" /\ inText
    /\ tw' = o.a[1] /\ tc' = o.a[2]
    /\ tlm' = Cat(Tr(0, -lead), tlm) /\ tm' = tlm' /\ posKnown' = TRUE
    /\ UNCHANGED <<ctm, lead, fs, tz, stack, inText, out, nshow>>

\* aw ac string "  ==  aw Tw ; ac Tc ; string '
OpDQuote(o) ==
    /\ o.op = "dq" /\ inText
    /\ tw' = o.a[1] /\ tc' = o.a[2]
    /\ tlm' = Cat(Tr(0, -lead), tlm) /\ tm' = tlm'
    /\ out' = Append(out, FragAt(nshow, tm', ctm))
    /\ nshow' = nshow + 1 /\ posKnown' = FALSE
    /\ UNCHANGED <<ctm, lead, fs, tz, stack, inText>>

\* /Fm Do  ==  q ; Matrix cm ; <body> ; Q   with body "BT (s) Tj ET" (8.10.1):
\* the form matrix is concatenated like cm, the body starts a fresh text object,
\* and the caller's state is restored.
OpDo(o) ==
    /\ o.op = "Do" /\ ~inText
    /\ out' = Append(out, FragAt(nshow, Id, Cat(o.a, ctm)))
    /\ nshow' = nshow + 1
    /\ UNCHANGED <<ctm, tm, tlm, lead, fs, tc, tw, tz, stack, inText, posKnown>>

Step(o) ==
    /\ \/ OpQSave(o) \/ OpQRestore(o) \/ OpCm(o) \/ OpBT(o) \/ OpET(o)
       \/ OpTf(o) \/ OpTL(o) \/ OpTc(o) \/ OpTw(o) \/ OpTz(o)
       \/ OpTm(o) \/ OpTd(o) \/ OpTD(o) \/ OpTstar(o)
       \/ OpTj(o) \/ OpQuote(o) \/ OpDQuote(o) \/ OpDo(o) \/ OpQuoteE(o) \/ OpDQuoteE(o)
    /\ prog' = Append(prog, o)

Next == \E o \in Ops :
           /\ Len(prog) < MaxLen
           /\ (o.op = "q" => Len(stack) < MaxDepth)
           /\ Step(o)

Spec == Init /\ [][Next]_vars

\* ------------------------------ properties ------------------------------

TypeOK ==
    /\ Len(ctm) = 6 /\ Len(tm) = 6 /\ Len(tlm) = 6
    /\ inText \in BOOLEAN /\ posKnown \in BOOLEAN
    /\ Len(stack) <= MaxDepth
    /\ nshow >= Len(out)

\* A positioning operator always leaves Tm = Tlm (9.4.2).
LineMatrixSync == (inText /\ posKnown) => tm = tlm

\* q .. Q restores exactly what q saved (action property).
QRestores ==
    [][ (Len(stack') < Len(stack)) =>
            /\ ctm' = stack[Len(stack)].ctm /\ fs' = stack[Len(stack)].fs
            /\ lead' = stack[Len(stack)].lead /\ tc' = stack[Len(stack)].tc
            /\ tw' = stack[Len(stack)].tw /\ tz' = stack[Len(stack)].tz ]_vars

\* BT resets both text matrices.
BTResets == [][ (~inText /\ inText') => (tm' = Id /\ tlm' = Id) ]_vars

\* Only cm and Q change the CTM; inside a text object only cm does.
CtmStable == [][ inText => (ctm' = ctm \/ prog'[Len(prog')].op = "cm") ]_vars

\* The translation part of the text line matrix only changes by the linear part
\* of tlm applied to the operand (pre-multiplication), never by the raw operand
\* when tlm is not the identity: Td x y under tlm moves the origin by (x,y) x L(tlm).
TdPremultiplies ==
    [][ (prog' # prog /\ prog'[Len(prog')].op = "Td") =>
          LET o == prog'[Len(prog')] IN
            /\ tlm'[5] - tlm[5] = o.a[1]*tlm[1] + o.a[2]*tlm[3]
            /\ tlm'[6] - tlm[6] = o.a[1]*tlm[2] + o.a[2]*tlm[4] ]_vars

\* cm pre-multiplies: the new CTM maps the origin to (e,f) of M pushed through
\* the OLD ctm.
CmPremultiplies ==
    [][ (prog' # prog /\ prog'[Len(prog')].op = "cm") =>
          LET m == prog'[Len(prog')].a IN
            /\ ctm'[5] = m[5]*ctm[1] + m[6]*ctm[3] + ctm[5]
            /\ ctm'[6] = m[5]*ctm[2] + m[6]*ctm[4] + ctm[6] ]_vars

=============================================================================
