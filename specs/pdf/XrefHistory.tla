----------------------------- MODULE XrefHistory -----------------------------
(***************************************************************************)
(* Incremental-update histories of a PDF file and object lookup            *)
(* (ISO 32000-1 7.5.4 - 7.5.8).                                            *)
(*                                                                         *)
(* A history is a sequence of revisions.  A revision has a cross-reference *)
(* kind ("table" | "stream") and, for every object number, one of          *)
(*    "keep"                      the revision does not mention the object *)
(*    "free"                      the revision frees it                    *)
(*    "plain" | "instm"           a scalar written as an indirect object / *)
(*                                packed in a fresh object stream          *)
(*    "stream" | "streamref"      a stream object with a direct /Length /  *)
(*                                a /Length given by reference to LH       *)
(* The value written by revision r for object n is Val(r, n) (distinct for *)
(* all (r, n)), so a lookup result identifies the revision it came from.   *)
(*                                                                         *)
(* Contract: Lookup(n) = the value of the newest revision defining n; an   *)
(* error if that revision frees it or none defines it; independent of the  *)
(* order of lookups and of cache clears.                                   *)
(*                                                                         *)
(* Implementation-shaped layer (reader.Reader): the sections are discovered*)
(* newest first, merged in MergeOrder, lookups go through the merged table *)
(* and fill an object cache; a streamref lookup performs a nested lookup   *)
(* of the length holder.                                                   *)
(***************************************************************************)
EXTENDS Integers, Sequences, FiniteSets, TLC

CONSTANTS N,            \* object numbers 1..N
          MaxRev,       \* bound on the number of revisions
          MaxLook,      \* bound on the number of lookups (exhaustive configs)
          MergeOrder    \* "newest-wins" (required) | "oldest-wins" (refutable variant)

Obj == 1..N
Err == -1
Ops == {"keep", "free", "plain", "instm", "stream", "streamref"}
Val(r, n) == r * 10 + n

VARIABLES revs,     \* the history
          opened,   \* the reader has been opened on it
          merged,   \* implementation: object -> index of the revision whose entry is used (0 = none)
          cache,    \* implementation: object -> cached value | None (= 0)
          log       \* history variable: <<[n, res]>> lookups so far

vars == <<revs, opened, merged, cache, log>>

None == 0

DefRevsIn(h, n) == {r \in 1..Len(h) : h[r].ops[n] # "keep"}
DefRevs(n)    == DefRevsIn(revs, n)
Max(S)        == CHOOSE x \in S : \A y \in S : y <= x
Min(S)        == CHOOSE x \in S : \A y \in S : y >= x

\* ------------------------------------------------------------- contract
Newest(n) == IF DefRevs(n) = {} THEN Err
             ELSE LET r == Max(DefRevs(n)) IN
                  IF revs[r].ops[n] = "free" THEN Err ELSE Val(r, n)

\* an object is live before revision r iff the revisions < r define it and the newest does not free it
LiveBefore(h, n) == LET D == {r \in 1..Len(h) : h[r].ops[n] # "keep"} IN
                    D # {} /\ h[Max(D)].ops[n] # "free"

HolesAllowed == TRUE
\* a legal next revision: frees live objects (or lists holes), packs only under an xref stream,
\* mentions at least one object
LegalRev(h, rv) ==
    /\ rv.kind \in {"table", "stream"}
    /\ \A n \in Obj : rv.ops[n] \in Ops
    \* (a free entry may also name a number that is not live: a hole listed as free in the base revision, or a number freed
    \* again - a later revision can still take the number into use)
    /\ \A n \in Obj : rv.ops[n] = "free" => (LiveBefore(h, n) \/ HolesAllowed)
    /\ \A n \in Obj : rv.ops[n] = "instm" => rv.kind = "stream"
    /\ \E n \in Obj : rv.ops[n] # "keep"
    \* the length holder LH (object N+1, value = the common stream body length) is
    \* defined by the first revision and may be re-written (same value) later
    /\ rv.lh \in {"keep", "plain", "instm"}
    /\ (h = <<>> => rv.lh # "keep")
    /\ (rv.lh = "instm" => rv.kind = "stream")

Init == revs = <<>> /\ opened = FALSE /\ merged = [n \in Obj |-> 0]
        /\ cache = [n \in Obj |-> None] /\ log = <<>>

AppendRev(rv) ==
    /\ ~opened /\ Len(revs) < MaxRev /\ LegalRev(revs, rv)
    /\ revs' = Append(revs, rv)
    /\ UNCHANGED <<opened, merged, cache, log>>

MergedOf(h) == [n \in Obj |-> IF DefRevsIn(h, n) = {} THEN 0
                              ELSE IF MergeOrder = "newest-wins" THEN Max(DefRevsIn(h, n)) ELSE Min(DefRevsIn(h, n))]

\* reader.NewReader: discover the sections (newest first by /Prev), merge them
Open ==
    /\ ~opened /\ revs # <<>>
    /\ opened' = TRUE
    /\ merged' = MergedOf(revs)
    /\ UNCHANGED <<revs, cache, log>>

ViaMerged(n) == IF merged[n] = 0 THEN Err
                ELSE IF revs[merged[n]].ops[n] = "free" THEN Err ELSE Val(merged[n], n)

Lookup(n) ==
    /\ opened
    /\ LET res == IF cache[n] # None THEN cache[n] ELSE ViaMerged(n) IN
         /\ log' = Append(log, <<n, res>>)
         /\ cache' = IF res # Err THEN [cache EXCEPT ![n] = res] ELSE cache
    /\ UNCHANGED <<revs, opened, merged>>

ClearCache ==
    /\ opened
    /\ cache' = [n \in Obj |-> None]
    /\ log' = Append(log, <<0, 0>>)
    /\ UNCHANGED <<revs, opened, merged>>

RevSpace == [kind : {"table", "stream"}, ops : [Obj -> Ops], lh : {"keep", "plain", "instm"}]

Next == \/ \E rv \in RevSpace : AppendRev(rv)
        \/ Open
        \/ (Len(log) < MaxLook /\ \E n \in Obj : Lookup(n))
        \/ (Len(log) < MaxLook /\ ClearCache)

Spec == Init /\ [][Next]_vars

\* ----------------------------------------------------------- properties
LookupCorrect == \A i \in 1..Len(log) : log[i][1] # 0 => log[i][2] = Newest(log[i][1])
CacheSound    == \A n \in Obj : cache[n] # None => cache[n] = Newest(n)
\* a cached value is never replaced by a different one
CacheStable   == [][\A n \in Obj : cache[n] # None => cache'[n] \in {None, cache[n]}]_vars
\* order independence: two lookups of the same object in one history agree
OrderIndependent == \A i, j \in 1..Len(log) : (log[i][1] # 0 /\ log[i][1] = log[j][1]) => log[i][2] = log[j][2]

=============================================================================
