SPECIFICATION Spec
CONSTANTS
  MaxLen = 4
  Mode = "drop"
INVARIANT BoundedWork
PROPERTY Termination
CHECK_DEADLOCK FALSE
