------------------------------ MODULE CMapRobust ------------------------------
(***************************************************************************)
(* Token streams for the ToUnicode CMap reader (the third parser of the    *)
(* library next to core.Parser and contentstream.Parser).  A CMap program  *)
(* is read by looking for section keywords; whatever sequence of keywords, *)
(* hex tokens, counts and brackets a stream holds, and whether or not      *)
(* white space separates two of them, font.ParseToUnicodeCMap and a lookup *)
(* through the result must RETURN (a value or an error).  Two keywords     *)
(* written without white space may share letters ("...rang" + "e" +        *)
(* "ndbfrange"), a section may be opened and never closed, closed and      *)
(* never opened, or nested.                                                *)
(***************************************************************************)
EXTENDS Integers, Sequences, TLC, Json

CONSTANT MaxToks
Alphabet == {"begincodespacerange", "endcodespacerange", "beginbfchar", "endbfchar", "beginbfrange", "endbfrange",
             "begincmap", "endcmap", "<00>", "<0041>", "<FF", "[", "]", "1", "100000"}
VARIABLES toks, tight      \* tight[i]: what stands between token i and token i+1: white space ("sp"), nothing ("none"), or
                           \* nothing with the last letter of one being the first letter of the other ("share": rang-e-ndbfrange)
Init == toks = <<>> /\ tight = <<>>
Add == /\ Len(toks) < MaxToks
       /\ \E t \in Alphabet : toks' = Append(toks, t)
       /\ \E b \in {"sp", "none", "share"} : tight' = IF toks = <<>> THEN <<>> ELSE Append(tight, b)
Spec == Init /\ [][Add]_<<toks, tight>>
Outcomes == {"value", "error"}
\* the contract has no other outcome: a panic, a dead process or a stalled one is not a step
Emit == toks # <<>> => PrintT(ToJson([cmaptoks |-> toks, tight |-> tight]))
================================================================================
