SPECIFICATION GenSpec
CONSTANTS
  Leaves <- LeavesMid
  Keys <- KeysMC
  OpNames <- OpsSmall
  Policies <- PoliciesWs
  MaxToks = 3
  MaxDepth = 1
INVARIANTS WellNested SepAlwaysOK
CONSTRAINT Emit
CHECK_DEADLOCK FALSE
