---------------------------- MODULE PdfLayoutTrace ----------------------------
(* Events recorded from tabula.Open / reader.Open on rendered files:           *)
(*  {"event":"Extract","layout":L,"pageCount":n,"pages":[[[f,t],..],..],"box":[..]} *)
(* accepted iff the observation equals Expected(L) of PdfLayout.tla.            *)
EXTENDS PdfLayout, Json
Trace == ndJsonDeserialize("trace.ndjson")
VARIABLE l
TraceInit == Init /\ l = 1
\* JSON gives the layout as a record; the specification uses a function on option names
AsFun(r) == [k \in {OptNames[i] : i \in 1..Len(OptNames)} |-> r[k]]
TraceExtract ==
    /\ l <= Len(Trace) /\ Trace[l].event = "Extract" /\ l' = l + 1
    /\ LET ev == Trace[l] Lx == AsFun(ev.layout) ex == Expected(Lx) IN
         /\ \A i \in 1..Len(OptNames) : Lx[OptNames[i]] \in Dom(OptNames[i], Lx)     \* a legal layout
         /\ ev.pageCount = ex.pageCount
         /\ ev.pages = ex.pages
         /\ ev.box = ex.mediaBox
         /\ L' = Lx /\ step' = Len(OptNames) + 1
TraceSpec == TraceInit /\ [][TraceExtract]_<<vars, l>>
TraceAccepted == TLCGet("stats").diameter - 1 = Len(Trace)
===============================================================================
