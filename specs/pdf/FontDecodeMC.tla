----------------------------- MODULE FontDecodeMC -----------------------------
(* Case generation: (1) every (encoding, code) pair; (2) CMaps built entry by *)
(* entry from a catalogue, rendered under every formatting policy, with a     *)
(* string of mapped codes and its expected text; (3) UTF-16 strings with BOM. *)
EXTENDS FontDecode, Json

CONSTANTS MaxEntries, Targets, Widths

VARIABLES kind, enc, code, cm, fmt, stage, cps
vars == <<kind, enc, code, cm, fmt, stage, cps>>

\* targets: BMP char, non-ASCII BMP, supplementary plane (surrogate pair), ligature expansion, base + combining mark
\* ... and targets whose last UTF-16 unit sits just below a multiple of 256, so that the increments of a range
\* carry out of its low byte: one unit (U+00FF), a surrogate pair (U+1D4FE = D835 DCFE), a two-character expansion
\* ... and a letter and a combining mark as targets of codes of their own (the mark composes with whatever letter the
\* code shown before it gave)
TargetsMC == { <<66>>, <<8364>>, <<128512>>, <<102, 102, 105>>, <<101, 769>>, <<255>>, <<120062>>, <<102, 511>>, <<101>>, <<769>> }
\* (a range target's last UTF-16 unit is incremented, so 3-code ranges need headroom: FFFD.., DFFD..)
TargetsBig == TargetsMC \cup { <<65533>>, <<1114109>>, <<117, 776>>, <<57344>> }

Fmts == { [sep |-> "lf", tight |-> FALSE, lower |-> FALSE, split |-> FALSE, order |-> "asc"],
          [sep |-> "crlf", tight |-> TRUE, lower |-> TRUE, split |-> FALSE, order |-> "asc"],
          [sep |-> "sp", tight |-> FALSE, lower |-> FALSE, split |-> FALSE, order |-> "asc"],
          [sep |-> "lf", tight |-> FALSE, lower |-> TRUE, split |-> TRUE, order |-> "asc"],
          [sep |-> "cr", tight |-> TRUE, lower |-> FALSE, split |-> FALSE, order |-> "asc"],
          [sep |-> "lf", tight |-> FALSE, lower |-> FALSE, split |-> FALSE, order |-> "desc"],
          [sep |-> "crlf", tight |-> FALSE, lower |-> TRUE, split |-> FALSE, order |-> "sections"] }
NoFmt == [sep |-> "lf", tight |-> FALSE, lower |-> FALSE, split |-> FALSE, order |-> "asc"]
NoCm == [width |-> 1, entries |-> <<>>]

Init == /\ kind \in {"table", "cmap", "utf16", "prio"}
        /\ enc = "" /\ code = 0 /\ cm = NoCm /\ fmt = NoFmt /\ stage = "start" /\ cps = <<>>

\* (1) tables
PickTable == /\ kind = "table" /\ stage = "start"
             /\ \E i \in 1..Len(EncNames) : enc' = EncNames[i]
             /\ \E c \in 0..255 : code' = c
             /\ stage' = "done" /\ UNCHANGED <<kind, cm, fmt, cps>>

\* (2) CMaps: width, then entries with distinct leading bytes (so entries are disjoint)
CodeAt(w, i) == [j \in 1..w |-> IF j = w THEN 16 * i ELSE IF j = 1 THEN i ELSE 0]
EntryOpts(w, i) ==
    {[k |-> "char", code |-> CodeAt(w, i), dst |-> t] : t \in Targets}
    \cup {[k |-> "range", lo |-> CodeAt(w, i), n |-> 3, dst |-> t] : t \in Targets}
    \cup {[k |-> "arr", lo |-> CodeAt(w, i), dsts |-> <<t, <<65>>, t>>] : t \in Targets}
PickWidth == /\ kind \in {"cmap", "prio"} /\ stage = "start"
             /\ \E w \in Widths : cm' = [width |-> w, entries |-> <<>>]
             /\ stage' = "entries" /\ UNCHANGED <<kind, enc, code, fmt, cps>>
AddEntry == /\ stage = "entries" /\ Len(cm.entries) < MaxEntries
            /\ \E e \in EntryOpts(cm.width, Len(cm.entries) + 1) : cm' = [cm EXCEPT !.entries = Append(@, e)]
            /\ UNCHANGED <<kind, enc, code, fmt, stage, cps>>
PickFmt == /\ stage = "entries" /\ cm.entries # <<>>
           /\ \E f \in Fmts : fmt' = f
           /\ (IF kind = "prio" THEN enc' = "WinAnsiEncoding" ELSE enc' = enc)
           /\ stage' = "done" /\ UNCHANGED <<kind, code, cm, cps>>

\* (3) UTF-16 strings
AddCp == /\ kind = "utf16" /\ stage = "start" /\ Len(cps) < 3
         /\ \E c \in {65, 233, 55295, 57344, 65535, 65536, 128512, 1114111} : cps' = Append(cps, c)
         /\ UNCHANGED <<kind, enc, code, cm, fmt, stage>>
FinishUtf == /\ kind = "utf16" /\ stage = "start" /\ cps # <<>>
             /\ \E be \in BOOLEAN : fmt' = [NoFmt EXCEPT !.lower = be]      \* lower stands for "big endian" here
             /\ stage' = "done" /\ UNCHANGED <<kind, enc, code, cm, cps>>

Next == PickTable \/ PickWidth \/ AddEntry \/ PickFmt \/ AddCp \/ FinishUtf
Spec == Init /\ [][Next]_vars
Done == stage = "done"

\* the string shown with a CMap font: every code of every entry, in entry order
AllCodes == FlatS([i \in 1..Len(cm.entries) |->
               LET e == cm.entries[i] IN
               CASE e.k = "char" -> <<e.code>>
                 [] e.k = "range" -> [j \in 1..e.n |-> Bump(e.lo, j - 1)]
                 [] e.k = "arr" -> [j \in 1..Len(e.dsts) |-> Bump(e.lo, j - 1)]])

Case ==
    CASE kind = "table" -> [kind |-> kind, enc |-> enc, code |-> code, expect |-> EncTab(enc)[code + 1]]
      [] kind \in {"cmap", "prio"} -> [kind |-> kind, enc |-> enc, width |-> cm.width, fmt |-> fmt, program |-> Render(cm, fmt),
                                      codes |-> FlatS(AllCodes), expect |-> DecodeCMap(cm, AllCodes), entries |-> cm.entries]
      [] kind = "utf16" -> [kind |-> kind, be |-> fmt.lower, bytes |-> Utf16(cps, fmt.lower), expect |-> Compose(cps)]
Emit == Done => PrintT(ToJson(Case))

\* internal consistency: entries of a generated CMap never overlap
Disjoint == \A i, j \in 1..Len(cm.entries) : i # j => \A c \in Range(AllCodes) : ~(Covers(cm.entries[i], c) /\ Covers(cm.entries[j], c))
===============================================================================
