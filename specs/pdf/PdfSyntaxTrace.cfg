SPECIFICATION TraceSpec
CONSTANTS
  Leaves = {}
  Keys <- NoKeys
  OpNames = {}
  MaxToks = 0
  MaxDepth = 0
POSTCONDITION TraceAccepted
CHECK_DEADLOCK FALSE
