SPECIFICATION Spec
CONSTANTS
  N = 2
  MaxRev = 2
  MaxLook = 2
  MergeOrder = "oldest-wins"
INVARIANTS LookupCorrect CacheSound OrderIndependent
PROPERTY CacheStable
CHECK_DEADLOCK FALSE
