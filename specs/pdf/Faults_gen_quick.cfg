SPECIFICATION GenSpec
CONSTANTS
  K = 6
  MaxFaults = 1
CONSTRAINT Emit
CHECK_DEADLOCK FALSE
