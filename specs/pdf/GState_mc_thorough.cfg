SPECIFICATION Spec
CONSTANTS
  Ops <- OpsA
  MaxLen = 5
  MaxDepth = 2
  Order = "pre"
INVARIANTS TypeOK LineMatrixSync
PROPERTIES QRestores BTResets CtmStable TdPremultiplies CmPremultiplies
CHECK_DEADLOCK FALSE
