SPECIFICATION Spec
CONSTANTS
  K = 2
  MaxFaults = 1
INVARIANT AlwaysReturns
CHECK_DEADLOCK FALSE
