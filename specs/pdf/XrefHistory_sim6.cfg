SPECIFICATION GenSpec
CONSTANTS
  N = 3
  MaxRev = 6
  MaxLook = 0
  MergeOrder = "newest-wins"
CONSTRAINT EmitOpen
CHECK_DEADLOCK FALSE
