------------------------------ MODULE PdfSyntax ------------------------------
(***************************************************************************)
(* PDF object syntax (ISO 32000-1 7.2, 7.3) as a writer: an object tree is *)
(* a well-nested sequence of tokens (prefix/flattened form), Spell(toks,   *)
(* policy) is the byte sequence a conforming writer may produce for it.    *)
(* The contract for BOTH parsers (document level and content stream) is    *)
(*        Parse(Spell(toks, P)) = toks      for every legal policy P.      *)
(* Bytes are integers 0..255.                                              *)
(*                                                                         *)
(* Tokens:  [k |-> "null"|"true"|"false"]                                  *)
(*          [k |-> "int",  sp |-> bytes, v |-> canonical digits]           *)
(*          [k |-> "real", sp |-> bytes, m |-> mantissa, e |-> exponent]   *)
(*          [k |-> "str",  b |-> bytes, bal |-> parentheses balanced]      *)
(*          [k |-> "name", b |-> bytes]                                    *)
(*          [k |-> "ref",  n |-> num, g |-> gen]                           *)
(*          [k |-> "["] [k |-> "]"] [k |-> "<<"] [k |-> ">>"]              *)
(*          [k |-> "op", b |-> bytes]        (content streams only)        *)
(***************************************************************************)
EXTENDS Integers, Sequences, FiniteSets, TLC, SequencesExt, Functions

CONSTANTS Leaves,     \* leaf tokens the generator may use
          Keys,       \* name byte-strings usable as dictionary keys (a sequence, ascending)
          OpNames,    \* operator tokens (content-stream programs)
          MaxToks, MaxDepth

\* ---------------------------------------------------------------- bytes
Hex(d)      == IF d < 10 THEN 48 + d ELSE 55 + d          \* upper-case digit
HexLo(d)    == IF d < 10 THEN 48 + d ELSE 87 + d          \* lower-case digit
IsWs(b)     == b \in {0, 9, 10, 12, 13, 32}
IsDelim(b)  == b \in {40, 41, 60, 62, 91, 93, 123, 125, 47, 37}
IsRegular(b) == ~IsWs(b) /\ ~IsDelim(b)
Flat(ss)    == FoldLeft(LAMBDA acc, s : acc \o s, <<>>, ss)
Kw(k)       == CASE k = "null"  -> <<110, 117, 108, 108>>
                 [] k = "true"  -> <<116, 114, 117, 101>>
                 [] k = "false" -> <<102, 97, 108, 115, 101>>
                 [] k = "["     -> <<91>>
                 [] k = "]"     -> <<93>>
                 [] k = "<<"    -> <<60, 60>>
                 [] k = ">>"    -> <<62, 62>>
RECURSIVE Digits(_)
Digits(n)   == IF n < 10 THEN <<48 + n>> ELSE Digits(n \div 10) \o <<48 + (n % 10)>>

\* policies:  ws   "min" | "one" | "all" | "cmt" | "cmt2"
\*            eol  "lf" | "cr" | "crlf"     (comment terminator)
\*            str  "lit" | "oct" | "octmix" | "octmin" | "cont" | "contraw" | "hex" | "hexws"
\*            name "plain" | "esc"
Eol(P) == CASE P.eol = "lf" -> <<10>> [] P.eol = "cr" -> <<13>> [] P.eol = "crlf" -> <<13, 10>>

\* literal string: always legal to escape \ ( ) ; a raw CR would be read as LF
\* (7.3.4.2), so CR is escaped; every other byte may be written raw
LitByte(b) == CASE b = 92 -> <<92, 92>> [] b = 40 -> <<92, 40>> [] b = 41 -> <<92, 41>>
                [] b = 13 -> <<92, 114>> [] OTHER -> <<b>>
\* raw parentheses are legal when balanced
LitByteBal(b) == CASE b = 92 -> <<92, 92>> [] b = 13 -> <<92, 114>> [] OTHER -> <<b>>
OctByte(b) == <<92, 48 + (b \div 64), 48 + ((b \div 8) % 8), 48 + (b % 8)>>
\* the shortest octal escape (7.3.4.2: one, two or three digits) - legal only when no digit follows it
OctMin(b) == IF b < 8 THEN <<92, 48 + b>> ELSE IF b < 64 THEN <<92, 48 + (b \div 8), 48 + (b % 8)>> ELSE OctByte(b)
Printable(b) == b >= 32 /\ b <= 126 /\ b \notin {40, 41, 92}
HexByte(b) == <<Hex(b \div 16), Hex(b % 16)>>
HexByteLo(b) == <<HexLo(b \div 16), HexLo(b % 16)>>

SpellStr(t, P) ==
    LET b == t.b IN
    CASE P.str = "lit"  -> <<40>> \o Flat([i \in 1..Len(b) |-> IF t.bal THEN LitByteBal(b[i]) ELSE LitByte(b[i])]) \o <<41>>
      [] P.str = "oct"  -> <<40>> \o Flat([i \in 1..Len(b) |-> OctByte(b[i])]) \o <<41>>
      \* what writers do: printable bytes raw, everything else as a three-digit escape - a raw digit may follow it
      [] P.str = "octmix" -> <<40>> \o Flat([i \in 1..Len(b) |-> IF Printable(b[i]) THEN <<b[i]>> ELSE OctByte(b[i])]) \o <<41>>
      \* the shortest escape wherever the next character written is not a digit
      [] P.str = "octmin" -> <<40>> \o Flat([i \in 1..Len(b) |->
                                  IF Printable(b[i]) THEN <<b[i]>>
                                  ELSE IF i < Len(b) /\ b[i + 1] >= 48 /\ b[i + 1] <= 57 THEN OctByte(b[i]) ELSE OctMin(b[i])]) \o <<41>>
      \* a backslash followed by an end-of-line marker is a line continuation (ignored)
      \* (LF is written as \n here: a raw LF after a continuation ending in CR would read as CRLF)
      [] P.str = "cont" -> <<40>> \o Flat([i \in 1..Len(b) |-> (IF b[i] = 10 THEN <<92, 110>> ELSE LitByte(b[i])) \o (IF i = 1 THEN <<92>> \o Eol(P) ELSE <<>>)]) \o <<41>>
      \* the same continuation, followed by raw data: after a continuation that ends in LF (or CRLF) a raw LF is
      \* string data (after one that ends in CR it would be the second half of the end-of-line marker: written \n there)
      [] P.str = "contraw" -> <<40>> \o Flat([i \in 1..Len(b) |-> (IF b[i] = 10 /\ P.eol = "cr" THEN <<92, 110>> ELSE LitByte(b[i])) \o (IF i = 1 THEN <<92>> \o Eol(P) ELSE <<>>)]) \o <<41>>
      [] P.str = "hex"  -> <<60>> \o Flat([i \in 1..Len(b) |-> HexByte(b[i])]) \o <<62>>
      \* lower case, white space between digits, final 0 digit omitted (7.3.4.3)
      [] P.str = "hexws" -> <<60>> \o Flat([i \in 1..Len(b) |->
                                  IF i = Len(b) /\ b[i] % 16 = 0 THEN <<HexLo(b[i] \div 16), 10>>
                                  ELSE <<HexLo(b[i] \div 16), 32>> \o <<HexLo(b[i] % 16)>>]) \o <<62>>

NameByte(b, P) == IF P.name = "plain" /\ IsRegular(b) /\ b # 35 /\ b > 32 /\ b < 127 THEN <<b>>
                  ELSE <<35>> \o HexByte(b)
SpellName(t, P) == <<47>> \o Flat([i \in 1..Len(t.b) |-> NameByte(t.b[i], P)])

SpellTok(t, P) ==
    CASE t.k \in {"null", "true", "false", "[", "]", "<<", ">>"} -> Kw(t.k)
      [] t.k = "int"  -> t.sp
      [] t.k = "real" -> t.sp
      [] t.k = "str"  -> SpellStr(t, P)
      [] t.k = "name" -> SpellName(t, P)
      [] t.k = "ref"  -> Digits(t.n) \o <<32>> \o Digits(t.g) \o <<32, 82>>
      [] t.k = "op"   -> t.b

\* separator between two adjacent spelled tokens a, b (byte sequences)
Sep(a, b, P) ==
    \* (a token ending in "/" is the empty name: a regular character after it would
    \*  become part of the name, so it is not self-delimiting on its right)
    CASE P.ws = "min" -> IF (IsDelim(a[Len(a)]) /\ a[Len(a)] # 47) \/ IsDelim(b[1]) THEN <<>> ELSE <<32>>
      [] P.ws = "one" -> <<32>>
      [] P.ws = "all" -> <<0, 9, 10, 12, 13, 32>>
      [] P.ws = "cmt" -> <<37, 99, 33>> \o Eol(P)        \* a comment is white space (7.2.3)
      \* ... and so are two comments in a row, the second one empty, with a blank before it
      [] P.ws = "cmt2" -> <<37, 97>> \o Eol(P) \o <<32, 37>> \o Eol(P)

Spell(toks, P) ==
    LET sp == [i \in 1..Len(toks) |-> SpellTok(toks[i], P)] IN
    Flat([i \in 1..Len(toks) |-> IF i = 1 THEN sp[i] ELSE Sep(sp[i-1], sp[i], P) \o sp[i]])

\* ------------------------------------------------------- tree generator
\* A pushdown machine producing well-nested token sequences.  ctx is the stack
\* of open containers: "a" (array) or "d" (dictionary, expecting a key when its
\* element count is even).  Dictionary keys are taken from Keys in ascending
\* order, so every dictionary has distinct keys and a canonical order.
VARIABLES toks, ctx, cnt, mode

gvars == <<toks, ctx, cnt, mode>>

Top      == ctx[Len(ctx)]
TopCnt   == cnt[Len(cnt)]
InDict   == ctx # <<>> /\ Top = "d"
WantKey  == InDict /\ TopCnt % 2 = 0
Bump     == IF cnt = <<>> THEN cnt ELSE [cnt EXCEPT ![Len(cnt)] = @ + 1]
Complete == ctx = <<>> /\ toks # <<>>

GenInit == toks = <<>> /\ ctx = <<>> /\ cnt = <<>> /\ mode \in {"object", "program"}

\* in "object" mode exactly one top-level object; in "program" mode operands
\* and operators alternate freely at top level
CanAddValue == /\ Len(toks) < MaxToks
               /\ ~WantKey
               /\ (mode = "object" => ~Complete)

AddLeaf(t) ==
    /\ CanAddValue
    /\ (mode = "program" => t.k # "ref")          \* references are not operands (7.8.2)
    /\ toks' = Append(toks, t) /\ cnt' = Bump /\ UNCHANGED <<ctx, mode>>

AddKey ==
    /\ WantKey /\ Len(toks) < MaxToks - 1
    /\ (TopCnt \div 2) + 1 <= Len(Keys)
    /\ toks' = Append(toks, [k |-> "name", b |-> Keys[(TopCnt \div 2) + 1]])
    /\ cnt' = Bump /\ UNCHANGED <<ctx, mode>>

Open(c) ==
    /\ CanAddValue /\ Len(ctx) < MaxDepth /\ Len(toks) < MaxToks - 1
    /\ toks' = Append(toks, [k |-> IF c = "a" THEN "[" ELSE "<<"])
    /\ ctx' = Append(ctx, c) /\ cnt' = Append(Bump, 0) /\ UNCHANGED mode

Close ==
    /\ ctx # <<>> /\ (Top = "d" => TopCnt % 2 = 0)
    /\ toks' = Append(toks, [k |-> IF Top = "a" THEN "]" ELSE ">>"])
    /\ ctx' = SubSeq(ctx, 1, Len(ctx) - 1) /\ cnt' = SubSeq(cnt, 1, Len(cnt) - 1) /\ UNCHANGED mode

AddOp(t) ==
    /\ mode = "program" /\ ctx = <<>> /\ Len(toks) < MaxToks
    /\ toks' = Append(toks, t) /\ UNCHANGED <<ctx, cnt, mode>>

GenNext == \/ \E t \in Leaves : AddLeaf(t)
           \/ AddKey \/ Open("a") \/ Open("d") \/ Close
           \/ \E t \in OpNames : AddOp(t)

GenSpec == GenInit /\ [][GenNext]_gvars

\* a case is ready when nothing is open (and a program ends with an operator)
Ready == /\ ctx = <<>> /\ toks # <<>>
         /\ (mode = "program" => toks[Len(toks)].k = "op")

\* ------------------------------------------------------------ properties
WellNested == Len(ctx) = Len(cnt) /\ Len(ctx) <= MaxDepth
\* the writer never produces an empty spelling and separators keep regular
\* tokens apart
SepOK(P) == \A i \in 2..Len(toks) :
               LET a == SpellTok(toks[i-1], P) b == SpellTok(toks[i], P) IN
               ((IsRegular(a[Len(a)]) \/ a[Len(a)] = 47) /\ IsRegular(b[1])) => Sep(a, b, P) # <<>>
=============================================================================
