SPECIFICATION Spec
CONSTANTS
  Ops <- OpsA
  MaxLen = 4
  MaxDepth = 2
  Order = "post"
INVARIANTS TypeOK LineMatrixSync
PROPERTIES QRestores BTResets CtmStable TdPremultiplies CmPremultiplies
CHECK_DEADLOCK FALSE
