SPECIFICATION GenSpec
CONSTANTS
  K = 16
  MaxFaults = 2
CONSTRAINT Emit
CHECK_DEADLOCK FALSE
