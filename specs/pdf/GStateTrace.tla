----------------------------- MODULE GStateTrace -----------------------------
(* Trace validation for GState: every line of trace.ndjson is one operator   *)
(* executed on the real graphicsstate.GraphicsState, with the full projected *)
(* state logged after it.  Segments are separated by "Reset" events.         *)
EXTENDS GState, Json

Trace == ndJsonDeserialize("trace.ndjson")

VARIABLE l
tvars == <<vars, l>>

TraceInit == Init /\ l = 1

Ev == Trace[l]

TraceReset ==
    /\ l <= Len(Trace) /\ Ev.event = "Reset" /\ l' = l + 1
    /\ ctm' = Id /\ tm' = Id /\ tlm' = Id
    /\ lead' = 0 /\ fs' = 0 /\ tc' = 0 /\ tw' = 0 /\ tz' = 100
    /\ stack' = <<>> /\ inText' = FALSE /\ posKnown' = FALSE
    /\ out' = <<>> /\ nshow' = 0 /\ prog' = <<>>

IsShowOp(n) == n \in {"Tj", "'", "dq", "Do"}

TraceOp ==
    /\ l <= Len(Trace) /\ Ev.event = "Op" /\ l' = l + 1
    /\ "err" \notin DOMAIN Ev
    /\ Step([op |-> Ev.op, a |-> Ev.a])
    \* every logged field is bound to the successor state
    /\ ctm' = Ev.ctm
    /\ lead' = Ev.lead /\ tc' = Ev.tc /\ tw' = Ev.tw /\ tz' = Ev.tz
    /\ (fs' # 0 => fs' = Ev.fs)
    /\ (inText' => tlm' = Ev.tlm)
    /\ ((inText' /\ posKnown') => tm' = Ev.tm)
    /\ ((IsShowOp(Ev.op) /\ Len(out') > Len(out)) =>
            /\ out'[Len(out')].x = Ev.x /\ out'[Len(out')].y = Ev.y)

TraceNext == TraceReset \/ TraceOp

TraceSpec == TraceInit /\ [][TraceNext]_tvars

TraceAccepted == TLCGet("stats").diameter - 1 = Len(Trace)
=============================================================================
