SPECIFICATION Spec
CONSTANTS
  Proc = {1, 2}
  MaxTok = 3
  MaxCalls = 2
  Shared = TRUE
INVARIANTS Isolation NoForeignOperand
VIEW View
CHECK_DEADLOCK FALSE
