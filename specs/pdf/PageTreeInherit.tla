--------------------------- MODULE PageTreeInherit ---------------------------
(***************************************************************************)
(* Inheritable page attributes (ISO 32000-1 7.7.3.4): the value for a leaf *)
(* is the one of the nearest ancestor-or-self that defines the key.        *)
(* Levels 0 (leaf) .. Depth (root).  defs = set of levels defining the key;*)
(* the value defined at level k is k.                                      *)
(* Algorithm "oneParent": look at the leaf and at its immediate parent     *)
(* only (pages.Page.getBox as pinned).  Algorithm "env": the traversal     *)
(* carries the nearest definition down (the repair).                       *)
(***************************************************************************)
EXTENDS Integers, FiniteSets, TLC
CONSTANTS MaxDepth, Algorithm
VARIABLES depth, defs, level, env, result
vars == <<depth, defs, level, env, result>>
NotFound == -1
Pending == -2
Init == /\ depth \in 1..MaxDepth /\ defs \in SUBSET (0..MaxDepth) /\ defs \subseteq 0..depth
        /\ level = depth /\ env = NotFound /\ result = Pending
\* one traversal step from level to level-1, carrying the environment
Descend == /\ level > 0 /\ result = Pending
           /\ env' = IF level \in defs THEN level ELSE IF Algorithm = "env" THEN env ELSE NotFound
           /\ level' = level - 1 /\ UNCHANGED <<depth, defs, result>>
AtLeaf == /\ level = 0 /\ result = Pending
          /\ result' = IF 0 \in defs THEN 0 ELSE env
          /\ UNCHANGED <<depth, defs, level, env>>
Next == Descend \/ AtLeaf
Spec == Init /\ [][Next]_vars
Nearest == IF defs = {} THEN NotFound ELSE CHOOSE k \in defs : \A j \in defs : k <= j
Correct == result # Pending => result = Nearest
==============================================================================
