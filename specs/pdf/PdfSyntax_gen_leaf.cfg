SPECIFICATION GenSpec
CONSTANTS
  Leaves <- LeavesFull
  Keys <- KeysMC
  OpNames <- OpsMC
  Policies <- PoliciesFull
  MaxToks = 2
  MaxDepth = 1
INVARIANTS WellNested SepAlwaysOK
CONSTRAINT Emit
CHECK_DEADLOCK FALSE
