SPECIFICATION Spec
CONSTANTS
  N = 3
  Guard = TRUE
CONSTRAINT EmitGraph
CHECK_DEADLOCK FALSE
