SPECIFICATION Spec
CONSTANTS
  MaxLen = 4
  Mode = "sticky"
CONSTRAINT EmitInput
CHECK_DEADLOCK FALSE
