SPECIFICATION Spec
INVARIANT NamedWins
CONSTRAINT Emit
CHECK_DEADLOCK FALSE
