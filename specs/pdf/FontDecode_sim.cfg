SPECIFICATION Spec
CONSTANTS
  MaxEntries = 3
  Targets <- TargetsBig
  Widths = {1, 2, 3, 4}
INVARIANT Disjoint
CONSTRAINT Emit
CHECK_DEADLOCK FALSE
