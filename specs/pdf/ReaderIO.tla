------------------------------ MODULE ReaderIO ------------------------------
(***************************************************************************)
(* File-offset discipline of reader.Reader while an indirect object is     *)
(* parsed.  A parser frame reads through a buffer window [lo, hi) filled   *)
(* from the file; a stream body of n bytes is taken first from the window  *)
(* and then from the file.  With an indirect /Length a nested frame is     *)
(* opened (and closed) between the dictionary and the body.                *)
(* Mode "shared": every frame seeks and reads the one file position (the   *)
(* pinned code).  Mode "section": every frame has its own position (the    *)
(* repair).  Property: the body handed to the stream is exactly            *)
(* file[bodyStart, bodyStart + n).                                         *)
(***************************************************************************)
EXTENDS Integers, Sequences, FiniteSets, TLC
CONSTANTS Window, MaxBody, Mode
VARIABLES filePos, lo, hi, nextb, pc, nested, n, body, myPos
vars == <<filePos, lo, hi, nextb, pc, nested, n, body, myPos>>
ObjOff == 10   \* offset of the stream object
LenOff == 200  \* offset of the length object
Hdr    == 3    \* bytes of "N 0 obj << .. >> stream EOL" (abstract)
Init == /\ filePos = 0 /\ lo = 0 /\ hi = 0 /\ nextb = 0 /\ pc = "start" /\ myPos = 0
        /\ nested \in BOOLEAN /\ n \in 1..MaxBody /\ body = <<>>
\* seek + first buffer fill of the outer frame
OpenFrame == /\ pc = "start" /\ lo' = ObjOff /\ hi' = ObjOff + Window
             /\ filePos' = ObjOff + Window /\ myPos' = ObjOff + Window
             /\ nextb' = ObjOff + Hdr /\ pc' = IF nested THEN "resolve" ELSE "body"
             /\ UNCHANGED <<nested, n, body>>
\* nested GetObject for the length: seeks and fills its own buffer
Resolve == /\ pc = "resolve" /\ pc' = "body"
           /\ filePos' = IF Mode = "shared" THEN LenOff + Window ELSE filePos
           /\ UNCHANGED <<lo, hi, nextb, nested, n, body, myPos>>
\* ReadBytes(n): from the window, then from where this frame reads the file
Src == IF Mode = "shared" THEN filePos ELSE myPos
ReadBody == /\ pc = "body" /\ pc' = "done"
            /\ LET fromBuf == IF nextb + n <= hi THEN n ELSE hi - nextb
                   rest == n - fromBuf
               IN body' = [i \in 1..n |-> IF i <= fromBuf THEN nextb + i - 1 ELSE Src + (i - fromBuf) - 1]
            /\ UNCHANGED <<filePos, lo, hi, nextb, nested, n, myPos>>
Next == OpenFrame \/ Resolve \/ ReadBody
Spec == Init /\ [][Next]_vars
BodyIsContiguous == pc = "done" => \A i \in 1..n : body[i] = ObjOff + Hdr + i - 1
=============================================================================
