---------------------------- MODULE PdfSyntaxMC ----------------------------
EXTENDS PdfSyntax, Json

I(sp, v)     == [k |-> "int", sp |-> sp, v |-> v]
R(sp, m, e)  == [k |-> "real", sp |-> sp, m |-> m, e |-> e]
S(b, bal)    == [k |-> "str", b |-> b, bal |-> bal]
N(b)         == [k |-> "name", b |-> b]
K(k)         == [k |-> k]

IntLeaves == { I(<<48>>, <<48>>), I(<<45,49>>, <<45,49>>), I(<<43,49,55>>, <<49,55>>), I(<<48,48,55>>, <<55>>),
               I(<<50,49,52,55,52,56,51,54,52,56>>, <<50,49,52,55,52,56,51,54,52,56>>),
               I(<<57,50,50,51,51,55,50,48,51,54,56,53,52,55,55,53,56,48,55>>, <<57,50,50,51,51,55,50,48,51,54,56,53,52,55,55,53,56,48,55>>),
               I(<<45,57,50,50,51,51,55,50,48,51,54,56,53,52,55,55,53,56,48,56>>, <<45,57,50,50,51,51,55,50,48,51,54,56,53,52,55,55,53,56,48,56>>) }
\* numbers spelled with more than 32 characters (leading zeros, trailing zeros): one token each, whatever its length
Zeros(n) == [i \in 1..n |-> 48]
LongNumLeaves == { R(Zeros(40) \o <<46,53>>, 5, -1), R(<<49,46,53>> \o Zeros(40), 15, -1), R(<<45>> \o Zeros(36) \o <<46>> \o Zeros(3) \o <<50>>, -2, -4),
                   I(<<45>> \o Zeros(38) \o <<55>>, <<45,55>>), I(<<43>> \o Zeros(33) \o <<49,55>>, <<49,55>>) }
RealLeaves == { R(<<46,53>>, 5, -1), R(<<45,46,48,48,50>>, -2, -3), R(<<52,46>>, 4, 0),
                R(<<43,51,46,49,52>>, 314, -2), R(<<48,46,48>>, 0, 0), R(<<45,48,46,53>>, -5, -1) }
\* a grid of short decimals: every d.dd in [1,4), a stride through d.ddd in [1,2), some negative. Reading such a
\* token is one correctly rounded conversion (the token denotes m x 10^e exactly); digit-by-digit arithmetic in
\* floating point rounds twice and lands one unit in the last place away for a share of them
Dig(d) == 48 + d
RealGridLeaves == { R(<<Dig(m \div 100), 46, Dig((m \div 10) % 10), Dig(m % 10)>>, m, -2) : m \in 100..399 }
                  \cup { R(<<Dig(m \div 1000), 46, Dig((m \div 100) % 10), Dig((m \div 10) % 10), Dig(m % 10)>>, m, -3) : m \in {1000 + 7 * i : i \in 0..142} }
                  \cup { R(<<45, Dig(m \div 100), 46, Dig((m \div 10) % 10), Dig(m % 10)>>, -m, -2) : m \in {100 + 3 * i : i \in 0..99} }
                  \cup { R(<<Dig(m \div 10), 46, Dig(m % 10)>>, m, -1) : m \in 10..99 }
StrLeaves == { S(<<>>, TRUE), S(<<97>>, TRUE), S(<<40>>, FALSE), S(<<41>>, FALSE), S(<<40,41>>, TRUE),
               S(<<92>>, TRUE), S(<<0>>, TRUE), S(<<255>>, TRUE), S(<<13>>, TRUE), S(<<10>>, TRUE),
               S(<<13,10>>, TRUE), S(<<97,32,98>>, TRUE), S(<<40,97,40,98,41,99,41>>, TRUE), S(<<92,110>>, TRUE),
               S(<<37,120>>, TRUE), S(<<16>>, TRUE),
               \* digits next to bytes that are written as escapes
               S(<<169,49,57,57,57>>, TRUE), S(<<0,55>>, TRUE), S(<<7,56>>, TRUE), S(<<1,48,48,49>>, TRUE), S(<<53,1,50,200,51>>, TRUE), S(<<27,27,57>>, TRUE),
               \* line feeds right after the first byte (where the continuation styles put their backslash + end-of-line)
               S(<<97,10,99>>, TRUE), S(<<97,10,10,98>>, TRUE), S(<<10,10>>, TRUE) }
\* strings and names whose VALUE is the text of a keyword of the object or file syntax: a value is never a keyword
KwStream == <<115,116,114,101,97,109>>
KwEndstream == <<101,110,100>> \o KwStream
KwEndobj == <<101,110,100,111,98,106>>
KwLeaves == { S(KwStream, TRUE), N(KwStream), S(KwEndstream, TRUE), N(KwEndstream), S(KwEndobj, TRUE), N(KwEndobj),
              S(<<82>>, TRUE), N(<<82>>), S(<<111,98,106>>, TRUE), N(<<111,98,106>>), N(<<110,117,108,108>>), S(<<110,117,108,108>>, TRUE),
              N(<<102,97,108,115,101>>), S(<<120,114,101,102>>, TRUE), N(<<116,114,97,105,108,101,114>>), S(<<115,116,97,114,116,120,114,101,102>>, TRUE) }
NameLeaves == { N(<<>>), N(<<65>>), N(<<65,32,66>>), N(<<35>>), N(<<65,47,66>>), N(<<255>>), N(<<116,114,117,101>>),
                N(<<70,49>>), N(<<40>>), N(<<37>>), N(<<65,46,66,45,49>>),
                \* a number sign INSIDE the name with hex-looking bytes behind it (its escape #23 must not start another escape)
                N(<<65,35,52,49>>), N(<<35,35>>), N(<<35,120,121,122>>), N(<<65,35,50,51,66>>) }
LeavesFull == {K("null"), K("true"), K("false"), [k |-> "ref", n |-> 12, g |-> 0]}
              \cup IntLeaves \cup RealLeaves \cup LongNumLeaves \cup StrLeaves \cup NameLeaves \cup KwLeaves
\* reduced alphabet for the deeper exhaustive runs: one or two of each class
LeavesSmall == {K("null"), K("true"), [k |-> "ref", n |-> 12, g |-> 0],
                I(<<45,49>>, <<45,49>>), R(<<46,53>>, 5, -1), S(<<40>>, FALSE), S(<<97,32,98>>, TRUE), S(<<7,55,56>>, TRUE), S(<<97,10,99>>, TRUE),
                N(<<65,32,66>>), N(<<70,49>>)}
LeavesMid == {K("null"), K("true"), K("false"), [k |-> "ref", n |-> 12, g |-> 0],
              I(<<45,49>>, <<45,49>>), I(<<57,50,50,51,51,55,50,48,51,54,56,53,52,55,55,53,56,48,55>>, <<57,50,50,51,51,55,50,48,51,54,56,53,52,55,55,53,56,48,55>>),
              R(<<46,53>>, 5, -1), R(<<52,46>>, 4, 0), R(Zeros(40) \o <<46,53>>, 5, -1), I(<<45>> \o Zeros(38) \o <<55>>, <<45,55>>), S(<<40>>, FALSE), S(<<97,32,98>>, TRUE), S(<<13,10>>, TRUE),
              S(<<40,97,40,98,41,99,41>>, TRUE), S(<<169,49,57,57,57>>, TRUE), S(<<1,48,48,49>>, TRUE), S(<<97,10,10,98>>, TRUE), N(<<65,32,66>>), N(<<>>), N(<<70,49>>), N(<<37>>)}
KeysMC == << <<65>>, <<66,35>>, <<67,32>> >>
Op(b) == [k |-> "op", b |-> b]
OpsMC == {Op(<<84,106>>), Op(<<39>>), Op(<<34>>), Op(<<84,42>>), Op(<<66,68,67>>), Op(<<68,111>>)}
OpsSmall == {Op(<<84,106>>), Op(<<39>>)}

Pol(w, e, s, n) == [ws |-> w, eol |-> e, str |-> s, name |-> n]
\* 20 policies: every ws x every string style; eol and name style rotate
PoliciesFull == { Pol("min","lf","lit","plain"), Pol("min","cr","oct","esc"), Pol("min","crlf","cont","plain"),
                  Pol("min","lf","hex","esc"), Pol("min","cr","hexws","plain"),
                  Pol("one","crlf","lit","esc"), Pol("one","lf","oct","plain"), Pol("one","cr","cont","esc"),
                  Pol("one","crlf","hex","plain"), Pol("one","lf","hexws","esc"),
                  Pol("all","cr","lit","plain"), Pol("all","crlf","oct","esc"), Pol("all","lf","cont","plain"),
                  Pol("all","cr","hex","esc"), Pol("all","crlf","hexws","plain"),
                  Pol("cmt","lf","lit","esc"), Pol("cmt","cr","oct","plain"), Pol("cmt","crlf","cont","esc"),
                  Pol("cmt","lf","hex","plain"), Pol("cmt","cr","hexws","esc"),
                  Pol("min","lf","octmix","plain"), Pol("one","cr","octmin","esc"), Pol("all","crlf","octmix","esc"), Pol("cmt","lf","octmin","plain"),
                  Pol("min","lf","contraw","plain"), Pol("one","crlf","contraw","esc"), Pol("all","cr","contraw","plain"),
                  Pol("cmt2","lf","lit","plain"), Pol("cmt2","cr","hex","esc"), Pol("cmt2","crlf","oct","plain") }
PoliciesSmall == { Pol("min","lf","lit","plain"), Pol("one","cr","oct","esc"), Pol("all","crlf","cont","plain"),
                   Pol("cmt","lf","hex","esc"), Pol("cmt","cr","hexws","plain"), Pol("min","crlf","hexws","esc"),
                   Pol("min","lf","octmix","plain"), Pol("one","lf","octmin","plain"), Pol("one","lf","contraw","plain"),
                   Pol("cmt2","lf","lit","plain") }

PoliciesOne == { Pol("one","lf","lit","plain") }
PoliciesWs == { Pol("min","lf","lit","plain"), Pol("one","cr","hex","esc"), Pol("all","crlf","lit","plain"),
                Pol("cmt","lf","lit","esc"), Pol("cmt","cr","hexws","plain"), Pol("cmt","crlf","oct","plain") }

CONSTANT Policies
\* one leaf, then (in a program) its operator: the generator for large leaf sets
GenNextR == IF toks = <<>> THEN GenNext ELSE \E t \in OpNames : AddOp(t)
GenSpecR == GenInit /\ [][GenNextR]_gvars

Case(P) == [mode |-> mode, toks |-> toks, pol |-> P, bytes |-> Spell(toks, P)]
Emit == Ready => \A P \in Policies : PrintT(ToJson(Case(P)))
SepAlwaysOK == Ready => \A P \in Policies : SepOK(P)
============================================================================
