---- MODULE FaultsTrace ----
(* Events {"event":"Case","fmt":f,"faults":[..]} then {"event":"Call","entry":e,"outcome":o}: a Call event is a step *)
(* of the specification only for outcome "value" or "error".                                                        *)
EXTENDS Faults, Json
Trace == ndJsonDeserialize("trace.ndjson")
VARIABLE l
Ev == Trace[l]
TraceInit == l = 1 /\ fmt = "html" /\ faults = <<>> /\ calls = <<>>
TraceCase == /\ l <= Len(Trace) /\ Ev.event = "Case" /\ l' = l + 1
             /\ fmt' = Ev.fmt /\ faults' = Ev.faults /\ calls' = <<>>
TraceCall == /\ l <= Len(Trace) /\ Ev.event = "Call" /\ l' = l + 1 /\ Call(Ev.entry, Ev.outcome)
TraceSpec == TraceInit /\ [][TraceCase \/ TraceCall]_<<vars, l>>
TraceAccepted == TLCGet("stats").diameter - 1 = Len(Trace)
====
