-------------------------- MODULE XrefHistoryTrace --------------------------
(* Events recorded from reader.Reader on a file rendered from a history:     *)
(*   {"event":"Open","revs":[...]}   {"event":"Lookup","n":n,"res":v}        *)
(*   {"event":"Clear"}                                                       *)
(* A Lookup event is accepted only if res is what the specification's Lookup *)
(* action yields in the current state (newest revision, any order, caches).  *)
EXTENDS XrefHistory, Json

Trace == ndJsonDeserialize("trace.ndjson")
VARIABLE l
Ev == Trace[l]

TraceInit == Init /\ l = 1

TraceOpen ==
    /\ l <= Len(Trace) /\ Ev.event = "Open" /\ l' = l + 1
    /\ revs' = Ev.revs /\ opened' = TRUE /\ merged' = MergedOf(Ev.revs)
    /\ cache' = [n \in Obj |-> None] /\ log' = <<>>

TraceLookup ==
    /\ l <= Len(Trace) /\ Ev.event = "Lookup" /\ l' = l + 1
    /\ Lookup(Ev.n)
    /\ log'[Len(log')][2] = Ev.res

TraceClear ==
    /\ l <= Len(Trace) /\ Ev.event = "Clear" /\ l' = l + 1
    /\ ClearCache

TraceNext == TraceOpen \/ TraceLookup \/ TraceClear
TraceSpec == TraceInit /\ [][TraceNext]_<<vars, l>>
TraceAccepted == TLCGet("stats").diameter - 1 = Len(Trace)
=============================================================================
