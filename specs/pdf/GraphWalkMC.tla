---- MODULE GraphWalkMC ----
EXTENDS GraphWalk, Json
EmitGraph == (steps = 0) => PrintT(ToJson([graph |-> [n \in Node |-> SeqOf(graph[n])]]))
====
