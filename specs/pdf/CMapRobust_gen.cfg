SPECIFICATION Spec
CONSTANTS
  MaxToks = 3
CONSTRAINT Emit
CHECK_DEADLOCK FALSE
