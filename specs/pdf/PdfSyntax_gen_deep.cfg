SPECIFICATION GenSpec
CONSTANTS
  Leaves <- LeavesSmall
  Keys <- KeysMC
  OpNames <- OpsSmall
  Policies <- PoliciesSmall
  MaxToks = 6
  MaxDepth = 3
INVARIANTS WellNested SepAlwaysOK
CONSTRAINT Emit
CHECK_DEADLOCK FALSE
