-------------------------- MODULE ParseIsolationMC --------------------------
EXTENDS ParseIsolation, Json
Case == [calls |-> calls, sched |-> sched, results |-> results]
EmitDone == AllDone => PrintT(ToJson(Case))
\* in simulation stop each behaviour when everybody is done
=============================================================================
