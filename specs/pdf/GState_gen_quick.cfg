SPECIFICATION Spec
CONSTANTS
  Ops <- OpsA
  MaxLen = 4
  MaxDepth = 2
  Order = "pre"
CONSTRAINT Emit
CHECK_DEADLOCK FALSE
