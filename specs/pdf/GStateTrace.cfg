SPECIFICATION TraceSpec
CONSTANTS
  Ops = {}
  MaxLen = 1000000
  MaxDepth = 1000
  Order = "pre"
INVARIANTS LineMatrixSync
POSTCONDITION TraceAccepted
CHECK_DEADLOCK FALSE
