---- MODULE RobustMC ----
(* case emission for the C02 replays: token streams (ParserLoop) *)
EXTENDS ParserLoop, Json
\* BAD stands for any token the lexer cannot read; every spelling of it must leave the parsers terminating:
\* a lone '>', a name with an escape that is not two hex digits ('#G0', '##', '#' at the end of the name), a hex
\* string with a non-hex digit, an unbalanced ')', a lone brace
BadForms == {"gt", "nameesc", "namehash", "nameend", "hexbad", "rparen", "brace"}
\* what follows the last token of the stream: an operator ("op"), white space and then the end of the data ("sp"),
\* or the end of the data at once ("eod") - a scanner that skipped white space stands AT the end, not before it
Ends == {"op", "sp", "eod"}
HasBad == \E i \in 1..Len(input) : input[i] = "BAD"
EmitInput == (pc = "load1") => IF HasBad THEN \A b \in BadForms : PrintT(ToJson([toks |-> input, bad |-> b, ends |-> Ends]))
                                ELSE PrintT(ToJson([toks |-> input, bad |-> "gt", ends |-> Ends]))
====
