---- MODULE RobustMC ----
(* case emission for the C02 replays: token streams (ParserLoop) *)
EXTENDS ParserLoop, Json
EmitInput == (pc = "load1") => PrintT(ToJson([toks |-> input]))
====
