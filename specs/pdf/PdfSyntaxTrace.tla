--------------------------- MODULE PdfSyntaxTrace ---------------------------
(* Each event is one tree written by the harness's independent Go speller and *)
(* parsed by the real parsers:  {toks, pol, bytes, ok}.  Accepted iff the     *)
(* bytes are exactly Spell(toks, pol) of PdfSyntax.tla and both parsers       *)
(* returned the tree (ok).                                                    *)
EXTENDS PdfSyntax, Json

Trace == ndJsonDeserialize("trace.ndjson")
VARIABLE l
NoKeys == <<>>

Norm(t) == IF t.k \in {"str", "name", "op"} /\ "b" \notin DOMAIN t THEN [b |-> <<>>] @@ t ELSE t
NormAll(ts) == [i \in 1..Len(ts) |-> Norm(ts[i])]

TraceInit == l = 1 /\ toks = <<>> /\ ctx = <<>> /\ cnt = <<>> /\ mode = "object"

TraceParse ==
    /\ l <= Len(Trace) /\ Trace[l].event = "Parse" /\ l' = l + 1
    /\ LET ev == Trace[l]
           ts == IF "toks" \in DOMAIN ev THEN NormAll(ev.toks) ELSE <<>> IN
         /\ Spell(ts, ev.pol) = ev.bytes
         /\ ev.ok = TRUE
         /\ toks' = ts /\ mode' = ev.mode
    /\ UNCHANGED <<ctx, cnt>>

TraceSpec == TraceInit /\ [][TraceParse]_<<gvars, l>>
TraceAccepted == TLCGet("stats").diameter - 1 = Len(Trace)
=============================================================================
