SPECIFICATION Spec
CONSTANTS
  Proc = {1, 2}
  MaxTok = 2
  MaxCalls = 1
  Shared = FALSE
CONSTRAINT EmitDone
CHECK_DEADLOCK FALSE
