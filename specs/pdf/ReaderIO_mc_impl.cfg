SPECIFICATION Spec
CONSTANTS
  Window = 8
  MaxBody = 12
  Mode = "shared"
INVARIANT BodyIsContiguous
CHECK_DEADLOCK FALSE
