------------------------------- MODULE GraphWalk -------------------------------
(***************************************************************************)
(* Walks over reference graphs read from a file: the /Prev chain of        *)
(* cross-reference sections, the /Kids recursion of the page tree, deep    *)
(* resolution of dictionaries.  The file controls the graph, so it may     *)
(* contain cycles.  A depth-first walk with a path/visited guard ends on   *)
(* every graph ("guarded", the repair); without it ("unguarded", the       *)
(* pinned code) a cycle makes it run forever / exhaust the stack.          *)
(***************************************************************************)
EXTENDS Integers, Sequences, FiniteSets, TLC
CONSTANTS N, Guard
Node == 1..N
VARIABLES graph, stack, seen, pc, steps
vars == <<graph, stack, seen, pc, steps>>
\* stack: sequence of <<node, remaining successors as a sequence>>
SeqOf(S) == CHOOSE s \in [1..Cardinality(S) -> S] : \A i, j \in 1..Cardinality(S) : i < j => s[i] < s[j]
Init == /\ graph \in [Node -> SUBSET Node] /\ stack = << <<1, SeqOf(graph[1])>> >> /\ seen = {1} /\ pc = "walk" /\ steps = 0
Step ==
    /\ pc = "walk" /\ steps' = steps + 1 /\ UNCHANGED graph
    /\ IF stack = <<>> THEN pc' = "done" /\ UNCHANGED <<stack, seen>>
       ELSE LET top == stack[Len(stack)] IN
            IF top[2] = <<>> THEN stack' = SubSeq(stack, 1, Len(stack) - 1) /\ UNCHANGED <<seen, pc>>
            ELSE LET k == top[2][1]
                     rest == [stack EXCEPT ![Len(stack)] = <<top[1], Tail(top[2])>>] IN
                 IF Guard /\ k \in seen THEN pc' = "error" /\ UNCHANGED <<stack, seen>>      \* reported as an error
                 ELSE stack' = Append(rest, <<k, SeqOf(graph[k])>>) /\ seen' = seen \cup {k} /\ UNCHANGED pc
Next == Step
Spec == Init /\ [][Next]_vars /\ WF_vars(Next)
Returned == pc \in {"done", "error"}
Termination == <>Returned
\* guarded walks visit every node at most once
BoundedWork == steps <= 2 * (N + 1) * (N + 1) + 2
BoundedDepth == Len(stack) <= N + 1
================================================================================
