------------------------------ MODULE GStateMC ------------------------------
(* Bounded instances of GState: operator alphabets, case emission.          *)
EXTENDS GState, Json

CmMats == { <<1,0,0,1,100,100>>, <<2,0,0,2,0,0>>, <<0,1,-1,0,50,0>>, <<2,0,0,3,0,0>> }
TmMats == { <<12,0,0,12,10,20>>, <<0,1,-1,0,30,40>>, <<1,0,1,1,0,0>> }

O(n, a) == [op |-> n, a |-> a]

\* 22 operators: the quick/thorough exhaustive alphabet
OpsA == {O("q", <<>>), O("Q", <<>>), O("BT", <<>>), O("ET", <<>>), O("T*", <<>>),
         O("Tj", <<>>), O("'", <<>>), O("dq", <<1, 2>>),
         O("Td", <<10, 10>>), O("Td", <<0, -2>>), O("TD", <<3, -4>>),
         O("TL", <<14>>), O("Tf", <<2>>), O("Do", <<1,0,0,2,5,0>>),
         O("'e", <<>>),         \* () ' : a blank line
         O("Tz", <<150>>)}      \* glyph stretching: origin and reported size do not depend on it
        \cup {O("cm", m) : m \in CmMats} \cup {O("Tm", m) : m \in TmMats}

\* wider alphabet for -simulate (matrices with entries in -3..3, every operator)
SimMats == { <<1,0,0,1,100,100>>, <<2,0,0,2,0,0>>, <<0,1,-1,0,50,0>>, <<2,0,0,3,0,0>>,
             <<1,0,1,1,0,0>>, <<-1,0,0,1,7,0>>, <<1,0,0,-1,0,90>>, <<0,-2,2,0,3,4>>,
             <<3,1,-1,3,0,0>>, <<1,2,0,1,-5,6>>, <<12,0,0,12,10,20>>, <<0,1,-1,0,30,40>>,
             <<-2,0,0,-2,8,8>>, <<1,1,-1,1,0,0>>, <<3,0,0,1,1,1>> }
OpsB == {O("q", <<>>), O("Q", <<>>), O("BT", <<>>), O("ET", <<>>), O("T*", <<>>),
         O("Tj", <<>>), O("'", <<>>), O("dq", <<1, 2>>), O("dq", <<0, 0>>),
         O("TL", <<14>>), O("TL", <<-3>>), O("Tf", <<2>>), O("Tf", <<12>>), O("Tf", <<1>>),
         O("Tc", <<1>>), O("Tw", <<2>>), O("Tz", <<50>>), O("Tz", <<100>>), O("Tz", <<150>>), O("Tz", <<200>>), O("Tz", <<25>>),
         O("Tc", <<-2>>), O("Tw", <<7>>), O("'e", <<>>), O("dqe", <<1, 2>>),
         O("Do", <<1,0,0,2,5,0>>), O("Do", <<0,1,-1,0,0,9>>)}
        \cup {O("Td", <<x, y>>) : x \in {0, 10, -7}, y \in {0, -2, 10}}
        \cup {O("TD", <<x, y>>) : x \in {0, 3}, y \in {-4, 5}}
        \cup {O("cm", m) : m \in SimMats} \cup {O("Tm", m) : m \in SimMats}

Snapshot == [prog |-> prog, ctm |-> ctm, tm |-> tm, tlm |-> tlm, lead |-> lead, fs |-> fs,
             tc |-> tc, tw |-> tw, tz |-> tz, depth |-> Len(stack), inText |-> inText,
             posKnown |-> posKnown, out |-> out, nshow |-> nshow]

\* case emission: every reachable state is one case (its program + the state
\* the ISO semantics gives after the last operator + the fragments shown)
Emit == PrintT(ToJson(Snapshot))

\* in simulation only emit complete behaviours
EmitLeaf == (Len(prog) = MaxLen) => PrintT(ToJson(Snapshot))

\* simulation: keep the accumulated CTM small so that every oracle number stays
\* far below 2^31 (filtering inside Next, not in a CONSTRAINT)
Small(mm) == \A i \in 1..4 : mm[i] >= -4 /\ mm[i] <= 4
SimNext == Next /\ Small(ctm') /\ ctm'[5] > -100000 /\ ctm'[5] < 100000 /\ ctm'[6] > -100000 /\ ctm'[6] < 100000
                /\ tlm'[5] > -100000 /\ tlm'[5] < 100000 /\ tlm'[6] > -100000 /\ tlm'[6] < 100000
SimSpec == Init /\ [][SimNext]_vars

\* history variables out / nshow / prog are not hidden by a VIEW here: prog makes
\* every state distinct on purpose (one state = one program).
=============================================================================
