------------------------------- MODULE Filters -------------------------------
(***************************************************************************)
(* Reference definitions of the stream filters of ISO 32000-1 7.4 that     *)
(* tabula supports, as pure operators on byte sequences (integers 0..255): *)
(* PNG predictors (PNG spec, filter types 0-4), TIFF predictor 2,          *)
(* ASCIIHexDecode (7.4.2), ASCII85Decode (7.4.3).  Encoders and decoders   *)
(* are both defined; TLC checks Dec(Enc(x)) = x on the bounded space, which*)
(* validates the reference itself.                                         *)
(***************************************************************************)
EXTENDS Integers, Sequences, FiniteSets, TLC, SequencesExt

Idx(n) == [i \in 1..n |-> i]
Mod256(v) == ((v % 256) + 256) % 256
AbsI(v) == IF v < 0 THEN -v ELSE v

Paeth(a, b, c) == LET p == a + b - c
                      pa == AbsI(p - a) pb == AbsI(p - b) pc == AbsI(p - c)
                  IN IF pa <= pb /\ pa <= pc THEN a ELSE IF pb <= pc THEN b ELSE c

\* predicted value for filter type t from left, up, upper-left
Pred(t, l, u, ul) == CASE t = 0 -> 0 [] t = 1 -> l [] t = 2 -> u
                       [] t = 3 -> (l + u) \div 2 [] t = 4 -> Paeth(l, u, ul)

\* encode one row: raw, prev are decoded rows of equal length, bpp = bytes per pixel
PngEncRow(t, raw, prev, bpp) ==
    [i \in 1..Len(raw) |->
        Mod256(raw[i] - Pred(t, IF i > bpp THEN raw[i - bpp] ELSE 0, prev[i],
                                IF i > bpp THEN prev[i - bpp] ELSE 0))]

\* decode one row (left neighbours are already-decoded bytes of this row)
PngDecRow(t, enc, prev, bpp) ==
    FoldLeft(LAMBDA acc, i :
                Append(acc, Mod256(enc[i] + Pred(t, IF i > bpp THEN acc[i - bpp] ELSE 0, prev[i],
                                                    IF i > bpp THEN prev[i - bpp] ELSE 0))),
             <<>>, Idx(Len(enc)))

Zeros(n) == [i \in 1..n |-> 0]
Row(x, r, rl) == SubSeq(x, (r - 1) * rl + 1, r * rl)

\* whole image: x has rows*rl bytes, tags[r] is the filter type of row r; output has the tag bytes
PngEnc(x, tags, rl, bpp) ==
    FoldLeft(LAMBDA acc, r :
                acc \o <<tags[r]>> \o PngEncRow(tags[r], Row(x, r, rl), IF r = 1 THEN Zeros(rl) ELSE Row(x, r - 1, rl), bpp),
             <<>>, Idx(Len(tags)))

\* decode: data has rows*(rl+1) bytes
PngDec(data, rl, bpp) ==
    LET rows == Len(data) \div (rl + 1) IN
    FoldLeft(LAMBDA acc, r :
                LET base == (r - 1) * (rl + 1)
                    prev == IF r = 1 THEN Zeros(rl) ELSE SubSeq(acc, (r - 2) * rl + 1, (r - 1) * rl)
                IN acc \o PngDecRow(data[base + 1], SubSeq(data, base + 2, base + 1 + rl), prev, bpp),
             <<>>, Idx(rows))

\* TIFF predictor 2 (8 bits per component): horizontal differencing per colour component
TiffEncRow(raw, colors) == [i \in 1..Len(raw) |-> Mod256(raw[i] - (IF i > colors THEN raw[i - colors] ELSE 0))]
TiffDecRow(enc, colors) == FoldLeft(LAMBDA acc, i : Append(acc, Mod256(enc[i] + (IF i > colors THEN acc[i - colors] ELSE 0))),
                                    <<>>, Idx(Len(enc)))
TiffEnc(x, rows, rl, colors) == FoldLeft(LAMBDA acc, r : acc \o TiffEncRow(Row(x, r, rl), colors), <<>>, Idx(rows))
TiffDec(d, rows, rl, colors) == FoldLeft(LAMBDA acc, r : acc \o TiffDecRow(Row(d, r, rl), colors), <<>>, Idx(rows))

\* ------------------------------------------------------------- ASCIIHex
HexU(d) == IF d < 10 THEN 48 + d ELSE 55 + d
HexL(d) == IF d < 10 THEN 48 + d ELSE 87 + d
FlatB(ss) == FoldLeft(LAMBDA acc, s : acc \o s, <<>>, ss)
\* policies: "upper" | "lower" | "ws" (white space between all digits) |
\*           "odd" (final 0 digit omitted when the last byte's low nibble is 0) | "noeod" (no '>')
HexEnc(x, pol) ==
    LET n == Len(x)
        body == FlatB([i \in 1..n |->
                   CASE pol = "lower" -> <<HexL(x[i] \div 16), HexL(x[i] % 16)>>
                     [] pol = "ws"    -> <<32, HexU(x[i] \div 16), 10, HexL(x[i] % 16), 9>>
                     [] pol = "odd" /\ i = n /\ x[i] % 16 = 0 -> <<HexU(x[i] \div 16)>>
                     [] OTHER -> <<HexU(x[i] \div 16), HexU(x[i] % 16)>>])
    IN IF pol = "noeod" THEN body ELSE body \o <<62>>

\* ------------------------------------------------------------- ASCII85
\* long division of a 4-byte big-endian number by 85: <<quotient bytes, remainder>>
DivStep(bs) == FoldLeft(LAMBDA acc, b : LET cur == acc[2] * 256 + b IN <<Append(acc[1], cur \div 85), cur % 85>>,
                        <<<<>>, 0>>, bs)
\* the five base-85 digits (most significant first) of a 4-byte group
RECURSIVE Digits85(_, _)
Digits85(bs, k) == IF k = 0 THEN <<>> ELSE LET d == DivStep(bs) IN Digits85(d[1], k - 1) \o <<d[2]>>
Pad4(g) == g \o [i \in 1..(4 - Len(g)) |-> 0]
\* one group of n <= 4 bytes: n+1 characters; a full all-zero group is "z"
A85Group(g) == IF Len(g) = 4 /\ g = <<0, 0, 0, 0>> THEN <<122>>
               ELSE LET d == Digits85(Pad4(g), 5) IN [i \in 1..(Len(g) + 1) |-> d[i] + 33]
Groups(x) == [k \in 1..((Len(x) + 3) \div 4) |-> SubSeq(x, 4 * (k - 1) + 1, IF 4 * k <= Len(x) THEN 4 * k ELSE Len(x))]
\* policies: "plain" | "ws" (white space between groups and inside them) | "lead" (leading white space)
A85Enc(x, pol) ==
    LET gs == Groups(x)
        body == FlatB([k \in 1..Len(gs) |->
                   LET c == A85Group(gs[k]) IN
                   IF pol = "ws" THEN <<c[1], 10>> \o SubSeq(c, 2, Len(c)) \o <<32>> ELSE c])
    IN (IF pol = "lead" THEN <<32, 10>> ELSE <<>>) \o body \o <<126, 62>>

\* reference decoders (used for the internal round-trip theorem only)
IsWsB(b) == b \in {0, 9, 10, 12, 13, 32}
HexVal(c) == IF c >= 48 /\ c <= 57 THEN c - 48 ELSE IF c >= 65 /\ c <= 70 THEN c - 55 ELSE c - 87
HexDec(e) ==
    LET ds == SelectSeq(e, LAMBDA c : ~IsWsB(c) /\ c # 62)
        n == Len(ds)
    IN [i \in 1..((n + 1) \div 2) |-> HexVal(ds[2 * i - 1]) * 16 + (IF 2 * i <= n THEN HexVal(ds[2 * i]) ELSE 0)]

\* value of 5 digits as 4 bytes, by long multiplication in base 256
MulAdd(bs, d) == LET r == FoldLeft(LAMBDA acc, i : LET b == bs[Len(bs) + 1 - i] cur == b * 85 + acc[2]
                                                    IN <<<<cur % 256>> \o acc[1], cur \div 256>>,
                                    <<<<>>, d>>, Idx(Len(bs)))
                 IN r[1]          \* overflow beyond 4 bytes is never produced by an encoder
Val85(ds) == FoldLeft(LAMBDA acc, d : MulAdd(acc, d), <<0, 0, 0, 0>>, ds)
A85Dec(e) ==
    LET cs == SelectSeq(SubSeq(e, 1, Len(e) - 2), LAMBDA c : ~IsWsB(c))
        \* expand z, then split into groups of 5
        ex == FlatB([i \in 1..Len(cs) |-> IF cs[i] = 122 THEN <<33, 33, 33, 33, 33>> ELSE <<cs[i]>>])
        ng == (Len(ex) + 4) \div 5
    IN FlatB([k \in 1..ng |->
          LET g == SubSeq(ex, 5 * (k - 1) + 1, IF 5 * k <= Len(ex) THEN 5 * k ELSE Len(ex))
              full == [i \in 1..5 |-> IF i <= Len(g) THEN g[i] - 33 ELSE 84]
          IN SubSeq(Val85(full), 1, Len(g) - 1)])
=============================================================================
