----------------------------- MODULE FiltersTrace -----------------------------
(* Events cut out of real decodes of large inputs:                             *)
(*  {"event":"Row","tag":t,"bpp":b,"enc":[..],"prev":[..],"dec":[..]}          *)
(*      one image row: dec must be PngDecRow(tag, enc, prev, bpp)               *)
(*  {"event":"TiffRow","colors":c,"enc":[..],"dec":[..]}                        *)
(*  {"event":"Enc","filter":"a85"|"hex","x":[..],"enc":[..]}                    *)
(*      output of the harness's own ASCII encoders (used to wrap deflated data):*)
(*      must equal the reference encoder, so a harness bug cannot raise alarms  *)
EXTENDS Filters, Json
Trace == ndJsonDeserialize("trace.ndjson")
VARIABLE l
Seq0(ev, f) == IF f \in DOMAIN ev THEN ev[f] ELSE <<>>
TraceInit == l = 1
TraceRow == /\ l <= Len(Trace) /\ Trace[l].event = "Row" /\ l' = l + 1
            /\ LET ev == Trace[l] IN PngDecRow(ev.tag, ev.enc, ev.prev, ev.bpp) = ev.dec
TraceTiff == /\ l <= Len(Trace) /\ Trace[l].event = "TiffRow" /\ l' = l + 1
             /\ LET ev == Trace[l] IN TiffDecRow(ev.enc, ev.colors) = ev.dec
TraceEnc == /\ l <= Len(Trace) /\ Trace[l].event = "Enc" /\ l' = l + 1
            /\ LET ev == Trace[l] IN
                 IF ev.filter = "a85" THEN A85Enc(Seq0(ev, "x"), "plain") = ev.enc
                 ELSE HexEnc(Seq0(ev, "x"), "upper") = ev.enc
TraceNext == TraceRow \/ TraceTiff \/ TraceEnc
TraceSpec == TraceInit /\ [][TraceNext]_l
TraceAccepted == TLCGet("stats").diameter - 1 = Len(Trace)
===============================================================================
