SPECIFICATION TraceSpec
CONSTANTS
  N = 2
  MaxRev = 100
  MaxLook = 1000000
  MergeOrder = "newest-wins"
INVARIANTS LookupCorrect CacheSound
POSTCONDITION TraceAccepted
CHECK_DEADLOCK FALSE
