SPECIFICATION Spec
CONSTANTS
  MaxLen = 4
  Mode = "sticky"
INVARIANT BoundedWork
PROPERTY Termination
CHECK_DEADLOCK FALSE
