SPECIFICATION Spec
CONSTANTS
  Window = 8
  MaxBody = 12
  Mode = "section"
INVARIANT BodyIsContiguous
CHECK_DEADLOCK FALSE
