SPECIFICATION Spec
CONSTANTS
  N = 3
  Guard = FALSE
INVARIANTS BoundedWork BoundedDepth
PROPERTY Termination
CHECK_DEADLOCK FALSE
