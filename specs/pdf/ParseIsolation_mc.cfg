SPECIFICATION Spec
CONSTANTS
  Proc = {1, 2}
  MaxTok = 3
  MaxCalls = 2
  Shared = FALSE
INVARIANTS Isolation NoForeignOperand
VIEW View
CHECK_DEADLOCK FALSE
