SPECIFICATION Spec
CONSTANTS
  N = 3
  Guard = TRUE
INVARIANTS BoundedWork BoundedDepth
PROPERTY Termination
CHECK_DEADLOCK FALSE
