SPECIFICATION Spec
CONSTANTS
  Proc = {1, 2, 3}
  MaxTok = 4
  MaxCalls = 2
  Shared = FALSE
CONSTRAINT EmitDone
CHECK_DEADLOCK FALSE
