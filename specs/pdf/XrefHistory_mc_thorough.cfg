SPECIFICATION Spec
CONSTANTS
  N = 2
  MaxRev = 3
  MaxLook = 2
  MergeOrder = "newest-wins"
INVARIANTS LookupCorrect CacheSound OrderIndependent
PROPERTY CacheStable
CHECK_DEADLOCK FALSE
