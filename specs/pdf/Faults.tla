--------------------------------- MODULE Faults ---------------------------------
(***************************************************************************)
(* Structural fault injection.  A valid document of a format is damaged by *)
(* one or two faults of the catalogue, each applied at a site chosen by a  *)
(* selector (the harness maps selector s of K to the site number           *)
(* floor(s * sites / K) of the concrete file, or iterates all sites when   *)
(* the selector is "all").  Whatever the damage, every public entry point  *)
(* called on the result must RETURN: a value or an error.  The contract's  *)
(* Call action is enabled only for those two outcomes; "panic", "abort"    *)
(* (process death: stack exhaustion, failed allocation) and "timeout" are  *)
(* not steps of the specification.                                         *)
(***************************************************************************)
EXTENDS Integers, Sequences, FiniteSets, TLC

CONSTANTS K, MaxFaults
Formats == {"pdf-classic", "pdf-stream", "pdf-png", "pdf-tiff", "pdf-ttf", "docx", "odt", "xlsx", "pptx", "epub", "html"}
IsZip(f) == f \in {"docx", "odt", "xlsx", "pptx", "epub"}
IsPdf(f) == f \in {"pdf-classic", "pdf-stream", "pdf-png", "pdf-tiff", "pdf-ttf"}
\* documents with object streams and cross-reference streams: numeric fields also sit inside encoded streams
\* ... and the binary fields of an embedded TrueType program
HasInStream(f) == f \in {"pdf-stream", "pdf-png", "pdf-ttf"}
Numbers == {"0", "-1", "2147483648", "9223372036854775807"}
Targets == {"self", "ancestor", "missing"}

\* the catalogue: fault kinds applicable to a format
Kinds(f) == {"truncate", "unbalance"}
            \* "number" rewrites the digits in the finished file (what follows moves when the spelling is longer);
            \* "field" replaces the value before the file is laid out, so only that field is wrong
            \* "payload" damages what sits inside one stream (page content, ToUnicode program, font program) at a token
            \* boundary and lays the file out around it: filters, /Length and offsets are those of a well-formed file
            \cup (IF IsPdf(f) THEN {"number", "field", "retarget", "dropobj", "dupobj", "corruptstream", "payload"} ELSE {})
            \cup (IF HasInStream(f) THEN {"instream"} ELSE {})
            \cup (IF IsZip(f) THEN {"number", "dropmember", "dupmember", "corruptstream"} ELSE {})
            \cup (IF f = "html" THEN {"number"} ELSE {})
PayloadDamage == {"cut", "cutsp", "drop"} \cup {"num=" \o v : v \in Numbers \cup {"900719925474099"}}   \* cut at the boundary / cut leaving one white-space character / one token removed / the number starting there replaced
Param(k) == CASE k \in {"number", "field", "instream"} -> Numbers [] k = "retarget" -> Targets [] k = "payload" -> PayloadDamage [] OTHER -> {"-"}
FaultSpace(f) == UNION {{[kind |-> k, site |-> s, param |-> p] : s \in 0..(K - 1), p \in Param(k)} : k \in Kinds(f)}

VARIABLES fmt, faults, calls
vars == <<fmt, faults, calls>>

Init == fmt \in Formats /\ faults = <<>> /\ calls = <<>>
Damage == /\ Len(faults) < MaxFaults /\ calls = <<>>
          /\ \E x \in FaultSpace(fmt) : faults' = Append(faults, x)
          /\ UNCHANGED <<fmt, calls>>
Outcomes == {"value", "error"}
Call(entry, outcome) == /\ outcome \in Outcomes
                        /\ calls' = Append(calls, <<entry, outcome>>) /\ UNCHANGED <<fmt, faults>>
Entries == {"Text", "ToMarkdown", "Chunks", "Document", "Fragments", "PageCount", "Analyze", "Lines", "IsCharacterLevel", "Detect",
            \* the text modes and the remaining layout views (each has a page loop and a renderer of its own)
            "PreserveLayout", "ByColumn", "JoinParagraphs", "ReadingOrder", "Paragraphs", "LayoutViews", "ExcludeHF", "ResolveDeep"}
Next == Damage \/ (Len(calls) < 1 /\ \E e \in Entries, o \in Outcomes : Call(e, o))
Spec == Init /\ [][Next]_vars
AlwaysReturns == \A i \in 1..Len(calls) : calls[i][2] \in Outcomes
=================================================================================
