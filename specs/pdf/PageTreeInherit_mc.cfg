SPECIFICATION Spec
CONSTANTS
  MaxDepth = 4
  Algorithm = "env"
INVARIANT Correct
CHECK_DEADLOCK FALSE
