------------------------------- MODULE FontDict -------------------------------
(***************************************************************************)
(* Which base encoding a simple font's dictionary selects (ISO 32000-1     *)
(* 9.6.6.1 and Table 114).  The /Encoding entry of a font dictionary is    *)
(*   absent                         -> the font's built-in encoding        *)
(*   a name                         -> that predefined encoding            *)
(*   a dictionary with /BaseEncoding -> that predefined encoding           *)
(*   a dictionary without it        -> the built-in encoding again         *)
(* each written directly or behind an indirect reference, the dictionary   *)
(* with or without a /Differences array.  For a font that is not embedded  *)
(* and not symbolic the built-in encoding is StandardEncoding (Type1: the  *)
(* standard fonts Helvetica, Times, Courier); for TrueType the statement   *)
(* leaves the built-in encoding to the font program, so only the spellings *)
(* that NAME an encoding are cases there.  The /Differences of a case      *)
(* rename a code to the glyph the base encoding already gives it, so the   *)
(* expected text does not depend on whether differences are honoured.      *)
(* Expected text of code c = EncTab(Effective)[c].                         *)
(***************************************************************************)
EXTENDS Integers, Sequences, TLC, EncTables, Json

Subtypes  == {"Type1", "TrueType"}
Named     == {"WinAnsiEncoding", "MacRomanEncoding", "StandardEncoding"}
Spellings == {"absent", "name", "dictbase", "dictnobase"}
Names(sp) == IF sp \in {"absent", "dictnobase"} THEN {"-"} ELSE Named
BuiltIn(st) == "StandardEncoding"          \* only asked for Type1
Effective(st, sp, n) == IF sp \in {"absent", "dictnobase"} THEN BuiltIn(st) ELSE n
Applicable(st, sp, n) == /\ (sp \in {"absent", "dictnobase"} => st = "Type1")
                         /\ (st = "TrueType" => n # "StandardEncoding")

VARIABLES fd, done
Init == fd = [st |-> "-"] /\ done = FALSE
Pick == /\ ~done /\ done' = TRUE
        /\ \E st \in Subtypes, sp \in Spellings, ind \in BOOLEAN, diffs \in BOOLEAN :
             \E n \in Names(sp) :
                /\ Applicable(st, sp, n)
                /\ (diffs => sp \in {"dictbase", "dictnobase"})
                /\ (ind => sp # "absent")
                /\ fd' = [st |-> st, sp |-> sp, name |-> n, indirect |-> ind, diffs |-> diffs,
                          effective |-> Effective(st, sp, n), expect |-> EncTab(Effective(st, sp, n))]
Spec == Init /\ [][Pick]_<<fd, done>>
\* a dictionary that names an encoding always gets it; one that names none gets the built-in one whatever else it holds
NamedWins == done => ((fd.sp \in {"name", "dictbase"}) => fd.effective = fd.name)
Emit == done => PrintT(ToJson(fd))
===============================================================================
