SPECIFICATION Spec
CONSTANTS
  Alphabet = {8, 10, 11, 50}
  MaxRowLen = 2
  MaxRows = 2
  MaxLenAscii = 0
  Kinds = {"png"}
  Preds = {15}
INVARIANT RoundTrip
CONSTRAINT Emit
CHECK_DEADLOCK FALSE
