------------------------------ MODULE PdfLayout ------------------------------
(***************************************************************************)
(* A logical document (pages of text items set in fonts) and the physical  *)
(* layouts a PDF writer may choose for it (ISO 32000-1 7.5, 7.7.3, 7.8).   *)
(* The contract:  Extract(Phys(doc, L)) = doc  for EVERY layout L:         *)
(*   - page count = number of page leaves after all revisions,             *)
(*   - per page: the text items in content order, decoded by the page's    *)
(*     own font resources (nearest ancestor-or-self /Resources),           *)
(*   - MediaBox(leaf) = nearest ancestor-or-self defining it.              *)
(* A layout is chosen option by option (one action per option, so TLC can  *)
(* enumerate the product exhaustively or random-walk it with -simulate).   *)
(***************************************************************************)
EXTENDS Integers, Sequences, FiniteSets, TLC

OptNames == <<"doc", "xref", "objstm", "filter", "length", "size", "split", "cut", "depth",
              "mediaAt", "resAt", "revs", "numbering", "order", "eol", "count">>

\* domain of option k given the choices made so far (validity constraints inline)
Dom(k, L) ==
    CASE k = "doc"       -> 1..3
      [] k = "xref"      -> {"table", "stream"}
      \* compressed objects need a cross-reference stream (7.5.8)
      \* "split": the integers (stream lengths) in a container of their own whose /Length is itself given by reference
      [] k = "objstm"    -> IF L["xref"] = "stream" THEN {"none", "dicts", "dictsflate", "split"} ELSE {"none"}
      [] k = "filter"    -> {"none", "fl", "ahx", "a85", "a85fl", "ahxfl", "flpng", "fltiff"}
      [] k = "length"    -> {"direct", "refBefore", "refAfter"}
      [] k = "size"      -> {"small", "big", "huge", "repeat"}     \* "repeat": 12 KB of one repeated line (deflates several hundred times)
      [] k = "split"     -> 1..3
      \* the content of a page may be divided at any token boundary (7.8.2): between operations, or between an
      \* operand and its operator
      [] k = "cut"       -> IF L["split"] > 1 THEN {"ops", "tokens"} ELSE {"ops"}
      [] k = "depth"     -> 1..3
      \* level 0 = the leaf, 1 = its parent, 2 = its grandparent
      [] k = "mediaAt"   -> 0..(IF L["depth"] >= 2 THEN 2 ELSE 1)
      [] k = "resAt"     -> 0..(IF L["depth"] >= 2 THEN 2 ELSE 1)
      [] k = "revs"      -> 1..3
      [] k = "numbering" -> {"ascending", "shuffled"}
      [] k = "order"     -> {"sorted", "reversed"}
      [] k = "eol"       -> {"lf", "crlf", "cr"}
      \* where /Count and the kids are spread: one branch or two branches of the tree
      [] k = "count"     -> {"chain", "branches", "uneven"}    \* "uneven": the last page is a kid of the root, the others sit deeper

VARIABLES L, step
vars == <<L, step>>

Unset == "unset"
Init == L = [k \in {OptNames[i] : i \in 1..Len(OptNames)} |-> Unset] /\ step = 1

Choose == /\ step <= Len(OptNames)
          /\ \E v \in Dom(OptNames[step], L) : L' = [L EXCEPT ![OptNames[step]] = v]
          /\ step' = step + 1

Next == Choose
Spec == Init /\ [][Next]_vars
Done == step = Len(OptNames) + 1

\* ------------------------------------------------------------ logical doc
\* an item is <<font, token>>; fonts 1..3 (1 simple/WinAnsi, 2 simple+ToUnicode,
\* 3 Type0+ToUnicode)
BaseDoc(d) ==
    CASE d = 1 -> << << <<2, 1>>, <<3, 2>>, <<2, 3>> >>, << <<3, 4>>, <<1, 5>> >> >>
      [] d = 2 -> << << <<1, 1>> >>, << <<2, 2>>, <<2, 3>>, <<3, 4>>, <<1, 5>>, <<3, 6>> >>, << <<3, 7>> >> >>
      [] d = 3 -> << << <<3, 1>>, <<3, 2>> >>, <<>>, << <<2, 3>> >> >>

\* revision 2 replaces the content of page 1; revision 3 appends a page
Rev2Page1 == << <<2, 11>>, <<3, 12>> >>
Rev3Page  == << <<3, 21>>, <<2, 22>> >>
Rev2(p) == [p EXCEPT ![1] = Rev2Page1]
Rev3(p) == Append(p, Rev3Page)

Pages(Lx) == LET p1 == BaseDoc(Lx["doc"])
                 p2 == IF Lx["revs"] >= 2 THEN Rev2(p1) ELSE p1
             IN IF Lx["revs"] >= 3 THEN Rev3(p2) ELSE p2

\* MediaBox written at tree level k (distinct per level, so the source is visible)
BoxAt(k) == <<0, 0, 600 + 10 * k, 800 + 10 * k>>

Expected(Lx) == [ pageCount |-> Len(Pages(Lx)),
                  pages     |-> Pages(Lx),
                  mediaBox  |-> BoxAt(Lx["mediaAt"]),
                  resLevel  |-> Lx["resAt"] ]

TypeOK == step \in 1..(Len(OptNames) + 1)
\* every completed layout respects the validity constraints
Valid == Done => /\ (L["objstm"] # "none" => L["xref"] = "stream")
                 /\ L["mediaAt"] <= L["depth"] /\ L["resAt"] <= L["depth"]
=============================================================================
