SPECIFICATION GenSpec
CONSTANTS
  N = 2
  MaxRev = 2
  MaxLook = 0
  MergeOrder = "newest-wins"
CONSTRAINT EmitOpen
CHECK_DEADLOCK FALSE
