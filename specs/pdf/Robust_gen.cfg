SPECIFICATION Spec
CONSTANTS
  MaxLen = 5
  Mode = "sticky"
CONSTRAINT EmitInput
CHECK_DEADLOCK FALSE
