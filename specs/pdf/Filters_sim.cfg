SPECIFICATION Spec
CONSTANTS
  Alphabet = {0, 1, 2, 17, 84, 85, 127, 128, 200, 254, 255}
  MaxRowLen = 12
  MaxRows = 4
  MaxLenAscii = 13
  Kinds <- AllKinds
  Preds <- AllPreds
INVARIANT RoundTrip
CONSTRAINT Emit
CHECK_DEADLOCK FALSE
