SPECIFICATION TreeSpec
CONSTANTS
  Letters = {}
  MaxLen = 4
  PSteps = {1}
  PathAlg = "stack"
  Alias = "copy"
  Walker = "contract"
  TreeStep <- TreeStep2
  TreeBare <- TreeBareOn
CONSTRAINT EmitCase
CHECK_DEADLOCK FALSE
