SPECIFICATION Spec
CONSTANTS
  Letters <- LettersMC
  MaxLen = 3
  PSteps = {1}
  PathAlg = "len"
  Alias = "copy"
  Walker = "impl"
INVARIANTS TypeOK StackIsChain Covers IndexOrder UniqueIds Complete PathsTrue
CHECK_DEADLOCK TRUE
