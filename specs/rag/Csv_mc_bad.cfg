SPECIFICATION Spec
CONSTANTS
  Cases <- BadCases
  MaxIn = 0
INVARIANTS RoundTrip
CHECK_DEADLOCK FALSE
