SPECIFICATION Spec
CONSTANTS
  Cases <- AllCases
  Expand <- McExpand
  Slice = "halfopen"
  MaxN = 3
  MaxB = 4
  MaxF = 3
  Wide = TRUE
INVARIANTS TypeOK Conservation Complete BatchShape IdCarried ColsOK FilterIsSelection ChainCommutes
PROPERTIES Terminates
CONSTRAINT Emit
CHECK_DEADLOCK FALSE
