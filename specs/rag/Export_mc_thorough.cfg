SPECIFICATION Spec
CONSTANTS
  Cases <- AllCases
  Expand <- McExpand
  Slice = "halfopen"
  IndexFrom = "chunk"
  MaxN = 3
  MaxB = 4
  MaxF = 3
  Wide = TRUE
  QVariants = 5
INVARIANTS TypeOK Conservation Complete BatchShape IdCarried ColsOK PositionIndependent OrderEquivariant OwnIndex FilterIsSelection ChainCommutes
PROPERTIES Terminates
CONSTRAINT Emit
CHECK_DEADLOCK FALSE
