----------------------------- MODULE SectionTree -----------------------------
(***************************************************************************)
(* C12 - implementation-shaped model of how the layout-based chunker       *)
(* (rag.Chunker.buildSections) gives every section its path.  Headings     *)
(* arrive in document order; a stack holds the open sections; a new        *)
(* section's path is its parent's path extended by its own heading.        *)
(*                                                                         *)
(*   PathBuild = "copy"  : the path is written into a slice of its own     *)
(*             = "append": path = append(parent.Path, heading) - a Go      *)
(*                         slice; when the parent's backing array has      *)
(*                         spare capacity, siblings share it and the later *)
(*                         one overwrites the earlier one's last entry     *)
(* Memory follows Go's rule for append (capacity 1, 2, 4, 8).              *)
(*                                                                         *)
(* CONTRACT (Chunking.tla): when all headings are placed, the path every   *)
(* section shows is the chain of headings enclosing it.                    *)
(***************************************************************************)
EXTENDS Integers, Sequences, FiniteSets, TLC

CONSTANTS MaxHeads, MaxLevel, PathBuild

VARIABLES
    heads,    \* heading levels in document order
    i,        \* next heading
    stack,    \* indices of the open sections, outermost first
    path,     \* path[s] = [arr, len]: the slice section s keeps
    mem,      \* backing arrays
    expect    \* expect[s] = the chain of enclosing headings of section s

vars == <<heads, i, stack, path, mem, expect>>

\* a heading goes at most one level deeper than the previous one
Trees == UNION {{h \in [1..n -> 1..MaxLevel] : h[1] = 1 /\ \A k \in 2..n : h[k] <= h[k - 1] + 1} : n \in 1..MaxHeads}

Init == /\ heads \in Trees /\ i = 1 /\ stack = <<>> /\ path = <<>> /\ mem = <<>> /\ expect = <<>>

RECURSIVE Pop(_, _)
Pop(st, lv) == IF st # <<>> /\ heads[st[Len(st)]] >= lv THEN Pop(SubSeq(st, 1, Len(st) - 1), lv) ELSE st

NewCap(c) == IF c = 0 THEN 1 ELSE 2 * c

Place ==
    /\ i <= Len(heads)
    /\ LET st == Pop(stack, heads[i])
           chain == Append(st, i)
       IN /\ stack' = chain
          /\ expect' = Append(expect, chain)
          /\ IF st = <<>> \/ PathBuild = "copy"
             THEN \* a fresh slice of exactly the needed size
                  /\ mem' = Append(mem, chain)
                  /\ path' = Append(path, [arr |-> Len(mem) + 1, len |-> Len(chain)])
             ELSE LET pp == path[st[Len(st)]] IN
                  IF pp.len < Len(mem[pp.arr])
                  THEN \* spare capacity: written in place
                       /\ mem' = [mem EXCEPT ![pp.arr][pp.len + 1] = i]
                       /\ path' = Append(path, [arr |-> pp.arr, len |-> pp.len + 1])
                  ELSE LET nc == NewCap(Len(mem[pp.arr]))
                           na == [j \in 1..nc |-> IF j <= pp.len THEN mem[pp.arr][j] ELSE IF j = pp.len + 1 THEN i ELSE 0]
                       IN /\ mem' = Append(mem, na)
                          /\ path' = Append(path, [arr |-> Len(mem) + 1, len |-> pp.len + 1])
    /\ i' = i + 1
    /\ UNCHANGED heads

Done == i > Len(heads) /\ UNCHANGED vars
Next == Place \/ Done
Spec == Init /\ [][Next]_vars

Shown(s) == SubSeq(mem[path[s].arr], 1, path[s].len)

\* read when the tree is complete, as the chunks are
PathsTrue == i > Len(heads) => \A s \in 1..Len(path) : Shown(s) = expect[s]
=============================================================================
