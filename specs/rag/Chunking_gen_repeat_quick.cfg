SPECIFICATION BuildSpec
CONSTANTS
  Letters <- LettersRepeat
  MaxLen = 4
  PSteps = {1}
  PathAlg = "stack"
  Alias = "copy"
  Walker = "contract"
CONSTRAINT EmitCase
CHECK_DEADLOCK FALSE
