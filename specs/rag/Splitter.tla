------------------------------ MODULE Splitter ------------------------------
(***************************************************************************)
(* C13 - splitting respects the size limit and never corrupts text.        *)
(*                                                                         *)
(* A text is a sequence of characters [w |-> bytes 1..4, c |-> class]      *)
(*   class 0 letter (any non-white character), 1 space, 2 newline,         *)
(*         3 sentence end ('.', '!', '?').                                 *)
(* For long texts the same thing is written run-length encoded: a sequence *)
(* of runs <<w, c, n>> = n characters of w bytes and class c.              *)
(* A split result is a sequence of byte ranges <<s, e>> (0-based, e        *)
(* exclusive): where each returned piece lies in the text.                 *)
(*                                                                         *)
(* CONTRACT  SplitOK(runs, ranges, sizes, unit, limit, cpt):               *)
(*   Increasing   ranges are within the text, in order and disjoint        *)
(*   OnBoundaries every range starts and ends on a character boundary      *)
(*                (=> every piece is valid UTF-8 whenever the text is)     *)
(*   Conserved    every non-white character lies inside some range         *)
(*   SizeBound    if the unit is characters or tokens, limit >= MinLimit   *)
(*                and a break (1-byte space/newline) occurs at least every *)
(*                BreakEvery bytes, no piece holds more than limit         *)
(*                characters (tokens: characters \div cpt), white space    *)
(*                around the piece aside                                   *)
(*                                                                         *)
(* IMPLEMENTATION-SHAPED LAYER: the loop of rag.SizeCalculator.SplitToSize *)
(* with FindSplitPointAt / findSentenceEndNear / findWordBoundaryNear on    *)
(* bytes (a byte is: 0 first byte of a letter, 1 space, 2 newline, 3        *)
(* sentence end, 4 continuation byte).  Switches:                          *)
(*   Align = "raw"  : the fallback split position is the raw byte offset   *)
(*         = "rune" : moved to a character boundary                        *)
(*   Cap   = "off"  : the position found by the searches is used as is     *)
(*         = "on"   : a piece longer than the hard maximum is cut at the    *)
(*                    last break before the maximum instead                *)
(* Termination is checked for every variant.                               *)
(***************************************************************************)
EXTENDS Integers, Sequences, FiniteSets, TLC, SequencesExt

CONSTANTS
    Alphabet,    \* characters texts are made of (MC)
    MaxChars,    \* bound on text length in characters (MC)
    Limits,      \* limits explored (MC)
    Units,       \* size units explored (MC)
    Cpt,         \* characters per token (TokensPerChar = 1/Cpt)
    SentWin,     \* sentence search window (100 in the code)
    WordWin,     \* word boundary search window (50 in the code)
    WordsMul, SentMul, ParaMul,   \* rough bytes per word/sentence/paragraph (6, 80, 400)
    MinLimit,    \* smallest limit the size bound is promised for (200)
    BreakEvery,  \* break distance the size bound is promised for (50)
    Align, Cap

VARIABLES
    text,        \* sequence of characters
    unit, limit,
    lo, hi,      \* remaining = bytes lo .. hi-1
    pieces,      \* ranges returned so far
    pc           \* "loop" | "done"

vars == <<text, unit, limit, lo, hi, pieces, pc>>

Max2(a, b) == IF a > b THEN a ELSE b
Min2(a, b) == IF a < b THEN a ELSE b
SMax(S) == CHOOSE x \in S : \A y \in S : x >= y
SMin(S) == CHOOSE x \in S : \A y \in S : x <= y

\* ------------------------------------------------------- run-length texts

AsRuns(t) == [i \in DOMAIN t |-> <<t[i].w, t[i].c, 1>>]

\* start offset of every run, plus the total as last entry
RunStarts(rs) == FoldLeft(LAMBDA acc, r : Append(acc, acc[Len(acc)] + r[1] * r[3]), <<0>>, rs)
TotalBytes(rs) == LET st == RunStarts(rs) IN st[Len(st)]

IsWhite(c) == c \in {1, 2}
IsBreakRun(r) == r[1] = 1 /\ IsWhite(r[2])

\* o is a character boundary of the text
IsBoundary(rs, st, o) ==
    \/ o = st[Len(st)]
    \/ \E i \in 1..Len(rs) : st[i] <= o /\ o < st[i + 1] /\ (o - st[i]) % rs[i][1] = 0

Increasing(ranges, total) ==
    \A i \in 1..Len(ranges) :
        /\ 0 <= ranges[i][1] /\ ranges[i][1] <= ranges[i][2] /\ ranges[i][2] <= total
        /\ (i > 1 => ranges[i - 1][2] <= ranges[i][1])

OnBoundaries(rs, st, ranges) ==
    \A i \in 1..Len(ranges) : IsBoundary(rs, st, ranges[i][1]) /\ IsBoundary(rs, st, ranges[i][2])

\* the gaps before, between and after the ranges
Gaps(ranges, total) ==
    [i \in 1..(Len(ranges) + 1) |->
        << IF i = 1 THEN 0 ELSE ranges[i - 1][2],
           IF i = Len(ranges) + 1 THEN total ELSE ranges[i][1] >>]

\* no gap touches a non-white character
Conserved(rs, st, ranges) ==
    LET gaps == Gaps(ranges, st[Len(st)]) IN
    \A i \in 1..Len(rs) :
        (~IsWhite(rs[i][2]) /\ rs[i][3] > 0) =>
            \A g \in 1..Len(gaps) :
                gaps[g][1] >= gaps[g][2] \/ gaps[g][2] <= st[i] \/ gaps[g][1] >= st[i + 1]

\* characters that start inside <<s, e>>
CeilDiv(a, b) == (a + b - 1) \div b
CharsIn(rs, st, s, e) ==
    FoldLeft(LAMBDA acc, i :
                LET a == Max2(s, st[i])
                    b == Min2(e, st[i + 1])
                IN IF a >= b THEN acc
                   ELSE acc + CeilDiv(b - st[i], rs[i][1]) - CeilDiv(a - st[i], rs[i][1]),
             0, [i \in 1..Len(rs) |-> i])

\* longest stretch of bytes without a 1-byte space/newline
MaxRun(rs) ==
    LET f == FoldLeft(LAMBDA acc, r : IF IsBreakRun(r) /\ r[3] > 0
                                       THEN [cur |-> 0, mx |-> acc.mx]
                                       ELSE [cur |-> acc.cur + r[1] * r[3],
                                             mx  |-> Max2(acc.mx, acc.cur + r[1] * r[3])],
                      [cur |-> 0, mx |-> 0], rs)
    IN f.mx

BoundPromised(rs, u, lim) ==
    /\ u \in {"characters", "tokens"}
    /\ lim >= MinLimit
    /\ MaxRun(rs) < BreakEvery

\* sizes[i] = number of characters of piece i without surrounding white space.
\* For a piece that is a literal part of the text this is CharsIn of its range; a
\* chunker that re-joins sentences with single spaces reports the piece's own count.
SizeBound(rs, sizes, u, lim, cpt) ==
    BoundPromised(rs, u, lim) =>
        \A i \in 1..Len(sizes) : (IF u = "tokens" THEN sizes[i] \div cpt ELSE sizes[i]) <= lim

\* first broken clause, "" if none
SplitClause(rs, ranges, sizes, u, lim, cpt) ==
    LET st == RunStarts(rs) IN
    IF Len(sizes) # Len(ranges) \/ ~Increasing(ranges, st[Len(st)]) THEN "ranges"
    ELSE IF ~OnBoundaries(rs, st, ranges) THEN "boundary"
    ELSE IF ~Conserved(rs, st, ranges) THEN "conservation"
    ELSE IF ~SizeBound(rs, sizes, u, lim, cpt) THEN "size-bound"
    ELSE ""

SplitOK(rs, ranges, sizes, u, lim, cpt) == SplitClause(rs, ranges, sizes, u, lim, cpt) = ""

\* ---- THE size measure.  What "size in unit u" means is the library's own metric:
\* SizeCalculator.Calculate(text), one number per unit (characters, tokens, words,
\* sentences, paragraphs).  Every judgment uses that one function:
\*  (1) a piece, measured by it in the configured unit, does not exceed a hard
\*      character / token maximum (under the same promise as SizeBound; lib[i] is
\*      Calculate(piece i) in the configured unit);
\*  (2) every other accessor agrees with it on the same text: GetSize for each
\*      unit, the metrics Check reports, and the verdicts IsAboveMax /
\*      ExceedsLimit(Max) / Check's hard-maximum verdict (= metric > max) and
\*      IsBelowMin (= metric < min).
Units5 == <<"characters", "tokens", "words", "sentences", "paragraphs">>
UnitIdx(u) == CHOOSE k \in 1..5 : Units5[k] = u

LibBound(rs, lib, u, lim) ==
    BoundPromised(rs, u, lim) => \A i \in 1..Len(lib) : lib[i] <= lim

\* m: [calc, get, check: 5 numbers each; above, exceeds, checkOver, below: BOOLEAN]
MetricClause(m, u, lim, minlim) ==
    LET own == m.calc[UnitIdx(u)] IN
    IF m.get # m.calc THEN "metric-getsize"
    ELSE IF m.check # m.calc THEN "metric-check"
    ELSE IF m.above # (own > lim) THEN "metric-isabovemax"
    ELSE IF m.exceeds # (own > lim) THEN "metric-exceedslimit"
    ELSE IF m.checkOver # (own > lim) THEN "metric-check-verdict"
    ELSE IF m.below # (own < minlim) THEN "metric-isbelowmin"
    ELSE ""

\* --------------------------------------------- implementation-shaped loop

\* the bytes of the text: kind of byte o (0-based) is Bytes[o + 1]
Bytes == FoldLeft(LAMBDA acc, ch : acc \o <<ch.c>> \o [j \in 1..(ch.w - 1) |-> 4], <<>>, text)
B(o) == Bytes[o + 1]
NBytes == Len(Bytes)

RECURSIVE TrimL(_, _)
TrimL(a, b) == IF a < b /\ IsWhite(B(a)) THEN TrimL(a + 1, b) ELSE a
RECURSIVE TrimR(_, _)
TrimR(a, b) == IF a < b /\ IsWhite(B(b - 1)) THEN TrimR(a, b - 1) ELSE b
Trim(a, b) == LET a2 == TrimL(a, b) IN <<a2, TrimR(a2, b)>>

\* ---- size metrics of remaining[a, b)
WordStarts(a, b) == {o \in a..(b - 1) : ~IsWhite(B(o)) /\ (o = a \/ IsWhite(B(o - 1)))}
SentEnds(a, b)   == {o \in a..(b - 1) : B(o) = 3 /\ (o + 1 >= b \/ IsWhite(B(o + 1)))}
\* countSentences: sentence ends, plus an unfinished sentence at the end
Sentences(a, b) ==
    LET ends == SentEnds(a, b)
        tail == IF ends = {} THEN a ELSE SMax(ends) + 1
    IN Cardinality(ends) + (IF \E o \in tail..(b - 1) : ~IsWhite(B(o)) THEN 1 ELSE 0)
\* countParagraphs: non-empty parts of the text split at "\n\n"
ParaStarts(a, b) ==
    {o \in a..(b - 1) : ~IsWhite(B(o)) /\
        LET prev == {p \in a..(o - 1) : ~IsWhite(B(p))}
        IN prev = {} \/ \E z \in (SMax(prev) + 1)..(o - 2) : B(z) = 2 /\ B(z + 1) = 2}
Paragraphs(a, b) == Cardinality(ParaStarts(a, b))

SizeIn(u, a, b) ==
    CASE u = "characters" -> b - a
      [] u = "tokens"     -> (b - a) \div Cpt
      [] u = "words"      -> Cardinality(WordStarts(a, b))
      [] u = "sentences"  -> Sentences(a, b)
      [] u = "paragraphs" -> Paragraphs(a, b)

AboveMax(a, b) == SizeIn(unit, a, b) > limit

TargetPos ==
    CASE unit = "characters" -> limit
      [] unit = "tokens"     -> limit * Cpt
      [] unit = "words"      -> limit * WordsMul
      [] unit = "sentences"  -> limit * SentMul
      [] unit = "paragraphs" -> limit * ParaMul

\* the position (relative to a) where remaining[a, b) is cut; n = b - a
RuneAlign(a, n, p) ==
    LET back == {q \in 1..p : B(a + q) # 4}
        fwd  == {q \in p..(n - 1) : B(a + q) # 4}
    IN IF p <= 0 THEN p
       ELSE IF back # {} THEN SMax(back)
       ELSE IF fwd # {} THEN SMin(fwd) ELSE n

RawOrAligned(a, n, p) == IF Align = "rune" THEN RuneAlign(a, n, p) ELSE p

FindSplit(a, b) ==
    LET n == b - a
        t == TargetPos
        isSp(q) == IsWhite(B(a + q))
        sb == {q \in Max2(0, t - SentWin + 1)..Min2(t, n - 1) : B(a + q) = 3 /\ q + 1 < n /\ isSp(q + 1)}
        sf == {q \in t..Min2(n - 1, t + SentWin - 1) : B(a + q) = 3 /\ (q + 1 >= n \/ isSp(q + 1))}
        wb == {q \in Max2(0, t - WordWin + 1)..Min2(t, n - 1) : isSp(q)}
        wf == {q \in t..Min2(n - 1, t + WordWin - 1) : isSp(q)}
    IN IF t >= n THEN n
       ELSE IF sb # {} THEN SMax(sb) + 1
       ELSE IF sf # {} THEN SMin(sf) + 1
       ELSE IF wb # {} THEN SMax(wb) + 1
       ELSE IF wf # {} THEN SMin(wf) + 1
       ELSE RawOrAligned(a, n, t)

\* the hard maximum in bytes (characters and tokens only)
MaxBytes == IF unit = "tokens" THEN limit * Cpt ELSE limit
Capped == Cap = "on" /\ unit \in {"characters", "tokens"}

\* last break at or before byte m of remaining[a, b), else the aligned position
CapSplit(a, b, m) ==
    LET n  == b - a
        br == {q \in 1..Min2(m, n - 1) : IsWhite(B(a + q))}
    IN IF br # {} THEN SMax(br) ELSE RawOrAligned(a, n, Min2(m, n))

\* the piece the loop would emit for position p: remaining[:p] trimmed, or all of
\* remaining when p is not inside it
SplitPos(a, b) ==
    LET p   == FindSplit(a, b)
        pc1 == IF p <= 0 \/ p >= b - a THEN Trim(a, b) ELSE Trim(a, a + p)
    IN IF Capped /\ pc1[2] - pc1[1] > MaxBytes THEN CapSplit(a, b, MaxBytes) ELSE p

Step ==
    /\ pc = "loop"
    /\ IF lo >= hi
       THEN /\ pc' = "done" /\ UNCHANGED <<lo, hi, pieces>>
       ELSE IF ~AboveMax(lo, hi)
            THEN /\ pieces' = Append(pieces, <<lo, hi>>) /\ pc' = "done" /\ UNCHANGED <<lo, hi>>
            ELSE LET sp == SplitPos(lo, hi) IN
                 IF sp <= 0 \/ sp >= hi - lo
                 THEN /\ pieces' = Append(pieces, <<lo, hi>>) /\ pc' = "done" /\ UNCHANGED <<lo, hi>>
                 ELSE LET ch == Trim(lo, lo + sp)
                          rm == Trim(lo + sp, hi)
                      IN /\ pieces' = IF ch[1] < ch[2] THEN Append(pieces, ch) ELSE pieces
                         /\ lo' = rm[1] /\ hi' = rm[2] /\ pc' = "loop"
    /\ UNCHANGED <<text, unit, limit>>

Done == pc = "done" /\ UNCHANGED vars

TextsUpTo(n) == UNION {[1..k -> Alphabet] : k \in 0..n}

Init ==
    /\ text \in TextsUpTo(MaxChars) /\ unit \in Units /\ limit \in Limits
    /\ lo = 0 /\ hi = Len(FoldLeft(LAMBDA acc, ch : acc \o [j \in 1..ch.w |-> 0], <<>>, text))
    /\ pieces = <<>> /\ pc = "loop"

Next == Step \/ Done
Spec == Init /\ [][Next]_vars /\ WF_vars(Step)
GenSpec == Init /\ [][FALSE]_vars

\* ------------------------------------------------------------ properties

Termination == <>(pc = "done")

Runs == AsRuns(text)

LoopRanges  == pc = "done" => Increasing(pieces, NBytes)
LoopBounds  == pc = "done" => OnBoundaries(Runs, RunStarts(Runs), pieces)
LoopConserv == pc = "done" => Conserved(Runs, RunStarts(Runs), pieces)
\* sizes are taken "whitespace aside": of the piece without surrounding white space
\* (the harness reports the ranges of the real pieces the same way)
TrimmedPieces == [i \in 1..Len(pieces) |-> Trim(pieces[i][1], pieces[i][2])]
PieceSizes == [i \in 1..Len(pieces) |->
                 CharsIn(Runs, RunStarts(Runs), TrimmedPieces[i][1], TrimmedPieces[i][2])]
LoopSize    == pc = "done" => SizeBound(Runs, PieceSizes, unit, limit, Cpt)
\* the loop always makes progress
Progress    == [][pc = "loop" => (pc' = "done" \/ hi' - lo' < hi - lo)]_vars
=============================================================================
