SPECIFICATION Spec
CONSTRAINT EmitCase
CHECK_DEADLOCK FALSE
