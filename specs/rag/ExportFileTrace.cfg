SPECIFICATION TraceSpec
CONSTANTS
  Chunks <- TraceChunks
  FCallSeq <- NoCalls
  InitDests <- AllDests
  BatchSize <- TraceSize
  MaxLen = 1000000
  Open = "trunc"
INVARIANTS FileIsExport
POSTCONDITION TraceAccepted
CHECK_DEADLOCK FALSE
