SPECIFICATION TraceSpec
CONSTANTS
  MaxChunks = 0
  MaxTokens = 0
  Sizes = {}
  MinOv = 0
  MaxOv = 0
  Source = "own"
  Trunc = "tail"
  Floor = "drop"
  Strict = FALSE
POSTCONDITION TraceAccepted
CHECK_DEADLOCK FALSE
