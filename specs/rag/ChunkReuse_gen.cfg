SPECIFICATION Spec
CONSTRAINT EmitHist
CHECK_DEADLOCK FALSE
