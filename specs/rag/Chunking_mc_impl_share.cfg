SPECIFICATION Spec
CONSTANTS
  Letters <- LettersMC
  MaxLen = 3
  PSteps = {1}
  PathAlg = "stack"
  Alias = "share"
  Walker = "impl"
INVARIANTS TypeOK StackIsChain Covers IndexOrder UniqueIds Complete PathsTrue
CHECK_DEADLOCK TRUE
