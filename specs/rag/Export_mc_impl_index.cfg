SPECIFICATION Spec
CONSTANTS
  Cases <- PosCases
  Expand <- McExpand
  Slice = "halfopen"
  IndexFrom = "position"
  MaxN = 2
  MaxB = 2
  MaxF = 0
  Wide = FALSE
INVARIANTS PositionIndependent OwnIndex OrderEquivariant
CHECK_DEADLOCK FALSE
