SPECIFICATION Spec
CONSTANTS
  Cases <- PosCases
  Expand <- McExpand
  Slice = "halfopen"
  IndexFrom = "position"
  MaxN = 2
  MaxB = 2
  MaxF = 0
  Wide = FALSE
  QVariants = 3
INVARIANTS PositionIndependent OwnIndex OrderEquivariant
CHECK_DEADLOCK FALSE
