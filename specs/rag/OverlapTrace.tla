----------------------------- MODULE OverlapTrace -----------------------------
(* Trace validation for Overlap: one line per overlap the real code added:    *)
(*   Overlap {t, start, matched, valid, pbytes, pchars, min, max}             *)
(*     t       own content of the previous chunk, run-length encoded          *)
(*     start   byte offset in it where the overlap text begins when aligned   *)
(*             to its end ignoring white space                                *)
(*     matched the overlap text is such a suffix                              *)
(* Strict = FALSE prints the broken clause of every rejected line.            *)
EXTENDS Overlap, Json
RU == INSTANCE OverlapReuse WITH Texts <- {}, Size <- 0, MaxChunks <- 0, Memo <- "none", Touch <- "contract",
                             asked <- <<>>, memo <- <<>>, given <- <<>>, now <- <<>>, pass <- 0

CONSTANT Strict

Trace == ndJsonDeserialize("trace.ndjson")

VARIABLE l
tvars == <<vars, l>>
Ev == Trace[l]

TraceInit == own = <<>> /\ size = 0 /\ prefix = <<>> /\ i = 0 /\ l = 1

RunStarts(rs) == FoldLeft(LAMBDA acc, r : Append(acc, acc[Len(acc)] + r[1] * r[3]), <<0>>, rs)
IsBoundary(rs, st, o) ==
    \/ o = st[Len(st)]
    \/ \E j \in 1..Len(rs) : st[j] <= o /\ o < st[j + 1] /\ (o - st[j]) % rs[j][1] = 0

EvClause(e) ==
    ObsClause(e.pbytes = 0, e.valid, e.matched, IsBoundary(e.t, RunStarts(e.t), e.start),
              e.pbytes, e.pchars, e.min, e.max)

Report(cl) == PrintT(ToJson([line |-> l, clause |-> cl]))

TraceOverlap ==
    /\ l <= Len(Trace) /\ Ev.event = "Overlap"
    /\ LET cl == EvClause(Ev) IN
         \/ cl = ""
         \/ (cl # "" /\ ~Strict /\ Report(cl))
    /\ l' = l + 1
    /\ UNCHANGED vars

\* Reuse {api, same}: a call on a reused generator compared with a fresh one
TraceReuse ==
    /\ l <= Len(Trace) /\ Ev.event = "Reuse"
    /\ \/ Ev.same
       \/ (~Ev.same /\ ~Strict /\ Report("reuse"))
    /\ l' = l + 1
    /\ UNCHANGED vars

\* Frame {changed, kept}: what one ApplyOverlapToChunks call changed in the chunks
\* it was given (per chunk: names of the fields that differ, and whether the text
\* still ends with the text that was given)
FrameClauseOf(e) ==
    LET bad == {k \in 1..Len(e.changed) : RU!FrameClause(k, {e.changed[k][j] : j \in 1..Len(e.changed[k])}, e.kept[k]) # ""}
    IN IF bad = {} THEN ""
       ELSE LET k == CHOOSE x \in bad : \A y \in bad : x <= y
            IN RU!FrameClause(k, {e.changed[k][j] : j \in 1..Len(e.changed[k])}, e.kept[k])

TraceFrame ==
    /\ l <= Len(Trace) /\ Ev.event = "Frame"
    /\ LET cl == FrameClauseOf(Ev) IN
         \/ cl = ""
         \/ (cl # "" /\ ~Strict /\ Report(cl))
    /\ l' = l + 1
    /\ UNCHANGED vars

TraceSpec == TraceInit /\ [][TraceOverlap \/ TraceReuse \/ TraceFrame]_tvars
TraceAccepted == TLCGet("stats").diameter - 1 = Len(Trace)
=============================================================================
