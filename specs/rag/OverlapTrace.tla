----------------------------- MODULE OverlapTrace -----------------------------
(* Trace validation for Overlap: one line per overlap the real code added:    *)
(*   Overlap {t, start, matched, valid, pbytes, pchars, min, max}             *)
(*     t       own content of the previous chunk, run-length encoded          *)
(*     start   byte offset in it where the overlap text begins when aligned   *)
(*             to its end ignoring white space                                *)
(*     matched the overlap text is such a suffix                              *)
(* Strict = FALSE prints the broken clause of every rejected line.            *)
EXTENDS Overlap, Json

CONSTANT Strict

Trace == ndJsonDeserialize("trace.ndjson")

VARIABLE l
tvars == <<vars, l>>
Ev == Trace[l]

TraceInit == own = <<>> /\ size = 0 /\ prefix = <<>> /\ i = 0 /\ l = 1

RunStarts(rs) == FoldLeft(LAMBDA acc, r : Append(acc, acc[Len(acc)] + r[1] * r[3]), <<0>>, rs)
IsBoundary(rs, st, o) ==
    \/ o = st[Len(st)]
    \/ \E j \in 1..Len(rs) : st[j] <= o /\ o < st[j + 1] /\ (o - st[j]) % rs[j][1] = 0

EvClause(e) ==
    ObsClause(e.pbytes = 0, e.valid, e.matched, IsBoundary(e.t, RunStarts(e.t), e.start),
              e.pbytes, e.pchars, e.min, e.max)

Report(cl) == PrintT(ToJson([line |-> l, clause |-> cl]))

TraceOverlap ==
    /\ l <= Len(Trace) /\ Ev.event = "Overlap"
    /\ LET cl == EvClause(Ev) IN
         \/ cl = ""
         \/ (cl # "" /\ ~Strict /\ Report(cl))
    /\ l' = l + 1
    /\ UNCHANGED vars

TraceSpec == TraceInit /\ [][TraceOverlap]_tvars
TraceAccepted == TLCGet("stats").diameter - 1 = Len(Trace)
=============================================================================
