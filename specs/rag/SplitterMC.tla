----------------------------- MODULE SplitterMC -----------------------------
(* Bounded instances of Splitter: alphabets, case emission.                  *)
EXTENDS Splitter, Json

Ch(w, c) == [w |-> w, c |-> c]

\* letters of 1 and 3 bytes, space, sentence end, newline
AlphaSmall == {Ch(1, 0), Ch(3, 0), Ch(1, 1), Ch(1, 3), Ch(1, 2)}
\* + 2- and 4-byte letters
AlphaWide  == AlphaSmall \cup {Ch(2, 0), Ch(4, 0)}

AllUnits == {"characters", "tokens", "words", "sentences", "paragraphs"}

\* every initial state is one case for the real SplitToSize
Case == [t |-> AsRuns(text), unit |-> unit, limit |-> limit]
EmitCase == PrintT(ToJson(Case))
=============================================================================
