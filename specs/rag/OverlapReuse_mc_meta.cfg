SPECIFICATION Spec
CONSTANTS
  Texts <- TextsMC
  Size = 2
  MaxChunks = 3
  Memo = "none"
  Touch = "meta"
INVARIANTS Purity Frame
CHECK_DEADLOCK TRUE
