---------------------------- MODULE ExportObjTrace ----------------------------
(* Trace validation for ExportObj.  Line 1 of trace.ndjson is "Open": the      *)
(* collections of the session, the export configurations and the batch size.  *)
(* "Reset" starts a history on fresh objects built with configuration xc;      *)
(* every "Call" is one call on those objects with what was observed: the ids   *)
(* returned / written in order, the header row (when the output has one) and   *)
(* the ids every receiver holds after the call.  The spec's objects are the    *)
(* pure ones: a call is accepted only if it returned what fresh objects return *)
(* and left every receiver as it was.                                          *)
EXTENDS ExportObj, Json

Trace == ndJsonDeserialize("trace.ndjson")
TraceColls == Trace[1].colls
TraceXFmts == Trace[1].xfmts
TraceSize == Trace[1].size
NoCalls == <<>>

VARIABLE l
tvars == <<ovars, l>>

TraceInit == /\ l = 2 /\ xc = 1 /\ hist = <<>> /\ cache = [set |-> FALSE, cols |-> <<>>]
             /\ recv = [n \in 1..NColl |-> Orig(n)]

Ev == Trace[l]

TraceReset ==
    /\ l <= Len(Trace) /\ Ev.event = "Reset" /\ l' = l + 1
    /\ Ev.xc \in 1..Len(XFmts) /\ xc' = Ev.xc
    /\ hist' = <<>> /\ cache' = [set |-> FALSE, cols |-> <<>>]
    /\ recv' = [n \in 1..NColl |-> Orig(n)]

TraceCall ==
    /\ l <= Len(Trace) /\ Ev.event = "Call" /\ l' = l + 1
    /\ "err" \notin DOMAIN Ev
    /\ LET c == [op |-> Ev.op, k |-> Ev.k, preds |-> Ev.preds, app |-> Ev.app, fmt |-> Ev.fmt, cfg |-> Ev.cfg] IN
         /\ c.k \in 1..NColl
         /\ DoCallRec(c, 0)
         /\ LET res == hist'[Len(hist')].res IN
              /\ Ev.ids = res.ids
              /\ (Ev.hascols => Ev.cols = res.cols)
         \* every receiver still holds its chunks, in order, with unchanged field values
         /\ Ev.intact
         /\ \A n \in 1..NColl : Ev.recv[n] = E!Ids(Colls[n])

TraceNext == TraceReset \/ TraceCall

TraceSpec == TraceInit /\ [][TraceNext]_tvars

TraceAccepted == TLCGet("stats").diameter = Len(Trace)
=============================================================================
