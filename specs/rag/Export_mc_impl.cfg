SPECIFICATION Spec
CONSTANTS
  Cases <- LoopCases
  Expand <- McExpand
  Slice = "closed"
  IndexFrom = "chunk"
  MaxN = 0
  MaxB = 3
  MaxF = 0
  Wide = FALSE
  QVariants = 3
INVARIANTS Conservation Complete
CHECK_DEADLOCK FALSE
