----------------------------- MODULE ExportTrace -----------------------------
(* Trace validation for Export: every line of trace.ndjson is one action of   *)
(* the exporter / filter machine executed by the real code, with the records  *)
(* parsed back from the real output (all schema fields, absent = zero value). *)
(* Segments start with a "Begin" event carrying the whole case.               *)
EXTENDS Export, Json

Trace == ndJsonDeserialize("trace.ndjson")

VARIABLE l
tvars == <<evars, l>>

Ident(c) == c

NoCase == [mode |-> "none", chunks |-> <<>>, fmt |-> "none",
           cfg |-> [text |-> TRUE, meta |-> TRUE, fields |-> "all", flatten |-> FALSE, header |-> TRUE,
                    pretty |-> FALSE, idcol |-> "chunk_id", emb |-> FALSE],
           size |-> 0, preds |-> <<>>]

TraceInit == /\ l = 1 /\ cas = NoCase /\ i = 0 /\ emitted = <<>> /\ cur = <<>> /\ k = 0 /\ done = TRUE

Ev == Trace[l]
IsEv(n) == l <= Len(Trace) /\ Ev.event = n /\ "err" \notin DOMAIN Ev /\ l' = l + 1

\* a parsed-back value against the expected one.  A list cell of a delimiter-
\* separated export whose elements contain the separator has no prescribed
\* encoding: only its presence is required.
ValMatches(e, o) ==
    IF e.t = "l" /\ IsDsv(X.fmt) /\ ~e.simple THEN TRUE
    ELSE o.t = e.t /\ o.v = e.v

MapMatches(em, om) == \A f \in DOMAIN em : f \in DOMAIN om /\ ValMatches(em[f], om[f])

RecsMatch(exp, obs) ==
    /\ Len(obs) = Len(exp)
    /\ \A r \in 1..Len(exp) : MapMatches(exp[r].top, obs[r].top) /\ MapMatches(exp[r].meta, obs[r].meta)

TraceBegin ==
    /\ IsEv("Begin")
    /\ cas' = [mode |-> Ev.mode, chunks |-> Ev.chunks, fmt |-> Ev.fmt, cfg |-> Ev.cfg, size |-> Ev.size, preds |-> Ev.preds]
    /\ i' = 0 /\ emitted' = <<>> /\ cur' = [p \in 1..Len(Ev.chunks) |-> p] /\ k' = 0 /\ done' = FALSE

TraceExport ==
    /\ IsEv("Export")
    /\ ExportAll
    /\ RecsMatch(BRecs(emitted'[1]), Ev.recs)

TraceBatch ==
    /\ IsEv("Batch")
    /\ EmitBatch
    /\ LET b == emitted'[Len(emitted')] IN
         /\ Ev.number = b.number /\ Ev.start = b.start /\ Ev.end = b.end /\ Ev.count = b.end - b.start
         /\ RecsMatch(BRecs(b), Ev.recs)

TraceWrite ==
    /\ IsEv("Write")
    /\ WriteChunk
    /\ RecsMatch(BRecs(emitted'[Len(emitted')]), Ev.recs)

TraceEnd == IsEv("End") /\ LoopEnd

TraceFilter ==
    /\ IsEv("Filter")
    /\ ApplyFilter
    /\ Ev.ids = [n \in 1..Len(cur') |-> X.chunks[cur'[n]].id]

TraceFilterEnd ==
    /\ IsEv("FilterEnd")
    /\ FilterEnd
    /\ Ev.src = Ids(X.chunks)

TraceNext == TraceBegin \/ TraceExport \/ TraceBatch \/ TraceWrite \/ TraceEnd \/ TraceFilter \/ TraceFilterEnd

TraceSpec == TraceInit /\ [][TraceNext]_tvars

TraceAccepted == TLCGet("stats").diameter - 1 = Len(Trace)
=============================================================================
