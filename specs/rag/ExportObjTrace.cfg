SPECIFICATION TraceSpec
CONSTANTS
  Colls <- TraceColls
  CallSeq <- NoCalls
  XFmts <- TraceXFmts
  BatchSize <- TraceSize
  MaxLen = 1000000
  FilterImpl = "pure"
  ColCache = "none"
INVARIANTS ReceiverUnchanged NoRetainedState
POSTCONDITION TraceAccepted
CHECK_DEADLOCK FALSE
