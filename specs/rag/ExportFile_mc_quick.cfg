SPECIFICATION McSpec
CONSTANTS
  Chunks <- McChunks
  FCallSeq <- McFCallSeq
  InitDests <- McInitDests
  BatchSize = 2
  MaxLen = 3
  Open = "trunc"
INVARIANTS TypeOK FileIsExport
CHECK_DEADLOCK FALSE
CONSTRAINT EmitFile
