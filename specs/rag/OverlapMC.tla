------------------------------ MODULE OverlapMC ------------------------------
(* Overlap configurations for the real overlap code: three chunks, each a      *)
(* [ns sentences, sl words per sentence, cw bytes per letter], x strategy x     *)
(* size x bounds x word preservation x heading context.                        *)
EXTENDS Integers, Sequences, FiniteSets, TLC, Json

VARIABLE cs

Kind(ns, sl, cw) == [ns |-> ns, sl |-> sl, cw |-> cw]
Kinds == {Kind(1, 2, 1), Kind(1, 12, 3), Kind(2, 10, 1), Kind(4, 3, 3), Kind(2, 45, 1), Kind(1, 40, 4)}

StratSizes == {<<"character", 10>>, <<"character", 50>>, <<"character", 200>>,
               <<"sentence", 1>>, <<"sentence", 2>>, <<"paragraph", 1>>}
Bounds == {<<0, 500>>, <<20, 300>>, <<20, 60>>}

CaseSpace == [chunks : [1..3 -> Kinds], ss : StratSizes, b : Bounds, pw : BOOLEAN, ctx : BOOLEAN]

Init == cs \in CaseSpace
Next == FALSE /\ UNCHANGED cs
Spec == Init /\ [][Next]_cs

EmitCase == PrintT(ToJson([chunks |-> cs.chunks, strategy |-> cs.ss[1], size |-> cs.ss[2],
                           min |-> cs.b[1], max |-> cs.b[2], pw |-> cs.pw, ctx |-> cs.ctx]))
=============================================================================
