SPECIFICATION BuildSpec
CONSTANTS
  Letters <- LettersGen
  MaxLen = 4
  PSteps = {1, 2}
  PathAlg = "stack"
  Alias = "copy"
  Walker = "contract"
CONSTRAINT EmitCase
CHECK_DEADLOCK FALSE
