SPECIFICATION Spec
CONSTANTS
  MaxSegs = 2
  WordLens = {2, 9, 16, 47, 80}
  Widths = {1, 2, 3, 4}
  Seps = {"sp", "nl", "dot", "dotfar", "dotcap", "abbr", "none"}
  UnitLimits <- ULs
  Space <- ProfSpace
CONSTRAINT EmitCase
CHECK_DEADLOCK FALSE
