SPECIFICATION GenSpec
CONSTANTS
  Alphabet <- AlphaSmall
  MaxChars = 6
  Limits = {1, 2, 3, 4, 5, 6}
  Units <- AllUnits
  Cpt = 4
  SentWin = 100
  WordWin = 50
  WordsMul = 6
  SentMul = 80
  ParaMul = 400
  MinLimit = 200
  BreakEvery = 50
  Align = "rune"
  Cap = "on"
CONSTRAINT EmitCase
CHECK_DEADLOCK FALSE
