SPECIFICATION Spec
CONSTANTS
  Cases <- AllCases
  MaxIn = 5
INVARIANTS TypeOK FunctionAgrees
CONSTRAINT Emit
CHECK_DEADLOCK FALSE
