SPECIFICATION Spec
CONSTANTS
  Cases <- AllCases
  Expand <- McExpand
  Slice = "halfopen"
  MaxN = 2
  MaxB = 3
  MaxF = 2
  Wide = FALSE
INVARIANTS TypeOK Conservation Complete BatchShape IdCarried ColsOK FilterIsSelection ChainCommutes
PROPERTIES Terminates
CONSTRAINT Emit
CHECK_DEADLOCK FALSE
