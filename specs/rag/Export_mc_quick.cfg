SPECIFICATION Spec
CONSTANTS
  Cases <- AllCases
  Expand <- McExpand
  Slice = "halfopen"
  IndexFrom = "chunk"
  MaxN = 2
  MaxB = 3
  MaxF = 2
  Wide = FALSE
  QVariants = 4
INVARIANTS TypeOK Conservation Complete BatchShape IdCarried ColsOK PositionIndependent OrderEquivariant OwnIndex FilterIsSelection ChainCommutes
PROPERTIES Terminates
CONSTRAINT Emit
CHECK_DEADLOCK FALSE
