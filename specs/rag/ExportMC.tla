------------------------------ MODULE ExportMC ------------------------------
(* Bounded instances of Export: adversarial texts, chunk archetypes, the     *)
(* configuration product, batch sizes, filter chains; case emission.         *)
EXTENDS Export, Json

CONSTANTS MaxN,      \* collections of up to MaxN chunks in the configuration product
          MaxB,      \* collections of up to MaxB chunks for the batch / stream loops
          MaxF,      \* collections of up to MaxF chunks for filter chains
          Wide,      \* TRUE: the full adversarial text set
          QVariants  \* chain variants per keyword in the case-pair family (1..5)

\* ---------------------------------------------------------------- texts
AdvQ == { <<>>, <<"w1">>, <<"w1", "COMMA", "QUOTE", "w2">>, <<"TAB", "w1", "CR", "LF">>, <<"LF">>,
          <<"NUL", "EMOJI">>, <<"JSONISH">>, <<"SP", "w1", "SP">> }
AdvW == AdvQ \cup { <<"COMMA">>, <<"QUOTE">>, <<"CR">>, <<"w1", "CR", "LF", "w2">>, <<"QUOTE", "COMMA", "QUOTE">>,
                    <<"w1", "NUL">>, <<"w1", "SP">>, <<"JSONISH", "COMMA", "TAB", "JSONISH">> }
Adv == IF Wide THEN AdvW ELSE AdvQ

Base == [id |-> <<"i1">>, text |-> <<"w1">>, title |-> <<>>, section |-> <<>>, path |-> <<>>, etypes |-> <<>>,
         hlevel |-> 0, pstart |-> 0, pend |-> 0, index |-> 0, total |-> 0, level |-> 2, parent |-> <<>>,
         children |-> <<>>, table |-> FALSE, list |-> FALSE, image |-> FALSE, chars |-> 0, words |-> 0,
         tokens |-> 0, emb |-> <<1, -2>>]

\* ---------------------------------------------------------------- configurations
DefCfg(f) == [text |-> TRUE, meta |-> TRUE, fields |-> "all", flatten |-> f \in {"csv", "tsv"}, header |-> TRUE,
              pretty |-> f = "json", idcol |-> "chunk_id", emb |-> TRUE]

JsonCfgs == [text : BOOLEAN, meta : BOOLEAN, fields : {"all", "some", "vdb"}, flatten : BOOLEAN,
             header : {TRUE}, pretty : BOOLEAN, idcol : {"chunk_id"}, emb : {FALSE}]
DsvCfgs  == [text : BOOLEAN, meta : BOOLEAN, fields : {"all", "some", "vdb"}, flatten : BOOLEAN,
             header : BOOLEAN, pretty : {FALSE}, idcol : {"chunk_id", "id"}, emb : {FALSE}]
FmtCfgs == ({"jsonl", "json"} \X JsonCfgs) \cup ({"csv", "tsv"} \X DsvCfgs)
           \cup {<<"vdb", DefCfg("vdb")>>, <<"pinecone", DefCfg("pinecone")>>}
           \cup ({"chroma", "weaviate"} \X {DefCfg("x"), [DefCfg("x") EXCEPT !.emb = FALSE]})

AllFmts == {"jsonl", "json", "csv", "tsv", "vdb", "pinecone", "chroma", "weaviate"}

Case(mode, chunks, f, cfg, size, preds) ==
    [mode |-> mode, chunks |-> chunks, fmt |-> f, cfg |-> cfg, size |-> size, preds |-> preds]

\* descriptors (the state variable) are small tuples of indices, so that the sets of
\* cases are cheap to build and the states cheap to fingerprint:
\*   <<"A", text, title, section, fmt>>      <<"B", sel, n>>  n-th of FmtCfgSeq
\*   <<"C", sel, n, size>> n-th of BatchCfgSeq    <<"S", sel, fmt>>
\*   <<"D", sel, p, q>>    chain <<PredSeq[p]>> or <<PredSeq[p], PredSeq[q]>> (q = 0: single)
FmtCfgSeq == SetToSeq(FmtCfgs)

\* ------------------------------------------- A: one chunk, every text x title x section
ChunkA(t, d, s) == [Base EXCEPT !.text = t, !.title = d, !.section = s,
                                !.path = IF s = <<>> THEN <<>> ELSE << <<"w3">>, s >>,
                                !.pstart = 1, !.pend = 1, !.chars = 3, !.words = 1]
CasesA == {<<"A", t, d, s, f>> : t \in Adv, d \in Adv, s \in Adv, f \in AllFmts}

\* ------------------------------------------- B: collections of archetypes x configurations
IdTok(p) == CASE p = 1 -> "i1" [] p = 2 -> "i2" [] p = 3 -> "i3" [] p = 4 -> "i4" [] OTHER -> "i5"

\* 1: every optional value zero / empty;  2: rich and adversarial;  3: separators inside list elements.
\* What a chunk says about itself (index, total, title) belongs to the archetype, not to the
\* position p: a collection <<2, 1>> has its index-0 chunk second, <<1, 1>> repeats index 0
\* (two documents merged), <<3, 2, 1>> is a reversed document.  Only the id is by position
\* (ids identify chunks in the loop and filter invariants).
Arch(a, p) ==
    CASE a = 1 -> [Base EXCEPT !.id = <<IdTok(p)>>, !.text = <<>>, !.index = 0, !.level = 0, !.emb = <<3>>]
      [] a = 2 -> [Base EXCEPT !.id = <<IdTok(p)>>, !.text = <<"w1", "COMMA", "QUOTE", "LF", "w2">>,
                               !.title = <<"TAB", "w1">>, !.section = <<"w2", "CR", "LF">>,
                               !.path = << <<"w1">>, <<"w2", "CR", "LF">> >>, !.etypes = <<"paragraph", "list">>,
                               !.hlevel = 2, !.pstart = 1, !.pend = 2, !.index = 1, !.total = 3, !.level = 2,
                               !.parent = <<"i1">>, !.children = << <<"i3">>, <<"i4">> >>, !.table = TRUE, !.image = TRUE,
                               !.chars = 5, !.words = 2, !.tokens = 1, !.emb = <<1, -2>>]
      [] a = 3 -> [Base EXCEPT !.id = <<IdTok(p), "QUOTE">>, !.text = <<"JSONISH", "NUL", "EMOJI">>,
                               !.title = <<"SP", "w1", "SP">>, !.path = << <<"w1", "COMMA", "w2">> >>,
                               !.section = <<"w1", "COMMA", "w2">>, !.etypes = <<"table">>,
                               !.pstart = 3, !.pend = 3, !.index = 2, !.total = 5, !.level = 1, !.list = TRUE,
                               !.words = 7, !.emb = <<0, 5, -1>>]

Colls(n, A) == UNION {[1..m -> A] : m \in 0..n}
ChunksOf(sel) == [p \in 1..Len(sel) |-> Arch(sel[p], p)]

CasesB == {<<"B", sel, n>> : sel \in Colls(MaxN, 1..3), n \in 1..Len(FmtCfgSeq)}

\* ------------------------------------------- C: batch and stream loops
BatchCfgs == {<<f, [DefCfg(f) EXCEPT !.header = h]>> : f \in {"jsonl", "json", "csv", "tsv"}, h \in BOOLEAN}
BatchCfgSeq == SetToSeq(BatchCfgs)
CasesC == {<<"C", sel, n, sz>> : sel \in Colls(MaxB, 1..2), n \in 1..Len(BatchCfgSeq), sz \in 1..(MaxB + 1)}
CasesCUsed == {c \in CasesC : c[4] <= Len(c[2]) + 1}
CasesS == {<<"S", sel, f>> : sel \in Colls(MaxB, 1..3), f \in {"jsonl", "json"}}

\* ------------------------------------------- D: filter chains
FArch(a, p) ==
    CASE a = 1 -> [Base EXCEPT !.id = <<IdTok(p)>>, !.text = <<"w1", "W2">>, !.section = <<"w1">>, !.path = << <<"w1">> >>,
                               !.pstart = 1, !.pend = 1, !.etypes = <<"paragraph">>, !.tokens = 1, !.index = 2]
      [] a = 2 -> [Base EXCEPT !.id = <<IdTok(p)>>, !.text = <<"w2", "COMMA", "w3">>, !.section = <<"w2">>,
                               !.path = << <<"w1">>, <<"w2">> >>, !.pstart = 1, !.pend = 3, !.etypes = <<"list", "table">>,
                               !.table = TRUE, !.list = TRUE, !.tokens = 5, !.index = 0]
      [] a = 3 -> [Base EXCEPT !.id = <<IdTok(p)>>, !.text = <<"W1", "LF", "w1", "w2">>, !.section = <<>>,
                               !.pstart = 3, !.pend = 4, !.etypes = <<"table">>, !.image = TRUE, !.tokens = 9, !.index = 1]
      [] a = 4 -> [Base EXCEPT !.id = <<IdTok(p)>>, !.text = <<>>, !.section = <<"w3">>, !.path = << <<"w3">> >>,
                               !.pstart = 0, !.pend = 0, !.tokens = 0, !.index = 0]

Pr(kk, s, a, b, e, st) == [k |-> kk, s |-> s, a |-> a, b |-> b, e |-> e, set |-> st]
Preds == { Pr("section", <<"w1">>, 0, 0, "", <<>>), Pr("section", <<"w2">>, 0, 0, "", <<>>), Pr("section", <<>>, 0, 0, "", <<>>),
           Pr("page", <<>>, 1, 0, "", <<>>), Pr("page", <<>>, 3, 0, "", <<>>),
           Pr("pagerange", <<>>, 2, 3, "", <<>>), Pr("pagerange", <<>>, 4, 9, "", <<>>),
           Pr("etype", <<>>, 0, 0, "LIST", <<>>), Pr("etype", <<>>, 0, 0, "Table", <<>>), Pr("etype", <<>>, 0, 0, "figure", <<>>),
           Pr("tables", <<>>, 0, 0, "", <<>>), Pr("lists", <<>>, 0, 0, "", <<>>), Pr("images", <<>>, 0, 0, "", <<>>),
           Pr("mintok", <<>>, 5, 0, "", <<>>), Pr("maxtok", <<>>, 5, 0, "", <<>>),
           Pr("search", <<"W1">>, 0, 0, "", <<>>), Pr("search", <<"w1", "w2">>, 0, 0, "", <<>>), Pr("search", <<"COMMA">>, 0, 0, "", <<>>),
           Pr("search", <<>>, 0, 0, "", <<>>),
           Pr("index", <<>>, 0, 0, "", <<0, 2>>), Pr("index", <<>>, 0, 0, "", <<>>) }
PredSeq == SetToSeq(Preds)
FChunksOf(sel) == [p \in 1..Len(sel) |-> FArch(sel[p], p)]
CasesD == {<<"D", sel, p, q>> : sel \in Colls(MaxF, 1..4), p \in 1..Len(PredSeq), q \in 0..Len(PredSeq)}

\* ------------------------------------------- Q: Search and FilterBySection over case pairs
\* One collection per group of related characters: a chunk for EVERY text of <= 3 characters over the
\* group and a digit, so the keyword occurs at the start, in the middle, at the end, twice, overlapping
\* itself or not at all; the keyword is every text of <= 2 characters, in either case.
\* <<"Q", g, n, v>>: group g, n-th keyword, chain variant v
QGroups == << <<"a", "A">>, <<"e1", "E1">>, <<"I1", "i">>, <<"KS", "k", "K">>, <<"sf", "sg", "SG">>,
              <<"ls", "s", "S">>, <<"ss", "SS">>, <<"AS", "as">>, <<"EMOJI", "NUL">> >>
QAlpha(g) == {QGroups[g][n] : n \in 1..Len(QGroups[g])} \cup {"d7"}
QSeqs(g, m) == UNION {[1..n -> QAlpha(g)] : n \in 0..m}
\* zero-arity on purpose: TLC evaluates these once at start-up instead of once per use
QTextsAll == [g \in 1..Len(QGroups) |-> SetToSeq(QSeqs(g, 3))]
QKwsAll == [g \in 1..Len(QGroups) |-> SetToSeq(QSeqs(g, 2))]
QTexts(g) == QTextsAll[g]
QKws(g) == QKwsAll[g]
\* the chunk's section title and section path repeat its text: FilterBySection must match exactly,
\* without any case mapping
QChunk(text, p) == [Base EXCEPT !.id = <<"n" \o ToString(p)>>, !.text = text, !.section = text,
                                !.path = IF text = <<>> THEN <<>> ELSE <<text>>, !.tokens = p % 10,
                                !.list = (p % 2 = 1), !.index = p % 7]
QChunksAll == [g \in 1..Len(QGroups) |-> [p \in 1..Len(QTextsAll[g]) |-> QChunk(QTextsAll[g][p], p)]]
QChunks(g) == QChunksAll[g]
QChain(kw, v) ==
    CASE v = 1 -> <<Pr("search", kw, 0, 0, "", <<>>)>>
      [] v = 2 -> <<Pr("search", kw, 0, 0, "", <<>>), Pr("maxtok", <<>>, 5, 0, "", <<>>)>>
      [] v = 3 -> <<Pr("lists", <<>>, 0, 0, "", <<>>), Pr("search", kw, 0, 0, "", <<>>)>>
      [] v = 4 -> <<Pr("section", kw, 0, 0, "", <<>>)>>
      [] v = 5 -> <<Pr("search", kw, 0, 0, "", <<>>), Pr("search", <<"d7">>, 0, 0, "", <<>>)>>
CasesQ == UNION {{<<"Q", g, n, v>> : n \in 1..Len(QKws(g)), v \in 1..QVariants} : g \in 1..Len(QGroups)}

McExpand(d) ==
    CASE d[1] = "A" -> Case("export", <<ChunkA(d[2], d[3], d[4])>>, d[5], DefCfg(d[5]), 0, <<>>)
      [] d[1] = "B" -> Case("export", ChunksOf(d[2]), FmtCfgSeq[d[3]][1], FmtCfgSeq[d[3]][2], 0, <<>>)
      [] d[1] = "C" -> Case("batch", ChunksOf(d[2]), BatchCfgSeq[d[3]][1], BatchCfgSeq[d[3]][2], d[4], <<>>)
      [] d[1] = "S" -> Case("stream", ChunksOf(d[2]), d[3], [DefCfg(d[3]) EXCEPT !.pretty = FALSE], 1, <<>>)
      [] d[1] = "Q" -> Case("filter", QChunks(d[2]), "none", DefCfg("x"), 0, QChain(QKws(d[2])[d[3]], d[4]))
      [] d[1] = "E" -> Case("export", FChunksOf(d[2]), d[4], DefCfg(d[4]), 0, <<PredSeq[d[3]]>>)
      [] d[1] = "D" -> Case("filter", FChunksOf(d[2]), "none", DefCfg("x"), 0,
                            IF d[4] = 0 THEN <<PredSeq[d[3]]>> ELSE <<PredSeq[d[3]], PredSeq[d[4]]>>)

\* ------------------------------------------- E: a filtered collection is exported
\* <<"E", sel, p, fmt>>: FChunksOf(sel) filtered by <<PredSeq[p]>>, the result exported
CasesE == {<<"E", sel, p, f>> : sel \in {x \in Colls(MaxF + 1, 1..4) : Len(x) >= 2}, p \in 1..Len(PredSeq), f \in {"jsonl", "csv"}}

AllCases == CasesA \cup CasesB \cup CasesCUsed \cup CasesS \cup CasesD \cup CasesE \cup CasesQ
LoopCases == CasesCUsed \cup CasesS
\* the negative control of position independence: JSON exports and loops of small collections
PosCases == {c \in CasesB : FmtCfgSeq[c[3]][1] = "jsonl" /\ FmtCfgSeq[c[3]][2] = DefCfg("jsonl")} \cup CasesS

\* ---------------------------------------------------------------- emission
BatchOut(b) == [number |-> b.number, start |-> b.start, end |-> b.end, ids |-> BIds(b), cols |-> BCols(b), recs |-> BRecs(b)]
Emit == done => PrintT(ToJson(
           [mode |-> X.mode, fmt |-> X.fmt, cfg |-> X.cfg, fields |-> FieldNames(X.cfg),
            size |-> X.size, chunks |-> X.chunks,
            preds |-> X.preds,
            lower |-> IF X.mode = "filter" THEN SetToSeq(LowerPairs) ELSE <<>>,
            alphabet |-> IF X.mode = "filter" THEN SetToSeq(CaseAlphabet) ELSE <<>>,
            batches |-> [n \in 1..Len(emitted) |-> BatchOut(emitted[n])],
            sel |-> [n \in 1..Len(cur) |-> X.chunks[cur[n]].id]]))
=============================================================================
