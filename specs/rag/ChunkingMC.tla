----------------------------- MODULE ChunkingMC -----------------------------
(* Bounded instances of Chunking: alphabets, case emission.                  *)
EXTENDS Chunking, Json

El(k, a, n) == [k |-> k, a |-> a, n |-> n]
NP == [k |-> "NP", a |-> 0, n |-> 0]

\* model-checking alphabet: unit counts kept small (a big paragraph has 3 units so
\* that every way of splitting it is explored)
LettersMC == {El("H", 1, 1), El("H", 2, 1), El("H", 3, 1), El("P", 2, 1), El("P", 3, 3),
              El("L", 2, 2), El("T", 2, 2), El("I", 1, 1), NP}

\* case-emission alphabet (9 letters).  For paragraphs the harness chooses the
\* number of words from the size class and the size configuration under test, so n
\* is only nominal here.
LettersGen == {El("H", 1, 1), El("H", 2, 1), El("H", 3, 1), El("P", 2, 1), El("P", 3, 1),
               El("L", 3, 3), El("T", 4, 4), El("I", 1, 1), NP}

\* wide alphabet for -simulate: all heading levels, all size classes, images
\* without description, single-item lists, a list that is larger than a small
\* maximum chunk size (70 items)
LettersWide == {El("H", lv, 1) : lv \in 1..6} \cup {El("P", c, 1) : c \in 1..12}
               \cup {El("L", 1, 1), El("L", 3, 3), El("L", 5, 5), El("L", 70, 70), El("L", 106, 1), El("T", 2, 2), El("T", 6, 6),
                     El("I", 1, 1), El("I", 0, 0), NP,
                     El("H", 1, 0), El("H", 3, 0), El("P", 2, 0), El("L", 0, 0), El("T", 0, 0)}

\* lists and what can introduce them: one-word and normal paragraphs (rendered as
\* list introductions when a list follows), a small list and one that exceeds a
\* small maximum chunk size
LettersLists == {El("H", 1, 1), El("P", 1, 1), El("P", 2, 1), El("L", 3, 3), El("L", 70, 70), NP}

\* paragraph sizes at the boundaries of the configuration under test.  The size
\* class is symbolic; the harness turns it into an exact byte length from the
\* maximum M and minimum m chunk size of every preset / custom configuration:
\*   5 short (< m)   6 near-full (M - short + 10: a short paragraph no longer fits
\*   behind it)   7 = M   8 = M+1   9 = m-1   10 = m   11 = (M-2)/2 (two of them and
\*   the separator fill a chunk exactly)   12 = (M-2)/2 + 1
\* together with a heading, an oversized paragraph, a list and the page break: every
\* short tail after a nearly full chunk, every short paragraph in front of a list /
\* oversized paragraph / heading / page break is a document of this alphabet.
\* L(106) is a list of size class 6: as many items as nearly fill a chunk.
LettersBound == {El("H", 1, 1), El("P", 3, 1), El("L", 3, 3), El("L", 106, 1), NP}
                \cup {El("P", c, 1) : c \in {5, 6, 7, 8, 9, 10, 11}}

\* documents that PDF layout heuristics can carry: one-line headings of two sizes
\* (18 pt / 14 pt), paragraphs of a - 20 body lines (3 or 6), a list of three
\* bulleted or numbered lines, the page break.  The harness renders them with
\* positioned text and reads them back through tabula.Open(pdf).
LettersPdf == {El("H", 1, 1), El("H", 2, 1), El("P", 23, 1), El("P", 26, 1), El("L", 3, 3), NP}

\* hollow elements of every kind (n = 0): heading / paragraph of white space, list
\* without (or with empty) items, table without rows (or with empty cells), image
\* without description; with the page break also the empty page and the page that
\* holds only hollow elements - at the start, in the middle and at the end of
\* documents and sections
LettersHollow == {El("H", 1, 1), El("H", 2, 1), El("P", 2, 1), El("L", 3, 3),
                  El("H", 2, 0), El("P", 2, 0), El("L", 0, 0), El("T", 0, 0), El("I", 0, 0), NP}
\* white space pending in front of elements that force a flush (a list, a paragraph
\* of exactly / just above the maximum size) on the same and on later pages
LettersHollowFlush == {El("P", 2, 0), El("H", 1, 0), El("L", 3, 3), El("P", 7, 1), El("P", 8, 1), NP}
\* model-checking alphabet for the element walk with hollow elements
LettersHollowMC == {El("H", 1, 1), El("H", 2, 0), El("P", 2, 1), El("L", 0, 0), El("T", 0, 0), El("L", 2, 2), NP}
HollowDropOn == TRUE

\* REPEATED TEXTS across pages (element path): G = a heading given as a Paragraph
\* element that Layout.Headings of its page lists (level a), R = a plain paragraph;
\* elements of text class t = 1 show the SAME text, t = 0 a text of their own: a
\* contents page listing a section title as a plain paragraph before or after the
\* page with the real heading, a running title, the same title at two levels.
\* (Two elements of one class on the same page are left out by the harness: there
\* the layout's heading list cannot tell them apart.)
Rp(k, a, t) == [k |-> k, a |-> a, n |-> 1, t |-> t]
LettersRepeat == {Rp("G", 1, 1), Rp("G", 2, 1), Rp("R", 0, 1), Rp("G", 1, 0), Rp("G", 2, 0), El("P", 2, 1), NP}

\* a document the layout-based rag.Chunker can be given without loss: only
\* headings, paragraphs and lists, and on every page headings first, then
\* paragraphs, then lists (model.PageLayout keeps one list per kind)
KindRank(k) == CASE k = "H" -> 1 [] k = "P" -> 2 [] k = "L" -> 3 [] OTHER -> 9
LNorm == /\ \A i \in 1..Len(doc) : doc[i].k \in {"H", "P", "L"}
         /\ \A i \in 1..Len(doc) - 1 :
               doc[i].pg = doc[i + 1].pg => KindRank(doc[i].k) <= KindRank(doc[i + 1].k)

Case == [doc |-> doc, pages |-> pages, lnorm |-> LNorm,
         els |-> [i \in 1..Len(doc) |-> [path  |-> Enclosing(doc, i, 7),
                                         mpath |-> Enclosing(doc, i, 4),
                                         \* the chain when only headings of level <= m open a
                                         \* section (ChunkerConfig.MinHeadingLevel = m), m = 1..6
                                         mps   |-> [m \in 1..6 |-> Enclosing(doc, i, m + 1)]]]]

\* ---- heading trees: every heading opens a new page and is followed by a one-word
\* paragraph (so that the layout-based chunker, whose input lists headings before
\* paragraphs per page, sees each paragraph under its heading).  A heading may go at
\* most TreeStep levels deeper than the previous one, any number of levels up:
\* sibling sections at every depth 1..6 with few elements.  TreeBare adds the
\* variant without the paragraph.
TreeStep == 1
TreeBare == FALSE
LastLevel == LET hs == {i \in 1..Len(doc) : doc[i].k = "H"} IN IF hs = {} THEN 0 ELSE doc[SetMax(hs)].a
TreeBuild(lv, withP) ==
    /\ phase = "build" /\ Len(doc) < MaxLen /\ lv <= LastLevel + TreeStep
    /\ LET pg == IF doc = <<>> THEN pages[1] ELSE PageNum(pstep, Len(pages) + 1)
           h  == [k |-> "H", a |-> lv, pg |-> pg, n |-> 1]
           pp == [k |-> "P", a |-> 1, pg |-> pg, n |-> 1]
       IN /\ doc' = IF withP THEN doc \o <<h, pp>> ELSE Append(doc, h)
          /\ pages' = IF doc = <<>> THEN pages ELSE Append(pages, pg)
    /\ UNCHANGED <<pstep, minor, phase, consumed, nchunks, ids, emitted, implvars>>
TreeNext == \E lv \in 1..6 : \E withP \in (IF TreeBare THEN BOOLEAN ELSE {TRUE}) : TreeBuild(lv, withP)
TreeSpec == Init /\ [][TreeNext]_vars
TreeStep2 == 2
TreeBareOn == TRUE

\* every document (= every build state) is one case
EmitCase == PrintT(ToJson(Case))
=============================================================================
