------------------------------- MODULE Overlap -------------------------------
(***************************************************************************)
(* C13 - overlap text added to a chunk is a suffix of the previous chunk's *)
(* OWN content, valid UTF-8, and within the configured overlap bounds.     *)
(*                                                                         *)
(* Abstract level (model checking): a chunk's own content is a sequence of *)
(* distinct tokens; ApplyOverlap walks the chunks in order and gives chunk *)
(* i a prefix taken from chunk i-1.                                        *)
(*                                                                         *)
(* CONTRACT  PrefixOK: prefix[i] is empty, or it is a suffix of own[i-1]   *)
(*           and MinOv <= Len(prefix[i]) <= MaxOv.                         *)
(*                                                                         *)
(* IMPLEMENTATION-SHAPED switches (rag.ApplyOverlapToChunks /              *)
(* OverlapGenerator.GenerateOverlap / truncateOverlap of the pinned tree):  *)
(*   Source = "own"  : the overlap is cut from the previous chunk's own     *)
(*                     content                                             *)
(*          = "text" : from its Text, which already starts with the prefix  *)
(*                     that chunk was given                                 *)
(*   Trunc  = "tail" : an overlap longer than MaxOv keeps its end           *)
(*          = "head" : keeps its beginning (truncateOverlap)                *)
(*   Floor  = "drop" : an overlap shorter than MinOv is not used            *)
(*          = "keep" : it is used anyway                                    *)
(***************************************************************************)
EXTENDS Integers, Sequences, FiniteSets, TLC, SequencesExt

CONSTANTS
    MaxChunks, MaxTokens,   \* chunks per document, tokens per chunk (MC)
    Sizes,                  \* overlap sizes requested
    MinOv, MaxOv,
    Source, Trunc, Floor

VARIABLES
    own,      \* own[i]: the chunk's own tokens
    size,     \* requested overlap size
    prefix,   \* prefix[i]: overlap given to chunk i (<<>> = none)
    i         \* next chunk to receive its overlap

vars == <<own, size, prefix, i>>

LastN(s, n)  == IF n >= Len(s) THEN s ELSE SubSeq(s, Len(s) - n + 1, Len(s))
FirstN(s, n) == IF n >= Len(s) THEN s ELSE SubSeq(s, 1, n)
EndsWith(p, s) == Len(p) <= Len(s) /\ LastN(s, Len(p)) = p

\* chunk c holds the tokens c*100+1 .. c*100+n
ChunkOf(c, n) == [j \in 1..n |-> c * 100 + j]

Init ==
    /\ \E k \in 1..MaxChunks : \E lens \in [1..k -> 1..MaxTokens] :
          own = [c \in 1..k |-> ChunkOf(c, lens[c])]
    /\ size \in Sizes
    /\ prefix = [c \in 1..Len(own) |-> <<>>]
    /\ i = 2

\* what the previous chunk looks like to the overlap generator
SourceText(c) == IF Source = "own" THEN own[c] ELSE prefix[c] \o own[c]

Generate(src) ==
    LET ov  == LastN(src, size)
        ov2 == IF Len(ov) > MaxOv
               THEN (IF Trunc = "tail" THEN LastN(ov, MaxOv) ELSE FirstN(ov, MaxOv))
               ELSE ov
    IN IF Floor = "drop" /\ Len(ov2) < MinOv THEN <<>> ELSE ov2

Apply ==
    /\ i <= Len(own)
    /\ prefix' = [prefix EXCEPT ![i] = Generate(SourceText(i - 1))]
    /\ i' = i + 1
    /\ UNCHANGED <<own, size>>

Done == i > Len(own) /\ UNCHANGED vars
Next == Apply \/ Done
Spec == Init /\ [][Next]_vars

PrefixOK ==
    \A c \in 2..Len(own) :
        prefix[c] = <<>> \/
            /\ EndsWith(prefix[c], own[c - 1])
            /\ Len(prefix[c]) >= MinOv /\ Len(prefix[c]) <= MaxOv

\* ---- the same contract on a recorded observation (used by OverlapTrace):
\* pbytes/pchars = size of the overlap text, matched = it equals the end of the
\* previous chunk's own content once white space is ignored, start = where that
\* end begins in the own content (must be a character boundary), valid = UTF-8
ObsClause(empty, valid, matched, startOnBoundary, pbytes, pchars, mn, mx) ==
    IF empty THEN ""
    ELSE IF ~valid THEN "utf8"
    ELSE IF ~matched THEN "suffix"
    ELSE IF ~startOnBoundary THEN "boundary"
    ELSE IF pchars > mx THEN "max-overlap"
    ELSE IF pbytes < mn THEN "min-overlap"
    ELSE ""
=============================================================================
