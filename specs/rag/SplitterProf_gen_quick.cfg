SPECIFICATION Spec
CONSTANTS
  MaxSegs = 2
  WordLens = {2, 9, 16, 47, 80}
  Widths = {1, 3}
  Seps = {"sp", "nl", "dot", "dotfar", "dotcap", "abbr", "none"}
  UnitLimits <- ULs
  Space <- ProfSpace
CONSTRAINT EmitCase
CHECK_DEADLOCK FALSE
