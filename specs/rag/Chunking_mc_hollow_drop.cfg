SPECIFICATION Spec
CONSTANTS
  Letters <- LettersHollowMC
  MaxLen = 3
  PSteps = {1}
  PathAlg = "stack"
  Alias = "copy"
  Walker = "impl"
  HollowDrop <- HollowDropOn
INVARIANTS IndexOrder
CHECK_DEADLOCK TRUE
