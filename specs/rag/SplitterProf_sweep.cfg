SPECIFICATION Spec
CONSTANTS
  MaxSegs = 0
  WordLens = {}
  Widths = {}
  Seps = {}
  UnitLimits <- SweepULs
  Space <- SweepSpace
CONSTRAINT EmitSweep
CHECK_DEADLOCK FALSE
