------------------------------- MODULE Export -------------------------------
(***************************************************************************)
(* Exports of a chunk collection (tabula rag): what a standard parser of   *)
(* each format must read back.                                             *)
(*                                                                         *)
(* A collection is a sequence of abstract chunks.  Text-valued fields are  *)
(* sequences of tokens (the harness renders a token to characters: COMMA,  *)
(* TAB, QUOTE, CR, LF, NUL, EMOJI, JSONISH = {"a":1}, SP, words).          *)
(*                                                                         *)
(* Records(fmt, cfg, chunks) is the sequence of logical records an export  *)
(* parses back to: one per chunk, in order; each record is                 *)
(*    [top  |-> field name -> value,     the format's own top-level fields *)
(*     meta |-> key -> value]            the metadata map / meta_ columns  *)
(* with tagged values  [t |-> "s", v |-> Text]      string                 *)
(*                     [t |-> "i", v |-> Int]       integer                *)
(*                     [t |-> "b", v |-> BOOLEAN]   flag                   *)
(*                     [t |-> "e", v |-> STRING]    literal (enum, class)  *)
(*                     [t |-> "l", v |-> Seq(Text), simple |-> BOOLEAN]    *)
(*                     [t |-> "n", v |-> Seq(Int)]  number vector          *)
(* "The same value" is read up to omission of zero values: a field that is *)
(* missing in the parsed output stands for "", 0, FALSE, <<>> (omitempty   *)
(* and sparse columns are value-preserving).  A list in a delimiter-       *)
(* separated cell has no prescribed encoding: it is bound only when        *)
(* `simple` (no element contains COMMA) and then to the writer's own       *)
(* [a,b] convention.                                                       *)
(*                                                                         *)
(* The exporters are one loop machine: a plain export is a single pass     *)
(* over all chunks, the batch exporter emits slices of `size` chunks, the  *)
(* stream exporter one chunk per step; invariant: the concatenation of the *)
(* emitted batches is the prefix of the collection consumed so far.        *)
(* Filters are pure selections applied one predicate at a time; a chain is *)
(* the conjunction of its predicates, in any order.                        *)
(***************************************************************************)
EXTENDS Integers, Sequences, FiniteSets, TLC, SequencesExt

CONSTANTS Cases,     \* the cases explored: small descriptors (see ExportMC)
          Expand(_), \* descriptor -> [mode, chunks, fmt, cfg, size, preds]
          IndexFrom, \* "chunk": an exported index is the chunk's own ChunkIndex (the contract)
                     \* "position": an implementation-shaped variant that takes a chunk whose
                     \*             index is 0 for "unnumbered" and writes its position in the
                     \*             exported slice instead; kept only to be refuted by TLC
          Slice      \* "halfopen": batch = chunks[i, i+size)   (the contract)
                     \* "closed":   an implementation-shaped variant that treats the end
                     \*             index as inclusive and so drops the boundary row;
                     \*             kept only to be refuted by TLC

\* ----------------------------------------------------------------- values
S(x) == [t |-> "s", v |-> x]
I(x) == [t |-> "i", v |-> x]
B(x) == [t |-> "b", v |-> x]
E(x) == [t |-> "e", v |-> x]
N(x) == [t |-> "n", v |-> x]
SimpleList(l) == \A i \in 1..Len(l) : \A j \in 1..Len(l[i]) : l[i][j] # "COMMA"
L(x) == [t |-> "l", v |-> x, simple |-> SimpleList(x)]

LevelName(n) == CASE n = 0 -> "document" [] n = 1 -> "section" [] n = 2 -> "paragraph"
                  [] n = 3 -> "sentence" [] OTHER -> "unknown"

\* every metadata key of a chunk with its value (rag.ChunkMetadata)
MetaKeys == {"document_title", "section_path", "section_title", "heading_level", "page_start",
             "page_end", "chunk_index", "total_chunks", "level", "parent_id", "child_ids",
             "element_types", "has_table", "has_list", "has_image", "char_count", "word_count",
             "estimated_tokens"}

MetaVal(c, k) ==
    CASE k = "document_title"   -> S(c.title)
      [] k = "section_path"     -> L(c.path)
      [] k = "section_title"    -> S(c.section)
      [] k = "heading_level"    -> I(c.hlevel)
      [] k = "page_start"       -> I(c.pstart)
      [] k = "page_end"         -> I(c.pend)
      [] k = "chunk_index"      -> I(c.index)
      [] k = "total_chunks"     -> I(c.total)
      [] k = "level"            -> E(LevelName(c.level))
      [] k = "parent_id"        -> S(c.parent)
      [] k = "child_ids"        -> L(c.children)
      [] k = "element_types"    -> L([i \in 1..Len(c.etypes) |-> <<c.etypes[i]>>])
      [] k = "has_table"        -> B(c.table)
      [] k = "has_list"         -> B(c.list)
      [] k = "has_image"        -> B(c.image)
      [] k = "char_count"       -> I(c.chars)
      [] k = "word_count"       -> I(c.words)
      [] k = "estimated_tokens" -> I(c.tokens)

\* ExportConfig.MetadataFields: the include list ("all" = nil = every key); a name that
\* is not a metadata key selects nothing
FieldNames(cfg) ==
    CASE cfg.fields = "all"  -> <<>>
      [] cfg.fields = "some" -> <<"section_path", "level", "heading_level", "page_start", "word_count", "no_such_key">>
      [] cfg.fields = "vdb"  -> <<"document_title", "page_start", "chunk_index", "section_title",
                                  "section_path", "element_types">>
\* the metadata keys an export configuration lets through
FieldSet(cfg) == IF cfg.fields = "all" THEN MetaKeys
                 ELSE {FieldNames(cfg)[n] : n \in 1..Len(FieldNames(cfg))} \cap MetaKeys

RestrictTo(f, D) == [k \in D |-> f[k]]

\* ------------------------------------------------- JSON and JSON Lines
JsonTop(c, cfg) ==
    LET base == [k \in {"id", "document_title", "page_start", "page_end", "chunk_index",
                        "section_title", "section_path", "has_table", "has_list", "has_image"} |->
                   CASE k = "id" -> S(c.id)
                     [] k = "section_path" -> L(c.path)
                     [] OTHER -> MetaVal(c, k)]
    IN IF cfg.text THEN [k \in DOMAIN base \cup {"text"} |-> IF k = "text" THEN S(c.text) ELSE base[k]]
                   ELSE base

JsonMeta(c, cfg) == IF cfg.meta THEN [k \in FieldSet(cfg) |-> MetaVal(c, k)] ELSE [k \in {} |-> 0]

\* ------------------------------------------------- CSV and TSV
\* metadata keys that are not already standard columns, in column (= sorted) order
MetaColKeys == <<"char_count", "child_ids", "element_types", "estimated_tokens", "heading_level",
                 "level", "parent_id", "section_path", "total_chunks", "word_count">>
MetaColKeySet == {MetaColKeys[i] : i \in 1..Len(MetaColKeys)}

\* a sparse key is written only by chunks where it is non-zero
Carries(c, k) ==
    CASE k = "level" -> TRUE
      [] k \in {"child_ids", "element_types", "section_path"} -> MetaVal(c, k).v # <<>>
      [] k = "parent_id" -> c.parent # <<>>
      [] OTHER -> MetaVal(c, k).v > 0

StdCols(cfg) == <<cfg.idcol>> \o (IF cfg.text THEN <<"text">> ELSE <<>>)
                \o <<"chunk_index", "document_title", "page_start", "page_end", "section_title",
                     "has_table", "has_list", "has_image">>

\* the fixed, sorted column set of one export (one batch): standard columns, then a
\* meta_ column for every admitted key some chunk of the batch carries
Cols(cfg, chunks) ==
    StdCols(cfg) \o
    [i \in 1..Len(SelectSeq(MetaColKeys, LAMBDA k : k \in FieldSet(cfg) /\ \E j \in 1..Len(chunks) : Carries(chunks[j], k))) |->
        "meta_" \o SelectSeq(MetaColKeys, LAMBDA k : k \in FieldSet(cfg) /\ \E j \in 1..Len(chunks) : Carries(chunks[j], k))[i]]

CsvTop(c, cfg) ==
    [k \in {StdCols(cfg)[i] : i \in 1..Len(StdCols(cfg))} |->
        CASE k = cfg.idcol -> S(c.id)
          [] k = "text"    -> S(c.text)
          [] OTHER         -> MetaVal(c, k)]

CsvMeta(c, cfg) ==
    IF cfg.meta THEN [k \in FieldSet(cfg) \cap MetaColKeySet |-> MetaVal(c, k)] ELSE [k \in {} |-> 0]

\* ------------------------------------------------- vector-database records
VdbTop(c)  == [id |-> S(c.id), text |-> S(c.text)]
VdbMeta(c) == RestrictTo([k \in MetaKeys |-> MetaVal(c, k)],
                       {"document_title", "page_start", "chunk_index", "section_title", "section_path", "element_types"})

PineTop(c)  == [id |-> S(c.id), values |-> N(c.emb)]
PineMeta(c) == [text |-> S(c.text), document_title |-> S(c.title), page_start |-> I(c.pstart),
                section_title |-> S(c.section)]

ChromaTop(c, cfg) == IF cfg.emb THEN [id |-> S(c.id), document |-> S(c.text), embedding |-> N(c.emb)]
                                ELSE [id |-> S(c.id), document |-> S(c.text)]
ChromaMeta(c) == [document_title |-> S(c.title), page_start |-> I(c.pstart), section_title |-> S(c.section),
                  chunk_index |-> I(c.index)]

WeavTop(c, cfg) == IF cfg.emb THEN [id |-> S(c.id), class |-> E("Chunk"), vector |-> N(c.emb)]
                              ELSE [id |-> S(c.id), class |-> E("Chunk")]
WeavMeta(c) == [content |-> S(c.text), documentTitle |-> S(c.title), pageStart |-> I(c.pstart),
                sectionTitle |-> S(c.section), chunkIndex |-> I(c.index)]

\* ------------------------------------------------- the expected records
Rec(fmt, cfg, c) ==
    CASE fmt \in {"jsonl", "json"} -> [top |-> JsonTop(c, cfg), meta |-> JsonMeta(c, cfg)]
      [] fmt \in {"csv", "tsv"}    -> [top |-> CsvTop(c, cfg), meta |-> CsvMeta(c, cfg)]
      [] fmt = "vdb"               -> [top |-> VdbTop(c), meta |-> VdbMeta(c)]
      [] fmt = "pinecone"          -> [top |-> PineTop(c), meta |-> PineMeta(c)]
      [] fmt = "chroma"            -> [top |-> ChromaTop(c, cfg), meta |-> ChromaMeta(c)]
      [] fmt = "weaviate"          -> [top |-> WeavTop(c, cfg), meta |-> WeavMeta(c)]

\* the record at (0-based) position pos of the exported slice
RecAt(fmt, cfg, c, pos) ==
    LET r == Rec(fmt, cfg, c) IN
    IF IndexFrom = "position" /\ c.index = 0 /\ "chunk_index" \in DOMAIN r.top
    THEN [r EXCEPT !.top = [r.top EXCEPT !["chunk_index"] = I(pos)]]
    ELSE r

Records(fmt, cfg, chunks) == [i \in 1..Len(chunks) |-> RecAt(fmt, cfg, chunks[i], i - 1)]

IsDsv(fmt) == fmt \in {"csv", "tsv"}
ColsOf(fmt, cfg, chunks) == IF IsDsv(fmt) THEN Cols(cfg, chunks) ELSE <<>>

\* ------------------------------------------------- filter predicates
\* The documented meaning of every ChunkCollection filter (rag/metadata.go), one line each:
\*   Filter(f)                  f(chunk)                                   ("index": a predicate on ChunkIndex)
\*   FilterBySection(s)         SectionTitle = s or s is an element of SectionPath (exact, case-sensitive)
\*   FilterByPage(n)            PageStart <= n <= PageEnd
\*   FilterByPageRange(a, b)    the chunk's pages overlap a..b:  PageEnd >= a and PageStart <= b
\*   FilterByElementType(t)     some element type equals t, ASCII letters compared without case
\*   FilterWithTables/Lists/Images   the chunk's flag
\*   FilterByMinTokens(n) / FilterByMaxTokens(n)   EstimatedTokens >= n / <= n
\*   Search(k)                  "containing a keyword (case-insensitive)": the lower-cased text contains
\*                              the lower-cased keyword as a contiguous run of characters; the empty
\*                              keyword is contained in every text
\* Texts are sequences of tokens; a token of the case alphabet below is one character.  TLC cannot
\* lower-case Unicode, so the case map is this explicit finite table (Unicode simple lower-case
\* mapping, UnicodeData.txt field 13): character -> its lower case; every token not listed is its own
\* lower case.  The pairs are of different kinds on purpose:
\*   same length       A/a, K/k, S/s (ASCII), E1/e1 = U+00C9/U+00E9 (Latin-1), SG/sg = U+03A3/U+03C3
\*   length-changing   I1 = U+0130 (2 bytes) -> i,  KS = U+212A KELVIN SIGN (3 bytes) -> k,
\*                     AS = U+023A (2 bytes) -> as = U+2C65 (3 bytes),  SS = U+1E9E (3 bytes) -> ss = U+00DF
\*   lower case of nothing: sf = U+03C2 final sigma and ls = U+017F long s are lower-case letters that
\*                     case FOLDING identifies with sg / s, but lower-casing keeps apart
LowerPairs == { <<"A", "a">>, <<"K", "k">>, <<"S", "s">>, <<"E1", "e1">>, <<"SG", "sg">>,
                <<"I1", "i">>, <<"KS", "k">>, <<"AS", "as">>, <<"SS", "ss">>,
                <<"W1", "w1">>, <<"W2", "w2">>, <<"W3", "w3">> }      \* W*: the mixed-case words
LowerTok(t) == IF \E q \in LowerPairs : q[1] = t THEN (CHOOSE q \in LowerPairs : q[1] = t)[2] ELSE t
Lower(x) == [i \in 1..Len(x) |-> LowerTok(x[i])]
\* the characters of the case alphabet (for generators; digits, emoji and NUL have no case)
CaseAlphabet == {"a", "A", "k", "K", "s", "S", "e1", "E1", "sg", "SG", "sf", "I1", "i", "KS", "AS", "as",
                 "SS", "ss", "ls", "d7", "EMOJI", "NUL"}

\* element types are ASCII identifiers
FoldTok(t) == CASE t = "LIST" -> "list" [] t = "Table" -> "table" [] OTHER -> t

HasSub(hay, needle) ==
    \E i \in 0..(Len(hay) - Len(needle)) : SubSeq(hay, i + 1, i + Len(needle)) = needle

\* p = [k |-> kind, ...]
Sat(p, c) ==
    CASE p.k = "section"   -> c.section = p.s \/ \E i \in 1..Len(c.path) : c.path[i] = p.s
      [] p.k = "page"      -> c.pstart <= p.a /\ p.a <= c.pend
      [] p.k = "pagerange" -> c.pend >= p.a /\ c.pstart <= p.b
      [] p.k = "etype"     -> \E i \in 1..Len(c.etypes) : FoldTok(c.etypes[i]) = FoldTok(p.e)
      [] p.k = "tables"    -> c.table
      [] p.k = "lists"     -> c.list
      [] p.k = "images"    -> c.image
      [] p.k = "mintok"    -> c.tokens >= p.a
      [] p.k = "maxtok"    -> c.tokens <= p.a
      [] p.k = "search"    -> HasSub(Lower(c.text), Lower(p.s))
      [] p.k = "index"     -> \E n \in 1..Len(p.set) : p.set[n] = c.index    \* generic Filter(func)

SatAll(ps, c) == \A i \in 1..Len(ps) : Sat(ps[i], c)
Sel(chunks, ps) == SelectSeq(chunks, LAMBDA c : SatAll(ps, c))
Ids(chunks) == [i \in 1..Len(chunks) |-> chunks[i].id]

\* ------------------------------------------------- the machine
\* a case expands to [mode |-> "export" | "batch" | "stream" | "filter", chunks, fmt, cfg, size, preds]
\* (preds: the filter chain; for the exporter modes it is applied first and its result exported)
VARIABLES cas,       \* the case (a small descriptor, see Expand)
          i,         \* chunks consumed by the exporter loop
          emitted,   \* batches so far: [number, start, end, lo, hi]; the slice actually
                     \* written is chunks[lo+1 .. hi]
          cur,       \* filter: positions of the chunks selected after k predicates
          k,
          done

evars == <<cas, i, emitted, cur, k, done>>

X == Expand(cas)

\* the collection handed to an exporter: the source chunks, or - when the case carries a
\* predicate chain - what ChunkCollection.Filter* selected from them.  It is an arbitrary
\* sequence of chunks: merged from several documents, reordered, filtered, with repeated
\* or missing index values; nothing a chunk says about itself depends on where it stands.
Coll == IF X.mode = "filter" THEN X.chunks ELSE Sel(X.chunks, X.preds)

NChunks == Len(Coll)

Init == /\ cas \in Cases
        /\ i = 0 /\ emitted = <<>> /\ cur = [p \in 1..Len(Expand(cas).chunks) |-> p] /\ k = 0 /\ done = FALSE

\* one pass over chunks[from+1 .. to]
BatchOf(number, from, to) ==
    [number |-> number, start |-> from, end |-> to, lo |-> from,
     hi |-> IF Slice = "closed" /\ to < NChunks THEN to - 1 ELSE to]

\* what that pass writes
BPart(b) == SubSeq(Coll, b.lo + 1, b.hi)
BIds(b)  == [n \in 1..(b.hi - b.lo) |-> Coll[b.lo + n].id]
BCols(b) == ColsOf(X.fmt, X.cfg, BPart(b))
BRecs(b) == Records(X.fmt, X.cfg, BPart(b))

\* Exporter.Export / ExportToString / ChunkCollection.ToJSON ... : one pass, also for
\* an empty collection
ExportAll ==
    /\ X.mode = "export" /\ ~done
    /\ emitted' = <<BatchOf(0, 0, NChunks)>>
    /\ i' = NChunks /\ done' = TRUE
    /\ UNCHANGED <<cas, cur, k>>

\* BatchExporter.Export: one callback per slice
EmitBatch ==
    /\ X.mode = "batch" /\ ~done /\ i < NChunks
    /\ LET to == IF i + X.size > NChunks THEN NChunks ELSE i + X.size
       IN /\ emitted' = Append(emitted, BatchOf(i \div X.size, i, to))
          /\ i' = to
    /\ UNCHANGED <<cas, cur, k, done>>

\* StreamExporter.WriteChunk: one record per call
WriteChunk ==
    /\ X.mode = "stream" /\ ~done /\ i < NChunks
    /\ emitted' = Append(emitted, BatchOf(i, i, i + 1))
    /\ i' = i + 1
    /\ UNCHANGED <<cas, cur, k, done>>

LoopEnd ==
    /\ X.mode \in {"batch", "stream"} /\ ~done /\ i = NChunks
    /\ done' = TRUE
    /\ UNCHANGED <<cas, i, emitted, cur, k>>

\* ChunkCollection.Filter*/Search: one predicate of the chain
ApplyFilter ==
    /\ X.mode = "filter" /\ ~done /\ k < Len(X.preds)
    /\ cur' = SelectSeq(cur, LAMBDA p : Sat(X.preds[k + 1], X.chunks[p]))
    /\ k' = k + 1
    /\ UNCHANGED <<cas, i, emitted, done>>

FilterEnd ==
    /\ X.mode = "filter" /\ ~done /\ k = Len(X.preds)
    /\ done' = TRUE
    /\ UNCHANGED <<cas, i, emitted, cur, k>>

Next == ExportAll \/ EmitBatch \/ WriteChunk \/ LoopEnd \/ ApplyFilter \/ FilterEnd

Spec == Init /\ [][Next]_evars /\ WF_evars(Next)

\* ------------------------------------------------- properties
Flat(bs) == FoldLeft(LAMBDA a, b : a \o BIds(b), <<>>, bs)

TypeOK == /\ i \in 0..NChunks /\ k \in 0..Len(X.preds) /\ done \in BOOLEAN

\* batching / streaming keep every chunk exactly once, in order
Conservation == Flat(emitted) = Ids(SubSeq(Coll, 1, i))
Complete     == (done /\ X.mode # "filter") => Flat(emitted) = Ids(Coll)

\* position independence: the record written for a chunk is a function of that chunk (and
\* of the format and configuration) alone - not of its position in the collection, in the
\* batch or in the stream, nor of its neighbours; hence every exported scalar equals the
\* chunk's own field, and exporting a permutation gives the permuted records
PositionIndependent ==
    \A b \in 1..Len(emitted) : \A r \in 1..Len(BRecs(emitted[b])) :
        /\ BRecs(emitted[b])[r] = Rec(X.fmt, X.cfg, Coll[emitted[b].lo + r])
        /\ BRecs(emitted[b])[r] = Records(X.fmt, X.cfg, <<Coll[emitted[b].lo + r]>>)[1]
OrderEquivariant ==
    (done /\ X.mode # "filter") => Records(X.fmt, X.cfg, Reverse(Coll)) = Reverse(Records(X.fmt, X.cfg, Coll))
\* the index a record carries is the chunk's own ChunkIndex wherever the format has one
OwnIndex ==
    \A b \in 1..Len(emitted) : \A r \in 1..Len(BRecs(emitted[b])) :
        LET rec == BRecs(emitted[b])[r]
            c == Coll[emitted[b].lo + r] IN
        /\ ("chunk_index" \in DOMAIN rec.top => rec.top["chunk_index"] = I(c.index))
        /\ ("chunk_index" \in DOMAIN rec.meta => rec.meta["chunk_index"] = I(c.index))
        /\ ("chunkIndex" \in DOMAIN rec.meta => rec.meta["chunkIndex"] = I(c.index))

\* one record per chunk of the batch, and the batch bookkeeping is consistent
BatchShape == \A b \in 1..Len(emitted) :
                 /\ Len(BRecs(emitted[b])) = emitted[b].end - emitted[b].start
                 /\ (X.mode = "batch" => emitted[b].number = b - 1 /\ emitted[b].start = (b - 1) * X.size)

\* every record of every format carries the id of its chunk
IdCarried == \A b \in 1..Len(emitted) : \A r \in 1..Len(BRecs(emitted[b])) :
                \E f \in DOMAIN BRecs(emitted[b])[r].top : BRecs(emitted[b])[r].top[f] = S(BIds(emitted[b])[r])

\* delimiter-separated exports: standard columns first, meta columns sorted, no duplicates
ColsOK == \A b \in 1..Len(emitted) :
             LET cs == BCols(emitted[b]) IN
             IsDsv(X.fmt) => /\ \A x, y \in 1..Len(cs) : x # y => cs[x] # cs[y]
                             /\ SubSeq(cs, 1, Len(StdCols(X.cfg))) = StdCols(X.cfg)

\* filters are pure selections: a chain is the conjunction of its predicates, the result
\* is a subsequence in the original order, the order of the chain is immaterial
SelPos(chunks, ps) == SelectSeq([p \in 1..Len(chunks) |-> p], LAMBDA p : SatAll(ps, chunks[p]))
FilterIsSelection == X.mode = "filter" =>
                        /\ cur = SelPos(X.chunks, SubSeq(X.preds, 1, k))
                        /\ \A x, y \in 1..Len(cur) : x < y => cur[x] < cur[y]
ChainCommutes == (X.mode = "filter" /\ done) => cur = SelPos(X.chunks, Reverse(X.preds))

Terminates == <>done
=============================================================================
