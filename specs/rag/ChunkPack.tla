------------------------------ MODULE ChunkPack ------------------------------
(***************************************************************************)
(* C12 - implementation-shaped model of the paragraph packing of the       *)
(* layout-based chunker (rag.Chunker.splitSectionByParagraphs): the        *)
(* content elements of one oversized section, each with a byte size, are   *)
(* accumulated into chunks of at most Max bytes; a pending piece shorter   *)
(* than Min is merged into the previous chunk when it fits there.          *)
(*                                                                         *)
(* Elements are [s |-> bytes, atomic |-> BOOLEAN] (atomic: a list / table, *)
(* emitted on its own after a flush).  One action per decision of the loop *)
(* (flush, emit atomic, emit oversized, add) and a final flush.            *)
(*                                                                         *)
(* CONTRACT (the queue discipline of Chunking.tla on element granularity): *)
(* the elements of the chunks, followed by the pending ones, are always    *)
(* exactly 1 .. i-1 in order; when the loop is done nothing is pending.    *)
(*                                                                         *)
(* Orphan = "emit": a short pending piece that does not fit into the       *)
(*                  previous chunk becomes a chunk of its own (the code)   *)
(*        = "drop": it is reset without being emitted - the class of       *)
(*                  change TLC must refute                                 *)
(***************************************************************************)
EXTENDS Integers, Sequences, FiniteSets, TLC

CONSTANTS Max, Min, Sizes, MaxLen, Orphan

VARIABLES
    els,      \* the section content
    i,        \* next element
    cur,      \* pending: [size, items]
    chunks,   \* sequence of [size, items]
    pc        \* "loop" | "done"

vars == <<els, i, cur, chunks, pc>>

Empty == [size |-> 0, items |-> <<>>]
Letters == [s : Sizes, atomic : BOOLEAN]

Init ==
    /\ els \in UNION {[1..k -> Letters] : k \in 0..MaxLen}
    /\ i = 1 /\ cur = Empty /\ chunks = <<>> /\ pc = "loop"

\* flushChunk: what becomes of the pending piece
Flushed ==
    IF cur.size = 0 THEN chunks
    ELSE IF cur.size < Min /\ chunks # <<>>
         THEN LET prev == chunks[Len(chunks)] IN
              IF prev.size + cur.size + 2 <= Max
              THEN [chunks EXCEPT ![Len(chunks)] = [size |-> prev.size + cur.size + 2, items |-> prev.items \o cur.items]]
              ELSE IF Orphan = "drop" THEN chunks
                   ELSE Append(chunks, cur)
         ELSE Append(chunks, cur)

Added(e) == [size |-> cur.size + e.s + (IF cur.size > 0 THEN 2 ELSE 0), items |-> Append(cur.items, i)]

Step ==
    /\ pc = "loop"
    /\ IF i > Len(els)
       THEN /\ chunks' = Flushed /\ cur' = Empty /\ pc' = "done" /\ UNCHANGED i
       ELSE LET e == els[i] IN
            IF (e.atomic \/ e.s > Max) /\ cur.size > 0
            THEN \* flush what precedes an atomic block / an oversized element
                 /\ chunks' = Flushed /\ cur' = Empty /\ UNCHANGED <<i, pc>>
            ELSE IF e.atomic \/ e.s > Max
            THEN \* the element leaves as chunk(s) of its own (sentence pieces are not told apart here)
                 /\ chunks' = Append(chunks, [size |-> e.s, items |-> <<i>>]) /\ i' = i + 1 /\ UNCHANGED <<cur, pc>>
            ELSE IF cur.size > 0 /\ Added(e).size > Max
            THEN /\ chunks' = Flushed /\ cur' = Empty /\ UNCHANGED <<i, pc>>
            ELSE /\ cur' = Added(e) /\ i' = i + 1 /\ UNCHANGED <<chunks, pc>>
    /\ UNCHANGED els

Done == pc = "done" /\ UNCHANGED vars
Next == Step \/ Done
Spec == Init /\ [][Next]_vars /\ WF_vars(Step)

Flat == LET RECURSIVE cat(_)
            cat(k) == IF k = 0 THEN <<>> ELSE cat(k - 1) \o chunks[k].items
        IN cat(Len(chunks)) \o cur.items

\* nothing lost, repeated or reordered - at every step
InOrderOnce == Flat = [k \in 1..(i - 1) |-> k]
\* a chunk built by accumulation never exceeds Max (single oversized / atomic elements aside)
Fits == \A k \in 1..Len(chunks) : Len(chunks[k].items) > 1 => chunks[k].size <= Max
Termination == <>(pc = "done")
=============================================================================
