---------------------------- MODULE OverlapReuse ----------------------------
(***************************************************************************)
(* C13 - reuse and side effects of the overlap code.                       *)
(*                                                                         *)
(* (a) ONE overlap generator asked for the overlap of several texts: every *)
(*     answer must be what a fresh generator gives (Purity).               *)
(*       Memo = "none": nothing is retained between calls                  *)
(*            = "len" : the last answer is kept and returned again for a   *)
(*                      text of the same length - refuted                  *)
(* (b) ApplyOverlapToChunks(chunks) works on the chunks it is given.  What *)
(*     it may change is fixed by its contract: the text of chunk i >= 2    *)
(*     gets the overlap of chunk i-1's text AS GIVEN in front of it (and   *)
(*     the three size counters follow); nothing else changes, chunk 1 is   *)
(*     untouched, every text still ends with the text that was given.      *)
(*     Applied a second time the same holds relative to what the second    *)
(*     call was given.                                                     *)
(*       Touch = "contract" | "first" (chunk 1 gets a prefix too)          *)
(*             | "meta" (another metadata field is rewritten) - refuted    *)
(***************************************************************************)
EXTENDS Integers, Sequences, FiniteSets, TLC

CONSTANTS Texts, Size, MaxChunks, Memo, Touch

VARIABLES
    asked,    \* history of generator calls: <<text, answer>>
    memo,     \* what the generator retained
    given,    \* chunks as given to the current ApplyOverlapToChunks call
    now,      \* chunks as they are
    pass      \* number of ApplyOverlapToChunks calls so far

vars == <<asked, memo, given, now, pass>>

TextsMC == {<<1, 2>>, <<3, 4>>, <<5, 6, 7>>, <<8>>}

LastN(s, n) == IF n >= Len(s) THEN s ELSE SubSeq(s, Len(s) - n + 1, Len(s))
EndsWith(s, p) == Len(p) <= Len(s) /\ LastN(s, Len(p)) = p
Fresh(t) == LastN(t, Size)

Chunk(t, k) == [text |-> t, index |-> k, counter |-> Len(t)]

Init ==
    /\ asked = <<>> /\ memo = <<>>
    /\ \E n \in 1..MaxChunks : \E ts \in [1..n -> Texts] : given = [k \in 1..n |-> Chunk(ts[k], k)]
    /\ now = given /\ pass = 0

Generate(t) ==
    /\ Len(asked) < 3
    /\ LET ans == IF Memo = "len" /\ memo # <<>> /\ Len(memo[1]) = Len(t) THEN memo[2] ELSE Fresh(t)
       IN asked' = Append(asked, <<t, ans>>) /\ memo' = <<t, ans>>
    /\ UNCHANGED <<given, now, pass>>

Apply ==
    /\ pass < 2
    /\ given' = now
    /\ now' = [k \in 1..Len(now) |->
                 IF k = 1
                 THEN (IF Touch = "first" THEN [now[1] EXCEPT !.text = <<0>> \o @] ELSE now[1])
                 ELSE [text    |-> Fresh(now[k - 1].text) \o now[k].text,
                       index   |-> IF Touch = "meta" THEN 0 ELSE now[k].index,
                       counter |-> Len(Fresh(now[k - 1].text) \o now[k].text)]]
    /\ pass' = pass + 1
    /\ UNCHANGED <<asked, memo>>

Next == (\E t \in Texts : Generate(t)) \/ Apply \/ (pass = 2 /\ Len(asked) = 3 /\ UNCHANGED vars)
Spec == Init /\ [][Next]_vars

Purity == \A j \in 1..Len(asked) : asked[j][2] = Fresh(asked[j][1])

Frame ==
    pass > 0 =>
        /\ now[1] = given[1]
        /\ \A k \in 2..Len(now) :
              /\ now[k].index = given[k].index
              /\ EndsWith(now[k].text, given[k].text)
              /\ LET added == SubSeq(now[k].text, 1, Len(now[k].text) - Len(given[k].text))
                 IN EndsWith(given[k - 1].text, added) /\ Len(added) <= Size
              /\ now[k].counter = Len(now[k].text)

\* ---- the same frame on a recorded observation (OverlapTrace): changed = names of
\* the fields of chunk k that differ after the call, kept = its text still ends
\* with the text that was given
Allowed == {"text", "metadata.char_count", "metadata.word_count", "metadata.estimated_tokens"}
FrameClause(k, changed, kept) ==
    IF k = 1 /\ changed # {} THEN "frame-first"
    ELSE IF ~(changed \subseteq Allowed) THEN "frame-fields"
    ELSE IF ~kept THEN "frame-own-content"
    ELSE ""
=============================================================================
