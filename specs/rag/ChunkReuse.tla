----------------------------- MODULE ChunkReuse -----------------------------
(***************************************************************************)
(* C12 - one chunker object asked to chunk several documents, one after    *)
(* the other or from two goroutines.  The object may retain whatever the   *)
(* implementation keeps while it walks a document: the running chunk       *)
(* index, the stack of open sections (levels and titles), the id counter.  *)
(*                                                                         *)
(* A document is a sequence of elements: 0 = paragraph, l > 0 = heading of *)
(* level l.  Chunk(doc) walks it element by element (one action each) and  *)
(* emits one chunk [index, id, path] per element; the path is the chain of *)
(* enclosing headings (pop while top.level >= level).                      *)
(*                                                                         *)
(*   Keep = "local"  : the walk state lives in the call                    *)
(*        = "reset"  : it lives in the object and is reset when a call     *)
(*                     starts - fine for one caller, not for two           *)
(*        = "carry"  : it lives in the object and is never reset           *)
(*                                                                         *)
(* PURITY: every result, in every history and under every interleaving,    *)
(* equals Fresh(doc), the result a new object gives: indices restart at 0, *)
(* ids are unique within a result, no section is carried over, and every   *)
(* chunk reports the right total.                                          *)
(***************************************************************************)
EXTENDS Integers, Sequences, FiniteSets, TLC

CONSTANTS Docs, MaxCalls, Procs, Keep

VARIABLES
    todo,     \* todo[p]: documents process p still has to chunk
    cur,      \* cur[p]: [doc, pos, out] of the call in progress, pos = 0: none
    loc,      \* loc[p]: walk state of the call (Keep = "local")
    obj,      \* walk state kept in the object
    done      \* finished calls: [doc, out]

vars == <<todo, cur, loc, obj, done>>

S0 == [idx |-> 0, stack |-> <<>>, idc |-> 0]
Idle == [doc |-> <<>>, pos |-> 0, out |-> <<>>]

RECURSIVE PopTo(_, _)
PopTo(st, lv) == IF st # <<>> /\ st[Len(st)][1] >= lv THEN PopTo(SubSeq(st, 1, Len(st) - 1), lv) ELSE st

\* one element: the new state and the chunk
Walk(s, doc, pos) ==
    LET e  == doc[pos]
        st == IF e > 0 THEN Append(PopTo(s.stack, e), <<e, pos>>) ELSE s.stack
    IN [s |-> [idx |-> s.idx + 1, stack |-> st, idc |-> s.idc + 1],
        c |-> [index |-> s.idx, id |-> s.idc, path |-> [j \in 1..Len(st) |-> st[j][2]]]]

RECURSIVE FreshFrom(_, _, _)
FreshFrom(s, doc, pos) ==
    IF pos > Len(doc) THEN <<>> ELSE LET w == Walk(s, doc, pos) IN <<w.c>> \o FreshFrom(w.s, doc, pos + 1)
Fresh(doc) == FreshFrom(S0, doc, 1)

Histories == UNION {[1..n -> Docs] : n \in 0..MaxCalls}

Init ==
    /\ todo \in [Procs -> Histories]
    /\ cur = [p \in Procs |-> Idle] /\ loc = [p \in Procs |-> S0] /\ obj = S0 /\ done = {}

CallsLeft == \* bound on the total number of calls of a history
    LET RECURSIVE sum(_)
        sum(S) == IF S = {} THEN 0 ELSE LET p == CHOOSE x \in S : TRUE IN Len(todo[p]) + sum(S \ {p})
    IN sum(Procs)

Begin(p) ==
    /\ cur[p].pos = 0 /\ todo[p] # <<>>
    /\ cur' = [cur EXCEPT ![p] = [doc |-> Head(todo[p]), pos |-> 1, out |-> <<>>]]
    /\ todo' = [todo EXCEPT ![p] = Tail(@)]
    /\ loc' = [loc EXCEPT ![p] = S0]
    /\ obj' = IF Keep = "reset" THEN S0 ELSE obj
    /\ UNCHANGED done

Step(p) ==
    /\ cur[p].pos > 0 /\ cur[p].pos <= Len(cur[p].doc)
    /\ LET s == IF Keep = "local" THEN loc[p] ELSE obj
           w == Walk(s, cur[p].doc, cur[p].pos)
       IN /\ cur' = [cur EXCEPT ![p] = [@ EXCEPT !.pos = @ + 1, !.out = Append(@, w.c)]]
          /\ IF Keep = "local" THEN loc' = [loc EXCEPT ![p] = w.s] /\ obj' = obj
             ELSE obj' = w.s /\ loc' = loc
    /\ UNCHANGED <<todo, done>>

End(p) ==
    /\ cur[p].pos > Len(cur[p].doc) /\ cur[p].pos > 0
    /\ done' = done \cup {[doc |-> cur[p].doc, out |-> cur[p].out]}
    /\ cur' = [cur EXCEPT ![p] = Idle]
    /\ UNCHANGED <<todo, loc, obj>>

Finished == \A p \in Procs : cur[p].pos = 0 /\ todo[p] = <<>>
Next == (\E p \in Procs : Begin(p) \/ Step(p) \/ End(p)) \/ (Finished /\ UNCHANGED vars)
Spec == Init /\ [][Next]_vars

\* only histories of at most MaxCalls calls in total
Bounded == CallsLeft <= MaxCalls

Purity == \A r \in done : r.out = Fresh(r.doc)
=============================================================================
