SPECIFICATION Spec
CONSTANTS
  MaxHeads = 8
  MaxLevel = 6
  PathBuild = "copy"
INVARIANT PathsTrue
CHECK_DEADLOCK TRUE
