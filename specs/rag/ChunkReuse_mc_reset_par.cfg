SPECIFICATION Spec
CONSTANTS
  Docs <- DocsAB
  MaxCalls = 3
  Procs = {1, 2}
  Keep = "reset"
CONSTRAINT Bounded
INVARIANT Purity
CHECK_DEADLOCK TRUE
