SPECIFICATION Spec
CONSTANTS
  Alphabet <- AlphaSmall
  MaxChars = 4
  Limits = {1, 2, 3, 4, 5, 6}
  Units <- AllUnits
  Cpt = 2
  SentWin = 4
  WordWin = 3
  WordsMul = 2
  SentMul = 3
  ParaMul = 4
  MinLimit = 3
  BreakEvery = 3
  Align = "raw"
  Cap = "off"
INVARIANTS LoopBounds
PROPERTIES Termination Progress
CHECK_DEADLOCK TRUE
