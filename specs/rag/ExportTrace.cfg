SPECIFICATION TraceSpec
CONSTANTS
  Cases = {}
  Expand <- Ident
  Slice = "halfopen"
INVARIANTS Conservation FilterIsSelection
POSTCONDITION TraceAccepted
CHECK_DEADLOCK FALSE
