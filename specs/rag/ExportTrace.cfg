SPECIFICATION TraceSpec
CONSTANTS
  Cases = {}
  Expand <- Ident
  Slice = "halfopen"
  IndexFrom = "chunk"
INVARIANTS Conservation FilterIsSelection
POSTCONDITION TraceAccepted
CHECK_DEADLOCK FALSE
