---------------------------- MODULE SplitterProf ----------------------------
(* Profiles of long texts for the size bound of Splitter.tla.  A profile is   *)
(* a short sequence of segments [wl letters per word, cw bytes per letter,    *)
(* sep separator]; the harness repeats the segments until the text is several *)
(* times the limit.  TLC enumerates profile x unit x limit; the contract is   *)
(* checked on the recorded result by SplitterTrace.tla.                       *)
EXTENDS Integers, Sequences, FiniteSets, TLC, Json

CONSTANTS MaxSegs, WordLens, Widths, Seps, UnitLimits

VARIABLES prof, ul
vars == <<prof, ul>>

Segs == [wl : WordLens, cw : Widths, sep : Seps]
\* a word must leave room for a break every 50 bytes, unless it is the "huge" one
Sane(s) == s.wl * s.cw <= 49 \/ s.wl >= 60

Init == /\ prof \in UNION {[1..k -> {s \in Segs : Sane(s)}] : k \in 1..MaxSegs}
        /\ ul \in UnitLimits
Next == FALSE /\ UNCHANGED vars
Spec == Init /\ [][Next]_vars

ULs == {<<"characters", 200>>, <<"characters", 257>>, <<"tokens", 50>>, <<"tokens", 71>>}

EmitCase == PrintT(ToJson([prof |-> prof, unit |-> ul[1], limit |-> ul[2], cpt |-> 4]))
=============================================================================
