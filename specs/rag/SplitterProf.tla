---------------------------- MODULE SplitterProf ----------------------------
(* Profiles of long texts for the size bound of Splitter.tla.  A profile is   *)
(* a short sequence of segments [wl letters per word, cw bytes per letter,    *)
(* sep separator]; the harness repeats the segments until the text is several *)
(* times the limit.  TLC enumerates profile x unit x limit; the contract is   *)
(* checked on the recorded result by SplitterTrace.tla.                       *)
EXTENDS Integers, Sequences, FiniteSets, TLC, Json

CONSTANTS MaxSegs, WordLens, Widths, Seps, UnitLimits, Space

VARIABLES prof, ul
vars == <<prof, ul>>

Segs == [wl : WordLens, cw : Widths, sep : Seps]
\* a word must leave room for a break every 50 bytes, unless it is the "huge" one
Sane(s) == s.wl * s.cw <= 49 \/ s.wl >= 60

\* profiles: short sequences of segments
ProfSpace == UNION {[1..k -> {s \in Segs : Sane(s)}] : k \in 1..MaxSegs}

\* probes: ASCII prose with a break every 10 bytes whose only sentence ends lie at
\* byte L + d1 and L + d2, L = the limit position in bytes (limit characters, or
\* limit / TokensPerChar): just outside / at the edges of / inside the backward
\* (100) and forward (100) sentence windows and the word windows (50) of the split
\* search; 999 = no such sentence end.
ProbeSpace == [d1 : {-150, -100, -99, -50, -1, 0, 999}, d2 : {1, 2, 49, 50, 51, 99, 100, 150, 999}]

\* sweeps: texts whose byte length and character count differ.  cuts x 10-byte ASCII
\* words fill whole pieces; the last segment has max + d bytes (max = the limit
\* position in bytes) of which e characters are w bytes wide and stand at its head,
\* around the position where it would be cut, or at its tail.  d sweeps the window in
\* which the two measures fall on different sides of the maximum.
SweepSpace == [cuts : 0..2, zone : {"head", "cut", "tail"}, w : {2, 3, 4}, e : {1, 2, 3, 5},
               d : {-2, -1, 0, 1, 2, 3, 4, 6, 9, 12, 15}]
SweepULs == {<<"characters", 200, 4>>, <<"characters", 257, 4>>, <<"tokens", 200, 1>>, <<"tokens", 200, 4>>}

Init == /\ prof \in Space
        /\ ul \in UnitLimits
Next == FALSE /\ UNCHANGED vars
Spec == Init /\ [][Next]_vars

\* size configurations <<unit, hard maximum, characters per token = 1 / TokensPerChar>>:
\* the product unit x TokensPerChar {0.1, 0.25, 0.5, 1.0} x maxima >= 200 for which the
\* size bound is promised ...
BoundULs == {<<"characters", 200, 4>>, <<"characters", 257, 4>>}
            \cup {<<"tokens", lim, cpt>> : lim \in {200, 231}, cpt \in {10, 4, 2, 1}}
\* ... plus small token maxima (conservation / UTF-8 only)
ULs == BoundULs \cup {<<"tokens", 50, 4>>, <<"tokens", 71, 2>>}

EmitCase  == PrintT(ToJson([prof |-> prof, unit |-> ul[1], limit |-> ul[2], cpt |-> ul[3]]))
EmitSweep == PrintT(ToJson([sweep |-> prof, unit |-> ul[1], limit |-> ul[2], cpt |-> ul[3]]))
EmitProbe == PrintT(ToJson([probe |-> prof, unit |-> ul[1], limit |-> ul[2], cpt |-> ul[3]]))
=============================================================================
