SPECIFICATION TraceSpec
CONSTANTS
  Letters = {}
  MaxLen = 0
  PSteps = {1}
  PathAlg = "stack"
  Alias = "copy"
  Walker = "contract"
  Strict = TRUE
INVARIANTS Covers IndexOrder UniqueIds Complete
POSTCONDITION TraceAccepted
CHECK_DEADLOCK FALSE
