SPECIFICATION Spec
CONSTANTS
  Letters <- LettersHollowMC
  MaxLen = 4
  PSteps = {1}
  PathAlg = "stack"
  Alias = "copy"
  Walker = "impl"
INVARIANTS TypeOK Covers IndexOrder UniqueIds Complete PathsTrue
CHECK_DEADLOCK TRUE
