SPECIFICATION Spec
CONSTANTS
  Cases <- LemmaCases
  MaxIn = 0
CONSTRAINT Emit
CHECK_DEADLOCK FALSE
