SPECIFICATION Spec
CONSTANTS
  Letters <- LettersMC
  MaxLen = 3
  PSteps = {1, 2}
  PathAlg = "stack"
  Alias = "copy"
  Walker = "contract"
INVARIANTS TypeOK StackIsChain Covers IndexOrder UniqueIds Complete
CHECK_DEADLOCK TRUE
