SPECIFICATION BuildSpec
CONSTANTS
  Letters <- LettersGen
  MaxLen = 3
  PSteps = {2}
  PathAlg = "stack"
  Alias = "copy"
  Walker = "contract"
CONSTRAINT EmitCase
CHECK_DEADLOCK FALSE
