SPECIFICATION Spec
CONSTANTS
  Letters <- LettersHollowMC
  MaxLen = 3
  PSteps = {1}
  PathAlg = "stack"
  Alias = "copy"
  Walker = "contract"
INVARIANTS TypeOK Covers IndexOrder UniqueIds Complete PathsTrue
CHECK_DEADLOCK TRUE
