---------------------------- MODULE ExportFileTrace ----------------------------
(* Trace validation for ExportFile.  Line 1 "Open": the collection and the     *)
(* batch size.  "Reset" starts a history with the destination in the given     *)
(* initial state; every "Call" is one file export with, per file it wrote:     *)
(* whether the file's bytes equal the in-memory export of the same call, and   *)
(* the ids the file parses back to.                                            *)
EXTENDS ExportFile, Json

Trace == ndJsonDeserialize("trace.ndjson")
TraceChunks == Trace[1].chunks
TraceSize == Trace[1].size
NoCalls == <<>>
AllDests == {"absent", "empty", "long", "short"}

VARIABLE l
tvars == <<fvars, l>>

TraceInit == l = 2 /\ hist = <<>> /\ dest = [f \in Files |-> InitDest("absent")]

Ev == Trace[l]

TraceReset ==
    /\ l <= Len(Trace) /\ Ev.event = "Reset" /\ l' = l + 1
    /\ Ev.init \in AllDests
    /\ dest' = [f \in Files |-> InitDest(Ev.init)] /\ hist' = <<>>

TraceCall ==
    /\ l <= Len(Trace) /\ Ev.event = "Call" /\ l' = l + 1
    /\ "err" \notin DOMAIN Ev
    /\ LET c == [op |-> Ev.op, preds |-> Ev.preds, fmt |-> Ev.fmt, cfg |-> Ev.cfg] IN
         /\ DoCallRec(c, l)
         /\ LET outs == hist'[Len(hist')].wrote IN
              /\ Len(Ev.outs) = Len(outs)
              /\ \A n \in 1..Len(outs) :
                    /\ Ev.outs[n].file = outs[n].file
                    /\ Ev.outs[n].same                       \* the file holds exactly the in-memory export
                    /\ Ev.outs[n].ids = E!Ids(SubSeq(Sel(c), outs[n].lo + 1, outs[n].hi))

TraceNext == TraceReset \/ TraceCall
TraceSpec == TraceInit /\ [][TraceNext]_tvars
TraceAccepted == TLCGet("stats").diameter = Len(Trace)
=============================================================================
