------------------------------ MODULE Chunking ------------------------------
(***************************************************************************)
(* C12 - RAG chunks cover the document once, in order, with true metadata. *)
(*                                                                         *)
(* A document is a sequence of elements                                    *)
(*      [k |-> "H"|"P"|"L"|"T"|"I", a |-> arg, pg |-> page, n |-> units]   *)
(* H: a = heading level, P: a = size class, L: a = items, T: a = cells,    *)
(* I: a = 1 (has a description) / 0.  n is the number of content UNITS of  *)
(* the element (heading text = 1, paragraph = its words, list = its items, *)
(* table = its cells, image = its description).  Units are numbered        *)
(* 1..N(doc) in document order.                                            *)
(*                                                                         *)
(* CONTRACT (queue discipline): a chunker is any process that issues       *)
(*   Emit(ch)  - enabled iff the units of ch are exactly the next k >= 1   *)
(*               unconsumed units, ch.index = number of chunks so far,     *)
(*               ch.id is fresh, the page range lies on the pages of those *)
(*               units and ch.path is the chain of headings enclosing one  *)
(*               of them;                                                  *)
(*   Finish    - enabled iff every unit is consumed and every chunk        *)
(*               reports the number of chunks as its total.                *)
(*                                                                         *)
(* IMPLEMENTATION-SHAPED LAYER: the element walk of                        *)
(* rag.DocumentChunker.chunkPage (flush-before-boundary accumulation),     *)
(* with two switches:                                                      *)
(*   PathAlg = "stack": pop while top.level >= new level (the contract)    *)
(*           = "len"  : rag.updateSectionPath of the pinned tree - pops    *)
(*                      while Len(path) >= new level, only when            *)
(*                      new level <= current level                         *)
(*   Alias   = "copy" : every chunk owns its path                          *)
(*           = "share": heading/list/table/image chunks keep a Go slice    *)
(*                      (array, length) of the walker's current path; the  *)
(*                      backing array is modelled with Go's append rule    *)
(***************************************************************************)
EXTENDS Integers, Sequences, FiniteSets, TLC, SequencesExt

CONSTANTS
    Letters,    \* alphabet the document builder draws from (MC)
    MaxLen,     \* bound on the number of letters of a document (MC)
    PSteps,     \* page numbering schemes: page i has number s*i + s - 1
    PathAlg,    \* "stack" | "len"
    Alias,      \* "copy" | "share"
    Walker      \* "contract": any legal chunker; "impl": the element walk

VARIABLES
    doc,        \* sequence of elements
    pages,      \* page numbers of the document (increasing; may hold no element)
    pstep,      \* numbering scheme of this document
    minor,      \* headings with level >= minor may be treated as content (7 = none)
    phase,      \* "build" | "chunk" | "done"
    consumed,   \* number of units consumed so far
    nchunks,    \* chunks emitted so far
    ids,        \* ids used so far
    emitted,    \* history: the chunks
    \* ---- implementation-shaped walker state ----
    pos,        \* next element to visit
    cur,        \* current section path: [arr, len] into mem
    lvls,       \* levels of the entries of the current path ("stack")
    curLevel,   \* level of the last heading ("len")
    mem,        \* backing arrays: sequence of sequences (0 = never written)
    block       \* accumulated paragraph text: [first, k, pg, path] or k = 0

vars == <<doc, pages, pstep, minor, phase, consumed, nchunks, ids, emitted,
          pos, cur, lvls, curLevel, mem, block>>
docvars  == <<doc, pages, pstep, minor>>
implvars == <<pos, cur, lvls, curLevel, mem, block>>

\* ------------------------------------------------------------ documents

Range1(n) == [j \in 1..n |-> j]

NUnits(d) == FoldLeft(LAMBDA acc, e : acc + e.n, 0, d)

\* index of the first unit of element i
FirstOf(d, i) == 1 + FoldLeft(LAMBDA acc, e : acc + e.n, 0, SubSeq(d, 1, i - 1))
LastOf(d, i)  == FirstOf(d, i) + d[i].n - 1

\* elements that own at least one unit of first..last
ElemsOf(d, first, last) ==
    {i \in 1..Len(d) : d[i].n > 0 /\ FirstOf(d, i) <= last /\ LastOf(d, i) >= first}

SetMin(S) == CHOOSE x \in S : \A y \in S : x <= y
SetMax(S) == CHOOSE x \in S : \A y \in S : x >= y

\* ---- the chain of enclosing headings, computed with a (level, element) stack:
\* a heading pops every entry whose level is >= its own, then pushes itself.
RECURSIVE PopTo(_, _)
PopTo(st, lv) == IF st # <<>> /\ st[Len(st)].lv >= lv
                 THEN PopTo(SubSeq(st, 1, Len(st) - 1), lv) ELSE st

\* "G" is a heading given as a paragraph that the page's layout lists as a heading
IsHead(e, m) == e.k \in {"H", "G"} /\ e.a < m

StackAfter(d, i, m) ==
    FoldLeft(LAMBDA st, j : IF IsHead(d[j], m)
                            THEN Append(PopTo(st, d[j].a), [lv |-> d[j].a, el |-> j])
                            ELSE st,
             <<>>, Range1(i))

\* path of element i = heading elements enclosing it (a heading encloses itself)
Enclosing(d, i, m) == LET st == StackAfter(d, i, m) IN [j \in 1..Len(st) |-> st[j].el]

\* the same chain, declaratively: heading j encloses i iff no later heading up to
\* i has a level <= level(j).  StackIsChain (below) states that both agree.
ChainSet(d, i, m) ==
    {j \in 1..i : IsHead(d[j], m) /\ \A q \in (j + 1)..i : IsHead(d[q], m) => d[q].a > d[j].a}
Chain(d, i, m) == SetToSortSeq(ChainSet(d, i, m), <)

\* ------------------------------------------------------------- contract

\* minor = 0: the chunker works on a document whose headings it has to detect
\* itself (PDF layout heuristics).  Which lines it takes for headings is not part
\* of the property; what it does report must be true: every entry of the path is a
\* heading of the document that does not come after the chunk's content.
WeakPath(path, lastEl) ==
    \A j \in 1..Len(path) : path[j] \in 1..Len(doc) /\ doc[path[j]].k \in {"H", "G"} /\ path[j] <= lastEl

\* the section title a chunk shows (as a heading element; -1 = not observed) is the
\* innermost heading of its section path
TitleOK(ch) == IF ch.title = -1 \/ Len(ch.path) = 0 THEN TRUE ELSE ch.title = ch.path[Len(ch.path)]

\* A HOLLOW element has no content unit (n = 0): a table without rows or with empty
\* cells, a list without items, a heading or paragraph of white space, an image
\* without description.  A chunker may emit a chunk for it or not; such a chunk has
\* no unit (k = 0) and is only possible where a hollow element stands: all units
\* before that element are consumed and none after it.
HollowAt(c) == \E i \in 1..Len(doc) : doc[i].n = 0 /\ FirstOf(doc, i) = c + 1

\* the pages a chunk's content comes from: the pages of the elements that own its
\* units; hollow elements standing directly before, between or after those units
\* may have been taken into the chunk (their white space is part of its text), so
\* their pages are admissible too
PagesOf(first, k) ==
    {doc[i].pg : i \in ElemsOf(doc, first, first + k - 1)}
    \cup {doc[i].pg : i \in {j \in 1..Len(doc) : doc[j].n = 0 /\ FirstOf(doc, j) \in first..(first + k)}}

\* hollow headings have no text by which a path could name them: -1 stands for them
\* and a text that several elements show (text class t > 0) cannot name one of them:
\* -(100 + t) stands for any heading of that class
TextClass(e) == IF "t" \in DOMAIN e THEN e.t ELSE 0
NormPath(p) == [j \in 1..Len(p) |->
                  IF p[j] \in 1..Len(doc)
                  THEN (IF doc[p[j]].n = 0 THEN -1
                        ELSE IF TextClass(doc[p[j]]) > 0 THEN -(100 + TextClass(doc[p[j]])) ELSE p[j])
                  ELSE p[j]]

EmitOK(ch) ==
    /\ ch.k >= 0
    /\ ch.first = consumed + 1
    /\ ch.first + ch.k - 1 <= NUnits(doc)
    /\ ch.index = nchunks
    /\ ch.id \notin ids
    /\ IF ch.k = 0
       THEN HollowAt(consumed)   \* index, id (and the total at Finish) are all that is asked of it
       ELSE LET els == ElemsOf(doc, ch.first, ch.first + ch.k - 1)
                pgs == PagesOf(ch.first, ch.k)
            IN /\ ch.ps <= ch.pe
               /\ ch.ps >= SetMin(pgs) /\ ch.pe <= SetMax(pgs)
               /\ \/ \E i \in els : \E m \in {7, minor} : ch.path = NormPath(Enclosing(doc, i, m))
                  \/ minor = 0 /\ WeakPath(ch.path, SetMax(els))
               /\ TitleOK(ch)

Consume(ch) ==
    /\ consumed' = consumed + ch.k
    /\ nchunks' = nchunks + 1
    /\ ids' = ids \cup {ch.id}
    /\ emitted' = Append(emitted, ch)

Emit(ch) ==
    /\ phase = "chunk"
    /\ EmitOK(ch)
    /\ Consume(ch)
    /\ UNCHANGED <<docvars, phase, implvars>>

FinishOK(totals) ==
    /\ consumed = NUnits(doc)
    /\ Len(totals) = nchunks
    /\ \A j \in 1..Len(totals) : totals[j] = nchunks

Finish(totals) ==
    /\ phase = "chunk"
    /\ FinishOK(totals)
    /\ phase' = "done"
    /\ UNCHANGED <<docvars, consumed, nchunks, ids, emitted, implvars>>

\* ------------------------------------------------------ document builder

PageNum(s, i) == s * i + s - 1

\* letters: [k |-> "NP"] starts a new page, anything else is an element template
\* [k, a, n]
Build(l) ==
    /\ phase = "build"
    /\ Len(doc) + Len(pages) - 1 < MaxLen
    /\ IF l.k = "NP"
       THEN /\ pages' = Append(pages, PageNum(pstep, Len(pages) + 1))
            /\ doc' = doc
       ELSE /\ doc' = Append(doc, [k |-> l.k, a |-> l.a, pg |-> pages[Len(pages)], n |-> l.n,
                                     t |-> IF "t" \in DOMAIN l THEN l.t ELSE 0])
            /\ pages' = pages
    /\ UNCHANGED <<pstep, minor, phase, consumed, nchunks, ids, emitted, implvars>>

StartChunking ==
    /\ phase = "build"
    /\ phase' = "chunk"
    /\ UNCHANGED <<docvars, consumed, nchunks, ids, emitted, implvars>>

\* -------------------------------------------- contract walker (any chunker)

\* every legal chunk, with the canonical fresh id
LegalChunks ==
    {ch \in [first : {consumed + 1},
             k : (IF nchunks < NUnits(doc) + Cardinality({i \in 1..Len(doc) : doc[i].n = 0}) THEN 0 ELSE 1)..(NUnits(doc) - consumed),
             index : {nchunks},
             id : {nchunks},
             ps : ToSet(pages), pe : ToSet(pages),
             path : {NormPath(Enclosing(doc, i, 7)) : i \in 1..Len(doc)}, title : {-1}] : EmitOK(ch)}

ContractNext ==
    \/ \E ch \in LegalChunks : Emit(ch)
    \/ Finish([j \in 1..nchunks |-> nchunks])

\* ------------------------------------ implementation-shaped element walk

Cap(a) == Len(mem[a])
NewCap(c) == IF c = 0 THEN 1 ELSE 2 * c

\* Go: p = append(p, x) on the slice header c
AppendMem(c, x) ==
    IF c.len < Cap(c.arr)
    THEN [m |-> [mem EXCEPT ![c.arr][c.len + 1] = x], c |-> [arr |-> c.arr, len |-> c.len + 1]]
    ELSE LET nc == NewCap(Cap(c.arr))
             na == [j \in 1..nc |-> IF j <= c.len THEN mem[c.arr][j]
                                    ELSE IF j = c.len + 1 THEN x ELSE 0]
         IN [m |-> Append(mem, na), c |-> [arr |-> Len(mem) + 1, len |-> c.len + 1]]

CurPath == SubSeq(mem[cur.arr], 1, cur.len)

\* number of entries the heading of level lv leaves on the path
RECURSIVE PopStack(_, _)
PopStack(n, lv) == IF n > 0 /\ lvls[n] >= lv THEN PopStack(n - 1, lv) ELSE n
RECURSIVE PopLen(_, _)
PopLen(n, lv) == IF n >= lv /\ n > 0 THEN PopLen(n - 1, lv) ELSE n

KeepLen(lv) == IF PathAlg = "stack" THEN PopStack(cur.len, lv)
               ELSE IF lv <= curLevel THEN PopLen(cur.len, lv) ELSE cur.len

\* what a chunk remembers of the path: a value (copy) or a slice (share)
PathRef(c, m, shared) ==
    IF Alias = "share" /\ shared THEN [ref |-> TRUE, arr |-> c.arr, len |-> c.len]
    ELSE [ref |-> FALSE, val |-> SubSeq(m[c.arr], 1, c.len)]

Resolve(p) == IF p.ref THEN SubSeq(mem[p.arr], 1, p.len) ELSE p.val

ImplChunk(first, k, pg, pref) ==
    [first |-> first, k |-> k, index |-> nchunks, id |-> nchunks, ps |-> pg, pe |-> pg, path |-> pref, title |-> -1]

\* everything of EmitOK except the path, which is judged when the walk is over
\* (PathsTrue), because a shared slice can still change
ImplEmitOK(ch) ==
    /\ ch.k >= 0 /\ ch.first = consumed + 1 /\ ch.first + ch.k - 1 <= NUnits(doc)
    /\ ch.index = nchunks /\ ch.id \notin ids
    /\ IF ch.k = 0 THEN HollowAt(consumed)
       ELSE LET pgs == {doc[i].pg : i \in ElemsOf(doc, ch.first, ch.first + ch.k - 1)}
            IN ch.ps <= ch.pe /\ ch.ps >= SetMin(pgs) /\ ch.pe <= SetMax(pgs)

\* HollowDrop: the chunk of a hollow element is thrown away AFTER it took its index
\* and id from the running counter (the refutable variant: holes in the indices)
HollowDrop == FALSE
ConsumeImpl(ch) ==
    IF HollowDrop /\ ch.k = 0
    THEN /\ nchunks' = nchunks + 1 /\ ids' = ids \cup {ch.id} /\ UNCHANGED <<consumed, emitted>>
    ELSE Consume(ch)

\* flushTextBlock: an accumulated block leaves as one or more chunks (SplitToSize)
Flush ==
    /\ block.k > 0
    /\ \E j \in 1..block.k :
         LET ch == ImplChunk(block.first, j, block.pg, [ref |-> FALSE, val |-> block.path])
         IN /\ ImplEmitOK(ch) /\ Consume(ch)
            /\ block' = [block EXCEPT !.first = @ + j, !.k = @ - j]
    /\ UNCHANGED <<docvars, phase, pos, cur, lvls, curLevel, mem>>

MustFlush == /\ block.k > 0
             /\ IF pos > Len(doc) THEN TRUE
                ELSE doc[pos].k # "P" \/ doc[pos].pg # block.pg

Visit ==
    /\ pos <= Len(doc) /\ ~MustFlush
    /\ LET e == doc[pos] IN
       CASE e.k = "H" ->
              LET kept == [arr |-> cur.arr, len |-> KeepLen(e.a)]
                  r    == AppendMem(kept, pos)
                  ch   == ImplChunk(FirstOf(doc, pos), e.n, e.pg, PathRef(r.c, r.m, TRUE))
              IN /\ mem' = r.m /\ cur' = r.c
                 /\ lvls' = Append(SubSeq(lvls, 1, kept.len), e.a)
                 /\ curLevel' = e.a
                 /\ ImplEmitOK(ch) /\ ConsumeImpl(ch)
                 /\ UNCHANGED block
         [] e.k = "P" ->
              /\ block' = IF block.k = 0
                          THEN [first |-> FirstOf(doc, pos), k |-> e.n, pg |-> e.pg, path |-> CurPath]
                          ELSE [block EXCEPT !.k = @ + e.n, !.path = CurPath]
              /\ UNCHANGED <<consumed, nchunks, ids, emitted, cur, lvls, curLevel, mem>>
         [] (e.k \in {"L", "T"}) \/ (e.k = "I" /\ e.n > 0) ->
              \* a list / table always leaves as a chunk, also one without items / rows
              LET ch == ImplChunk(FirstOf(doc, pos), e.n, e.pg, PathRef(cur, mem, TRUE))
              IN /\ ImplEmitOK(ch) /\ ConsumeImpl(ch)
                 /\ UNCHANGED <<block, cur, lvls, curLevel, mem>>
         [] OTHER ->
              UNCHANGED <<consumed, nchunks, ids, emitted, block, cur, lvls, curLevel, mem>>
    /\ pos' = pos + 1
    /\ UNCHANGED <<docvars, phase>>

ImplFinish ==
    /\ pos > Len(doc) /\ block.k = 0
    /\ Finish([j \in 1..nchunks |-> nchunks])

ImplNext == (MustFlush /\ Flush) \/ Visit \/ ImplFinish

\* ------------------------------------------------------------------ spec

Init ==
    /\ doc = <<>> /\ pstep \in PSteps /\ pages = <<PageNum(pstep, 1)>> /\ minor = 7
    /\ phase = "build" /\ consumed = 0 /\ nchunks = 0 /\ ids = {} /\ emitted = <<>>
    /\ pos = 1 /\ cur = [arr |-> 1, len |-> 0] /\ lvls = <<>> /\ curLevel = 0
    /\ mem = << <<>> >> /\ block = [first |-> 0, k |-> 0, pg |-> 0, path |-> <<>>]

BuildNext == \E l \in Letters : Build(l)

\* a finished run stutters, so that CHECK_DEADLOCK finds a walk that gets stuck
\* before Finish
Done == phase = "done" /\ UNCHANGED vars

Next ==
    \/ BuildNext
    \/ StartChunking
    \/ (phase = "chunk" /\ IF Walker = "impl" THEN ImplNext ELSE ContractNext)
    \/ Done

Spec == Init /\ [][Next]_vars
BuildSpec == Init /\ [][BuildNext]_vars

\* ------------------------------------------------------------ properties

TypeOK ==
    /\ phase \in {"build", "chunk", "done"}
    /\ consumed \in 0..NUnits(doc) /\ nchunks = Len(emitted)
    /\ \A i \in 1..Len(pages) - 1 : pages[i] < pages[i + 1]
    /\ \A i \in 1..Len(doc) : doc[i].pg \in ToSet(pages)
    /\ \A i \in 1..Len(doc) - 1 : doc[i].pg <= doc[i + 1].pg

\* the stack algorithm computes the declarative chain of enclosing headings
StackIsChain == \A i \in 1..Len(doc) : Enclosing(doc, i, 7) = Chain(doc, i, 7)

\* the chunks, concatenated in index order, are exactly the consumed units in order
Covers ==
    \A j \in 1..Len(emitted) :
        emitted[j].first = 1 + FoldLeft(LAMBDA acc, c : acc + c.k, 0, SubSeq(emitted, 1, j - 1))
IndexOrder == \A j \in 1..Len(emitted) : emitted[j].index = j - 1
UniqueIds  == Cardinality({emitted[j].id : j \in 1..Len(emitted)}) = Len(emitted)

\* when the chunker has finished nothing is lost or repeated
Complete ==
    phase = "done" =>
        \A u \in 1..NUnits(doc) :
            Cardinality({j \in 1..Len(emitted) :
                            emitted[j].first <= u /\ u < emitted[j].first + emitted[j].k}) = 1

\* every chunk of a finished walk shows the chain of headings enclosing its first
\* element - read from memory at the end, as a caller of the API would
PathsTrue ==
    (phase = "done" /\ Walker = "impl") =>
        \A j \in 1..Len(emitted) :
            LET ch == emitted[j]
                i  == SetMin(ElemsOf(doc, ch.first, ch.first + ch.k - 1))
            IN ch.k = 0 \/ Resolve(ch.path) = Enclosing(doc, i, 7)

=============================================================================
