SPECIFICATION BuildSpec
CONSTANTS
  Letters <- LettersHollow
  MaxLen = 3
  PSteps = {1}
  PathAlg = "stack"
  Alias = "copy"
  Walker = "contract"
CONSTRAINT EmitCase
CHECK_DEADLOCK FALSE
