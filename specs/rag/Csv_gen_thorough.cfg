SPECIFICATION Spec
CONSTANTS
  Cases <- AllCases
  MaxIn = 6
INVARIANTS TypeOK FunctionAgrees
CONSTRAINT Emit
CHECK_DEADLOCK FALSE
