SPECIFICATION Spec
CONSTANTS
  Colls <- McColls
  CallSeq <- McCallSeq
  XFmts <- McXFmts
  BatchSize = 2
  MaxLen = 3
  FilterImpl = "pure"
  ColCache = "none"
  Full = FALSE
INVARIANTS TypeOK ReceiverUnchanged Purity NoRetainedState
CHECK_DEADLOCK FALSE
CONSTRAINT EmitObj
