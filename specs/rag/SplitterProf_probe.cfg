SPECIFICATION Spec
CONSTANTS
  MaxSegs = 0
  WordLens = {}
  Widths = {}
  Seps = {}
  UnitLimits <- BoundULs
  Space <- ProbeSpace
CONSTRAINT EmitProbe
CHECK_DEADLOCK FALSE
