SPECIFICATION Spec
CONSTANTS
  Max = 10
  Min = 3
  Sizes = {1, 2, 3, 4, 6, 8, 9, 10, 11}
  MaxLen = 3
  Orphan = "emit"
INVARIANTS InOrderOnce Fits
PROPERTY Termination
CHECK_DEADLOCK TRUE
