SPECIFICATION BuildSpec
CONSTANTS
  Letters <- LettersRepeat
  MaxLen = 5
  PSteps = {1}
  PathAlg = "stack"
  Alias = "copy"
  Walker = "contract"
CONSTRAINT EmitCase
CHECK_DEADLOCK FALSE
