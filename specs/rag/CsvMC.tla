------------------------------- MODULE CsvMC -------------------------------
(* Bounded instances of Csv: the case spaces, emission, negative control.   *)
EXTENDS Csv, Json

CONSTANTS MaxIn      \* length bound of the arbitrary inputs

SeqsUpTo(S, n) == UNION {[1..k -> S] : k \in 0..n}

\* --- lemma space: tables written by Write under every writer configuration
Chars  == {"D", "Q", "CR", "LF", "x"}
FldsA  == SeqsUpTo(Chars, 2)
FldsB  == SeqsUpTo(Chars, 1)
RowsA  == UNION {[1..k -> FldsA] : k \in 1..2}
RowsB  == UNION {[1..k -> FldsB] : k \in 1..2}
RowsC  == {<<f>> : f \in FldsB}
Tables == {<<r>> : r \in RowsA} \cup [1..2 -> RowsB] \cup [1..3 -> RowsC]

TablesQ == {<<r>> : r \in RowsB} \cup [1..2 -> RowsC]
           \cup {<<<<f>>>> : f \in FldsA} \cup {<<<<f, g>>>> : f \in FldsA, g \in FldsB}

LemmaCases  == {[src |-> t, known |-> TRUE, input |-> Write(t, w)] : t \in Tables, w \in WriterCfgs}
LemmaCasesQ == {[src |-> t, known |-> TRUE, input |-> Write(t, w)] : t \in TablesQ, w \in WriterCfgs}

\* --- every character sequence up to MaxIn (well-formed or not)
Alpha == {"D", "Q", "CR", "LF", "x", "y"}
AllCases == {[src |-> <<>>, known |-> FALSE, input |-> s] : s \in SeqsUpTo(Alpha, MaxIn)}

\* --- negative control: a writer that forgets to double embedded quotes
BadEscaped(f) == <<"Q">> \o f \o <<"Q">>
BadField(f) == IF NeedsQuote(f) THEN BadEscaped(f) ELSE f
BadWrite(rows) ==
    Concat([i \in 1..Len(rows) |->
        Concat([j \in 1..Len(rows[i]) |-> (IF j > 1 THEN <<"D">> ELSE <<>>) \o BadField(rows[i][j])]) \o <<"LF">>])
HasQ(r) == \E j \in 1..Len(r) : \E i \in 1..Len(r[j]) : r[j][i] = "Q"
BadCases == {[src |-> t, known |-> TRUE, input |-> BadWrite(t)] : t \in {<<r>> : r \in {x \in RowsA : HasQ(x)}}}

\* one JSON line per finished run: the input and what RFC 4180 makes of it
Emit == done => PrintT(ToJson([input |-> cas.input, ok |-> Result(rd).ok, rows |-> Result(rd).rows,
                               known |-> cas.known]))
=============================================================================
