SPECIFICATION McSpec
CONSTANTS
  Chunks <- McChunks
  FCallSeq <- McFCallSeq
  InitDests <- McInitDests
  BatchSize = 2
  MaxLen = 2
  Open = "notrunc"
INVARIANTS TypeOK FileIsExport
CHECK_DEADLOCK FALSE
