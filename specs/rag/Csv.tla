-------------------------------- MODULE Csv --------------------------------
(***************************************************************************)
(* RFC 4180 delimiter-separated text: the reader automaton and the writer. *)
(*                                                                         *)
(*   file       = record *(EOL record) [EOL]                               *)
(*   record     = field *(D field)                                         *)
(*   field      = escaped / non-escaped                                    *)
(*   escaped    = Q *(TEXT / D / CR / LF / 2Q) Q                           *)
(*   non-escaped= *TEXT                                                    *)
(*                                                                         *)
(* Characters are model strings: "D" the delimiter (comma for CSV, TAB for *)
(* TSV), "Q" the double quote, "CR", "LF"; every other string is TEXT.     *)
(* The reader is generous where standard readers are: a bare LF ends a     *)
(* record as CRLF does, and blank lines are skipped (encoding/csv, Python  *)
(* csv).  It is strict where they disagree: a bare CR outside quotes, a    *)
(* quote inside an unquoted field, text after a closing quote and an       *)
(* unterminated quoted field are errors.  Inside quotes every character,   *)
(* CR LF included, is data and is preserved byte for byte (this is where   *)
(* Go's encoding/csv reader differs: it rewrites CRLF to LF).              *)
(*                                                                         *)
(* One definition, two uses: Step/Finish as operators give the function    *)
(* Read(chars); the same operators drive the state machine below (one      *)
(* action per character consumed), which TLC checks for the lemma          *)
(* Read(Write(rows)) = rows and whose runs are the conformance cases of    *)
(* the harness's Go reader.                                                *)
(***************************************************************************)
EXTENDS Integers, Sequences, FiniteSets, TLC, SequencesExt

\* ------------------------------------------------------------- the reader

\* reader state: st   FS field start / UQ unquoted / QD quoted / QQ quote seen in
\*                    quoted / CRP CR pending outside quotes / ERR
\*               fld  characters of the field in progress
\*               row  fields of the record in progress
\*               rows completed records
\*               open TRUE iff the record in progress has begun (a field was
\*                    completed or is in progress): blank lines are not records
RdInit == [st |-> "FS", fld |-> <<>>, row |-> <<>>, rows |-> <<>>, open |-> FALSE]

EndField(r)  == [r EXCEPT !.row = Append(r.row, r.fld), !.fld = <<>>, !.open = TRUE]
EndRecord(r) == [r EXCEPT !.rows = Append(r.rows, r.row), !.row = <<>>, !.fld = <<>>,
                          !.open = FALSE, !.st = "FS"]
Err(r) == [r EXCEPT !.st = "ERR"]

Step(r, c) ==
    CASE r.st = "ERR" -> r
      [] r.st = "FS" ->
            CASE c = "Q"  -> [r EXCEPT !.st = "QD", !.open = TRUE]
              [] c = "D"  -> EndField(r)
              [] c = "LF" -> IF r.open THEN EndRecord(EndField(r)) ELSE r
              [] c = "CR" -> IF r.open THEN [EndField(r) EXCEPT !.st = "CRP"]
                                       ELSE [r EXCEPT !.st = "CRP"]
              [] OTHER    -> [r EXCEPT !.st = "UQ", !.fld = <<c>>, !.open = TRUE]
      [] r.st = "UQ" ->
            CASE c = "Q"  -> Err(r)
              [] c = "D"  -> [EndField(r) EXCEPT !.st = "FS"]
              [] c = "LF" -> EndRecord(EndField(r))
              [] c = "CR" -> [EndField(r) EXCEPT !.st = "CRP"]
              [] OTHER    -> [r EXCEPT !.fld = Append(r.fld, c)]
      [] r.st = "QD" ->
            IF c = "Q" THEN [r EXCEPT !.st = "QQ"]
                       ELSE [r EXCEPT !.fld = Append(r.fld, c)]
      [] r.st = "QQ" ->
            CASE c = "Q"  -> [r EXCEPT !.st = "QD", !.fld = Append(r.fld, "Q")]
              [] c = "D"  -> [EndField(r) EXCEPT !.st = "FS"]
              [] c = "LF" -> EndRecord(EndField(r))
              [] c = "CR" -> [EndField(r) EXCEPT !.st = "CRP"]
              [] OTHER    -> Err(r)
      [] r.st = "CRP" ->
            IF c = "LF" THEN (IF r.open THEN EndRecord(r) ELSE [r EXCEPT !.st = "FS"])
                        ELSE Err(r)

\* end of input
Finish(r) ==
    CASE r.st = "FS"  -> IF r.open THEN EndRecord(EndField(r)) ELSE r
      [] r.st = "UQ"  -> EndRecord(EndField(r))
      [] r.st = "QQ"  -> EndRecord(EndField(r))
      [] r.st = "QD"  -> Err(r)
      [] r.st = "CRP" -> Err(r)
      [] OTHER        -> r

Result(r) == IF r.st = "ERR" THEN [ok |-> FALSE, rows |-> <<>>]
                             ELSE [ok |-> TRUE, rows |-> r.rows]

Read(chars) == Result(Finish(FoldLeft(Step, RdInit, chars)))

\* ------------------------------------------------------------- the writer

Special == {"D", "Q", "CR", "LF"}
NeedsQuote(f) == \E i \in 1..Len(f) : f[i] \in Special

Concat(ss) == FoldLeft(LAMBDA a, b : a \o b, <<>>, ss)

Escaped(f) == <<"Q">> \o Concat([i \in 1..Len(f) |-> IF f[i] = "Q" THEN <<"Q", "Q">> ELSE <<f[i]>>]) \o <<"Q">>

\* w = [eol |-> "LF" | "CRLF", final |-> BOOLEAN, all |-> BOOLEAN]
\*   eol    record separator;  final  the last record is terminated too;
\*   all    quote every field (otherwise only where RFC 4180 requires it, and a
\*          sole empty field, so that no record is written as a blank line)
WField(f, sole, w) == IF w.all \/ NeedsQuote(f) \/ (sole /\ f = <<>>) THEN Escaped(f) ELSE f
Eol(w) == IF w.eol = "CRLF" THEN <<"CR", "LF">> ELSE <<"LF">>
WRecord(rw, w) ==
    Concat([i \in 1..Len(rw) |-> (IF i > 1 THEN <<"D">> ELSE <<>>) \o WField(rw[i], Len(rw) = 1, w)])
Write(rows, w) ==
    Concat([i \in 1..Len(rows) |->
              WRecord(rows[i], w) \o (IF i < Len(rows) \/ w.final THEN Eol(w) ELSE <<>>)])

WriterCfgs == [eol : {"LF", "CRLF"}, final : BOOLEAN, all : BOOLEAN]

\* ---------------------------------------------- the reader as a state machine

CONSTANTS Cases     \* set of [src |-> rows or <<>>, known |-> BOOLEAN, input |-> chars]

VARIABLES cas,      \* the case being read
          pos,      \* characters consumed
          rd,       \* reader state
          done

cvars == <<cas, pos, rd, done>>

Init == cas \in Cases /\ pos = 0 /\ rd = RdInit /\ done = FALSE

Consume == /\ ~done /\ pos < Len(cas.input)
           /\ rd' = Step(rd, cas.input[pos + 1])
           /\ pos' = pos + 1
           /\ UNCHANGED <<cas, done>>

Eof == /\ ~done /\ pos = Len(cas.input)
       /\ rd' = Finish(rd)
       /\ done' = TRUE
       /\ UNCHANGED <<cas, pos>>

Next == Consume \/ Eof

Spec == Init /\ [][Next]_cvars /\ WF_cvars(Next)

\* ------------------------------------------------------------- properties

\* IsPrefix(a, b) comes from SequencesExt
TypeOK == /\ rd.st \in {"FS", "UQ", "QD", "QQ", "CRP", "ERR"}
          /\ pos \in 0..Len(cas.input)
          /\ done \in BOOLEAN

\* the lemma: reading what the writer wrote gives back the rows
RoundTrip == (done /\ cas.known) => Result(rd) = [ok |-> TRUE, rows |-> cas.src]

\* while reading writer output the reader never errs and the completed records
\* are always a prefix of the source (no record is dropped, split or merged)
PrefixInv == cas.known => (rd.st # "ERR" /\ IsPrefix(rd.rows, cas.src))

\* the machine and the function agree
FunctionAgrees == done => Result(rd) = Read(cas.input)

\* errors are absorbing; records are only ever appended
Monotone == [][ /\ (rd.st = "ERR" => rd'.st = "ERR")
                /\ (rd'.st # "ERR" => IsPrefix(rd.rows, rd'.rows)) ]_cvars

Terminates == <>done
=============================================================================
