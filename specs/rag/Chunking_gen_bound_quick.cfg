SPECIFICATION BuildSpec
CONSTANTS
  Letters <- LettersBound
  MaxLen = 3
  PSteps = {1}
  PathAlg = "stack"
  Alias = "copy"
  Walker = "contract"
CONSTRAINT EmitCase
CHECK_DEADLOCK FALSE
