---------------------------- MODULE ChunkReuseMC ----------------------------
EXTENDS ChunkReuse
\* A: a heading tree with siblings, B: paragraphs first, then a deeper start
DocsAB == {<<1, 0, 2, 2, 0>>, <<0, 2, 3, 0>>}
=============================================================================
