---------------------------- MODULE SplitterTrace ----------------------------
(* Trace validation for Splitter: every line is one call of the real         *)
(* rag.SizeCalculator.SplitToSize (directly or through a chunker):           *)
(*   Split {t, r, pc, valid, found, term, unit, limit, cpt}                  *)
(*     t      the text, run-length encoded <<bytes per char, class, count>>  *)
(*     r      where each returned piece lies in the text (byte ranges of its *)
(*            non-white content, located by the harness)                     *)
(*     pc     characters of each piece without surrounding white space       *)
(*     lm     the library's own metric of each piece in the configured unit  *)
(*     valid  utf8.ValidString of each piece                                 *)
(*     found  every piece could be located, in order, without overlap        *)
(*     term   the call returned before the deadline                          *)
(* The guard of TraceSplit is the contract SplitOK.  Strict = FALSE prints   *)
(* the broken clause of every rejected line instead of stopping.             *)
EXTENDS Splitter, Json

CONSTANT Strict

Trace == ndJsonDeserialize("trace.ndjson")

VARIABLE l
tvars == <<vars, l>>

Ev == Trace[l]

TraceInit ==
    /\ text = <<>> /\ unit = "characters" /\ limit = 0 /\ lo = 0 /\ hi = 0
    /\ pieces = <<>> /\ pc = "done" /\ l = 1

EvClause(e) ==
    IF ~e.term THEN "termination"
    ELSE IF \E i \in 1..Len(e.valid) : ~e.valid[i] THEN "utf8"
    ELSE IF ~e.found THEN "conservation"
    ELSE LET cl == SplitClause(e.t, e.r, e.pc, e.unit, e.limit, e.cpt) IN
         IF cl # "" THEN cl
         ELSE IF "lm" \in DOMAIN e /\ ~LibBound(e.t, e.lm, e.unit, e.limit) THEN "size-bound"
         ELSE ""

Report(cl) == PrintT(ToJson([line |-> l, clause |-> cl]))

TraceSplit ==
    /\ l <= Len(Trace) /\ Ev.event = "Split"
    /\ LET cl == EvClause(Ev) IN
         \/ cl = ""
         \/ (cl # "" /\ ~Strict /\ Report(cl))
    /\ l' = l + 1
    /\ UNCHANGED vars

\* Reuse {api, same}: a call on a reused SizeCalculator compared with the same call
\* on a fresh one - the object keeps nothing between calls
TraceReuse ==
    /\ l <= Len(Trace) /\ Ev.event = "Reuse"
    /\ \/ Ev.same
       \/ (~Ev.same /\ ~Strict /\ Report("reuse"))
    /\ l' = l + 1
    /\ UNCHANGED vars

\* Metrics {m, unit, limit, min}: what every size accessor of one calculator says
\* about one text
TraceMetrics ==
    /\ l <= Len(Trace) /\ Ev.event = "Metrics"
    /\ LET cl == MetricClause(Ev.m, Ev.unit, Ev.limit, Ev.min) IN
         \/ cl = ""
         \/ (cl # "" /\ ~Strict /\ Report(cl))
    /\ l' = l + 1
    /\ UNCHANGED vars

TraceNext == TraceSplit \/ TraceReuse \/ TraceMetrics
TraceSpec == TraceInit /\ [][TraceNext]_tvars

TraceAccepted == TLCGet("stats").diameter - 1 = Len(Trace)
=============================================================================
