SPECIFICATION Spec
CONSTANTS
  MaxChunks = 4
  MaxTokens = 4
  Sizes = {1, 2, 3, 5}
  MinOv = 2
  MaxOv = 3
  Source = "own"
  Trunc = "head"
  Floor = "drop"
INVARIANT PrefixOK
CHECK_DEADLOCK TRUE
