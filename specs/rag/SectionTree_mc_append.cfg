SPECIFICATION Spec
CONSTANTS
  MaxHeads = 8
  MaxLevel = 6
  PathBuild = "append"
INVARIANT PathsTrue
CHECK_DEADLOCK TRUE
