SPECIFICATION Spec
CONSTANTS
  Docs <- DocsAB
  MaxCalls = 3
  Procs = {1}
  Keep = "carry"
CONSTRAINT Bounded
INVARIANT Purity
CHECK_DEADLOCK TRUE
