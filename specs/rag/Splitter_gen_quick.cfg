SPECIFICATION GenSpec
CONSTANTS
  Alphabet <- AlphaSmall
  MaxChars = 4
  Limits = {1, 2, 3, 5}
  Units <- AllUnits
  Cpt = 4
  SentWin = 100
  WordWin = 50
  WordsMul = 6
  SentMul = 80
  ParaMul = 400
  MinLimit = 200
  BreakEvery = 50
  Align = "rune"
  Cap = "on"
CONSTRAINT EmitCase
CHECK_DEADLOCK FALSE
