SPECIFICATION TreeSpec
CONSTANTS
  Letters = {}
  MaxLen = 16
  PSteps = {1}
  PathAlg = "stack"
  Alias = "copy"
  Walker = "contract"
CONSTRAINT EmitCase
CHECK_DEADLOCK FALSE
