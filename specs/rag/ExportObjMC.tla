------------------------------ MODULE ExportObjMC ------------------------------
(* Bounded instance of ExportObj: three small collections with different      *)
(* metadata key sets, a call alphabet over them, every history up to MaxLen;  *)
(* emission: one "callspec" line per (configuration, call) with the full      *)
(* fresh-object expectation, one "history" line per complete history.         *)
EXTENDS ExportObj, Json

CONSTANTS Full      \* TRUE: the full call alphabet; FALSE: the reduced one (longer histories)

MC == INSTANCE ExportMC WITH Cases <- {}, Expand <- NoExp, IndexFrom <- "chunk", Slice <- "halfopen",
                             MaxN <- 0, MaxB <- 0, MaxF <- 0, Wide <- FALSE, QVariants <- 0,
                             cas <- 0, i <- 0, emitted <- <<>>, cur <- <<>>, k <- 0, done <- TRUE

\* collection 1: four filter archetypes (sections, pages, element types, tokens);
\* collection 2: the rich and the empty export archetype (parent, children, totals, counts ...);
\* collection 3: two minimal chunks - its CSV has the fewest meta_ columns
McColls == << MC!FChunksOf(<<1, 2, 3, 4>>), MC!ChunksOf(<<2, 1>>), MC!FChunksOf(<<4, 4>>) >>

Cfg(f) == MC!DefCfg(f)
McXFmts == << <<"csv", Cfg("csv")>>, <<"jsonl", Cfg("jsonl")>>, <<"tsv", [Cfg("tsv") EXCEPT !.header = FALSE]>> >>

Call(op, kk, preds, app, f) == [op |-> op, k |-> kk, preds |-> preds, app |-> app, fmt |-> f, cfg |-> Cfg(f)]
P(kk, s, a, set) == MC!Pr(kk, s, a, 0, "", set)
Chains == { <<P("tables", <<>>, 0, <<>>)>>, <<P("search", <<"w2">>, 0, <<>>)>>, <<P("page", <<>>, 1, <<>>)>>,
            <<P("index", <<>>, 0, <<0, 2>>)>>, <<P("maxtok", <<>>, 5, <<>>)>>,
            <<P("search", <<"w1">>, 0, <<>>), P("maxtok", <<>>, 5, <<>>)>>, <<P("lists", <<>>, 0, <<>>), P("page", <<>>, 3, <<>>)>> }
ChainsR == { <<P("tables", <<>>, 0, <<>>)>>, <<P("search", <<"w2">>, 0, <<>>), P("maxtok", <<>>, 5, <<>>)>> }

CallsFull == {Call("filter", kk, ch, app, "jsonl") : kk \in 1..3, ch \in Chains, app \in BOOLEAN}
             \cup {Call("conv", kk, <<>>, FALSE, f) : kk \in 1..3, f \in {"jsonl", "json", "csv", "tsv"}}
             \cup {Call(op, kk, <<>>, FALSE, "jsonl") : op \in {"read", "export", "batch", "stream"}, kk \in 1..3}
CallsRed == {Call("filter", kk, ch, TRUE, "jsonl") : kk \in 1..2, ch \in ChainsR}
            \cup {Call("conv", kk, <<>>, FALSE, f) : kk \in {1, 2}, f \in {"jsonl", "csv"}}
            \cup {Call(op, kk, <<>>, FALSE, "jsonl") : op \in {"export", "batch"}, kk \in 1..3}
            \cup {Call("stream", 2, <<>>, FALSE, "jsonl"), Call("read", 1, <<>>, FALSE, "jsonl")}
McCallSeq == SetToSeq(IF Full THEN CallsFull ELSE CallsRed)

\* ---------------------------------------------------------------- emission
CallSpec(c) ==
    [kind |-> "callspec", xc |-> xc, xfmt |-> XFmt, xcfg |-> XCfg, size |-> BatchSize,
     op |-> c.op, k |-> c.k, preds |-> c.preds, app |-> c.app, fmt |-> c.fmt, cfg |-> c.cfg,
     fields |-> <<>>,
     sel |-> IF c.op = "filter" THEN ExpectFilter(c) ELSE <<>>,
     batches |-> CASE c.op = "conv"   -> ExpectExport(c.fmt, c.cfg, Colls[c.k])
                   [] c.op = "export" -> ExpectExport(XFmt, XCfg, Colls[c.k])
                   [] c.op = "batch"  -> ExpectBatches(XFmt, XCfg, Colls[c.k], BatchSize)
                   [] c.op = "stream" -> ExpectExport("jsonl", [XCfg EXCEPT !.pretty = FALSE], Colls[c.k])
                   [] OTHER -> <<>>]

EmitObj ==
    /\ (Len(hist) = 1) => PrintT(ToJson([call |-> hist[1].c] @@ CallSpec(CallSeq[hist[1].c])))
    /\ (Len(hist) = MaxLen) => PrintT(ToJson([kind |-> "history", xc |-> xc, calls |-> [n \in 1..Len(hist) |-> hist[n].c]]))

CollsOut == [kind |-> "colls", colls |-> Colls, lower |-> SetToSeq(E!LowerPairs), alphabet |-> SetToSeq(E!CaseAlphabet)]
ASSUME PrintT(ToJson(CollsOut))
=============================================================================
