SPECIFICATION BuildSpec
CONSTANTS
  Letters <- LettersWide
  MaxLen = 12
  PSteps = {1, 2}
  PathAlg = "stack"
  Alias = "copy"
  Walker = "contract"
CONSTRAINT EmitCase
CHECK_DEADLOCK FALSE
