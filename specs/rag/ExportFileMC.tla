------------------------------ MODULE ExportFileMC ------------------------------
(* Bounded instance of ExportFile: one collection, a call alphabet (whole       *)
(* collection / filtered selection x entry point x format), four initial states *)
(* of the destination, every history up to MaxLen; emission as in ExportObjMC.  *)
EXTENDS ExportFile, Json

MC == INSTANCE ExportMC WITH Cases <- {}, Expand <- NoExp, IndexFrom <- "chunk", Slice <- "halfopen",
                             MaxN <- 0, MaxB <- 0, MaxF <- 0, Wide <- FALSE, QVariants <- 0,
                             cas <- 0, i <- 0, emitted <- <<>>, cur <- <<>>, k <- 0, done <- TRUE

McChunks == MC!FChunksOf(<<1, 2, 3, 4>>)
Cfg(f) == MC!DefCfg(f)
P(kk, s, a, set) == MC!Pr(kk, s, a, 0, "", set)
Whole == <<>>
Tables == <<P("tables", <<>>, 0, <<>>)>>                 \* selects one chunk
Some == <<P("maxtok", <<>>, 5, <<>>)>>                   \* selects three
FC(op, preds, f) == [op |-> op, preds |-> preds, fmt |-> f, cfg |-> Cfg(f)]
McFCalls == {FC("file", Whole, f) : f \in {"jsonl", "json", "csv", "tsv"}}
            \cup {FC("file", Tables, f) : f \in {"jsonl", "json", "csv"}}
            \cup {FC("cfile", Whole, "csv"), FC("cfile", Some, "json"), FC("cfile", Tables, "jsonl")}
            \cup {FC("bfiles", Whole, "jsonl"), FC("bfiles", Tables, "csv"), FC("bfiles", Some, "csv")}
            \cup {FC("sfile", Whole, "jsonl"), FC("sfile", Tables, "jsonl")}
McFCallSeq == SetToSeq(McFCalls)
McInitDests == {"absent", "empty", "long", "short"}

FCallSpec(ci) ==
    LET c == FCallSeq[ci] IN
    [kind |-> "fcallspec", call |-> ci, op |-> c.op, preds |-> c.preds, fmt |-> c.fmt, cfg |-> c.cfg, size |-> BatchSize,
     outs |-> [n \in 1..Len(Outputs(ci)) |-> ExpectOut(c, Outputs(ci)[n])]]

InitKind == IF ~dest["main"].exists THEN "absent"
            ELSE IF dest["main"].bytes = <<>> THEN "empty"
            ELSE IF Len(dest["main"].bytes) = 40 THEN "long" ELSE "short"

VARIABLE init0      \* the initial destination kind of the history (a history variable)
EmitFile ==
    /\ (Len(hist) = 1 /\ init0 = "absent") => PrintT(ToJson(FCallSpec(hist[1].c)))
    /\ (Len(hist) = MaxLen) => PrintT(ToJson([kind |-> "fhistory", init |-> init0, calls |-> [n \in 1..Len(hist) |-> hist[n].c]]))
McInit == Init /\ init0 = InitKind
McNext == Next /\ UNCHANGED init0
McSpec == McInit /\ [][McNext]_<<fvars, init0>>

FCollOut == [kind |-> "fcoll", chunks |-> Chunks, lower |-> SetToSeq(E!LowerPairs), alphabet |-> SetToSeq(E!CaseAlphabet)]
ASSUME PrintT(ToJson(FCollOut))
=============================================================================
