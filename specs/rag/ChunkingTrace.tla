---------------------------- MODULE ChunkingTrace ----------------------------
(* Trace validation for Chunking: the recorded output of a real chunker run  *)
(* is replayed through the contract's own actions.                           *)
(*   Doc     {els, pages, minor}        the document given to the chunker    *)
(*   Emit    {rs, index, id, ps, pe, path [, title]}  one chunk, in slice order; rs *)
(*           = maximal runs [first, last] of the unit numbers found in it    *)
(*   Finish  {totals}                   the total reported by every chunk    *)
(* Strict = TRUE : an event the contract does not allow stops the replay     *)
(*                 (POSTCONDITION TraceAccepted fails at that line).         *)
(* Strict = FALSE: diagnosis - the failing clause of every segment is        *)
(*                 printed as a JSON line and the segment is skipped.        *)
EXTENDS Chunking, Json

CONSTANT Strict

Trace == ndJsonDeserialize("trace.ndjson")

VARIABLES l, bad
tvars == <<vars, l, bad>>

Ev == Trace[l]

TraceInit == Init /\ l = 1 /\ bad = FALSE

ChunkOf(e) ==
    [first |-> IF Len(e.rs) >= 1 THEN e.rs[1][1] ELSE consumed + 1,
     k     |-> IF Len(e.rs) >= 1 THEN e.rs[1][2] - e.rs[1][1] + 1 ELSE 0,
     index |-> e.index, id |-> e.id, ps |-> e.ps, pe |-> e.pe, path |-> e.path,
     title |-> IF "title" \in DOMAIN e THEN e.title ELSE -1]

\* the first clause of EmitOK that the event breaks ("" = none)
EmitClause(e) ==
    LET ch == ChunkOf(e) IN
    IF Len(e.rs) = 0
    THEN \* a chunk without any unit: only where a hollow element stands, and it still
         \* takes part in the numbering
         IF ~HollowAt(consumed) THEN "empty-chunk"
         ELSE IF ch.index # nchunks THEN "index"
         ELSE IF ch.id \in ids THEN "id"
         ELSE ""
    ELSE IF ~TitleOK(ch) THEN "title"
    ELSE IF Len(e.rs) > 1 THEN "contiguous"
    ELSE IF ch.first <= consumed THEN "repeat"
    ELSE IF ch.first > consumed + 1 THEN "gap"
    ELSE IF ch.first + ch.k - 1 > NUnits(doc) THEN "unknown-unit"
    ELSE IF ch.index # nchunks THEN "index"
    ELSE IF ch.id \in ids THEN "id"
    ELSE LET els == ElemsOf(doc, ch.first, ch.first + ch.k - 1)
             pgs == PagesOf(ch.first, ch.k)
         IN IF ~(ch.ps <= ch.pe /\ ch.ps >= SetMin(pgs) /\ ch.pe <= SetMax(pgs)) THEN "page-range"
            ELSE IF ~(\/ \E i \in els : \E m \in {7, minor} : ch.path = NormPath(Enclosing(doc, i, m))
                      \/ minor = 0 /\ WeakPath(ch.path, SetMax(els))) THEN "path"
            ELSE ""

FinishClause(e) ==
    IF consumed # NUnits(doc) THEN "coverage"
    ELSE IF ~FinishOK(e.totals) THEN "total"
    ELSE ""

Report(cl) == PrintT(ToJson([line |-> l, clause |-> cl, consumed |-> consumed, nchunks |-> nchunks]))

TraceDoc ==
    /\ l <= Len(Trace) /\ Ev.event = "Doc" /\ l' = l + 1 /\ bad' = FALSE
    /\ doc' = Ev.els /\ pages' = Ev.pages /\ minor' = Ev.minor
    /\ phase' = "chunk" /\ consumed' = 0 /\ nchunks' = 0 /\ ids' = {} /\ emitted' = <<>>
    /\ UNCHANGED <<pstep, implvars>>

Skip == /\ l' = l + 1 /\ UNCHANGED <<vars, bad>>

TraceEmit ==
    /\ l <= Len(Trace) /\ Ev.event = "Emit"
    /\ IF bad THEN Skip
       ELSE IF EmitClause(Ev) = ""
            THEN /\ Emit(ChunkOf(Ev)) /\ l' = l + 1 /\ bad' = FALSE
            ELSE /\ ~Strict /\ Report(EmitClause(Ev))
                 /\ l' = l + 1 /\ bad' = TRUE /\ UNCHANGED vars

TraceFinish ==
    /\ l <= Len(Trace) /\ Ev.event = "Finish"
    /\ IF bad THEN Skip
       ELSE IF FinishClause(Ev) = ""
            THEN /\ Finish(Ev.totals) /\ l' = l + 1 /\ bad' = FALSE
            ELSE /\ ~Strict /\ Report(FinishClause(Ev))
                 /\ l' = l + 1 /\ bad' = TRUE /\ UNCHANGED vars

TraceNext == TraceDoc \/ TraceEmit \/ TraceFinish

TraceSpec == TraceInit /\ [][TraceNext]_tvars

\* emitted is history only; without it every state is still distinct (l grows)
TraceView == <<doc, consumed, nchunks, ids, phase, l, bad>>

TraceAccepted == TLCGet("stats").diameter - 1 = Len(Trace)
=============================================================================
