--------------------------- MODULE ChunkReuseHist ---------------------------
(* The call histories of ChunkReuse.tla that the harness runs on real chunker  *)
(* objects: every sequence of 2 or 3 calls over two documents (1 = A, 2 = B)   *)
(* on one object, and two goroutines sharing one object (par).                 *)
EXTENDS Integers, Sequences, TLC, Json
VARIABLE hc
HistCases == {[hist |-> h, par |-> FALSE] : h \in UNION {[1..n -> {1, 2}] : n \in 2..3}}
             \cup {[hist |-> <<1, 2>>, par |-> TRUE], [hist |-> <<1, 1>>, par |-> TRUE]}
Init == hc \in HistCases
Spec == Init /\ [][FALSE]_hc
EmitHist == PrintT(ToJson(hc))
=============================================================================
