------------------------------- MODULE ExportObj -------------------------------
(***************************************************************************)
(* Collections and exporters as OBJECTS with a state that lives across     *)
(* calls.  A history is a sequence of calls on                             *)
(*   - three ChunkCollection receivers (the documents of a session),       *)
(*   - ONE Exporter, ONE BatchExporter and ONE StreamExporter built once   *)
(*     with the history's export configuration and reused for every call.  *)
(*                                                                         *)
(* Calls:  filter(k, chain, app)  Filter* / Search chain on receiver k; app: the caller   *)
(*                                 then appends to the RESULT's slice                     *)
(*         conv(k, fmt)           receiver k's own ToJSONL / ToJSON / ToCSV / ToTSV       *)
(*         read(k)                Statistics, GetAllSections, GetPageRange, ToMarkdown    *)
(*         export(k) batch(k) stream(k)   the shared exporter objects on collection k     *)
(*                                                                         *)
(* Properties.  ReceiverUnchanged: no call changes any receiver (same      *)
(* chunks, same order).  Purity: every call returns what the same call     *)
(* returns on fresh objects - Export.tla's Sel / Records / Cols of the     *)
(* ORIGINAL collection - whatever was called before.                       *)
(*                                                                         *)
(* Two implementation-shaped variants that TLC must refute:                *)
(*   FilterImpl = "inplace"  the selection is compacted into the           *)
(*                           receiver's own backing array (cc.Chunks[:0])  *)
(*   ColCache   = "kept"     an exporter computes its CSV column list on   *)
(*                           its first export and keeps it for later ones  *)
(***************************************************************************)
EXTENDS Integers, Sequences, FiniteSets, TLC, SequencesExt

CONSTANTS Colls,       \* <<chunks of collection 1, ..., chunks of collection n>>
          CallSeq,     \* the call alphabet, as a sequence (a history stores indices into it)
          XFmts,       \* export configurations of the shared exporters: <<fmt, cfg>> pairs
          BatchSize,
          MaxLen,
          FilterImpl, ColCache

NoExp(d) == [mode |-> "none", chunks |-> <<>>, fmt |-> "none", cfg |-> 0, size |-> 0, preds |-> <<>>]
E == INSTANCE Export WITH Cases <- {}, Expand <- NoExp, IndexFrom <- "chunk", Slice <- "halfopen",
                          cas <- 0, i <- 0, emitted <- <<>>, cur <- <<>>, k <- 0, done <- TRUE

VARIABLES xc,      \* index into XFmts: the configuration the shared exporters were built with
          recv,    \* per collection: the positions (into the original) the receiver holds, in order;
                   \* 0 stands for a foreign chunk written into the receiver's array
          cache,   \* the shared Exporter's retained column list ([set, cols]); the contract keeps none
          hist     \* calls so far: [c |-> index into CallSeq, res |-> abstract result]

ovars == <<xc, recv, cache, hist>>

NColl == Len(Colls)
Orig(n) == [p \in 1..Len(Colls[n]) |-> p]
\* the chunks a receiver currently holds (foreign slots dropped: they are not chunks of the source)
Held(n) == [x \in 1..Len(SelectSeq(recv[n], LAMBDA p : p > 0)) |-> Colls[n][SelectSeq(recv[n], LAMBDA p : p > 0)[x]]]

XFmt == XFmts[xc][1]
XCfg == XFmts[xc][2]

\* the abstract result of a call c when the receiver holds positions rv and the exporter cache is ch:
\*   filter          the ids selected, in order
\*   conv / export.. the ids written, in order, and the column list used
ColsUsed(fmt, cfg, chunks, ch, shared) ==
    IF ~E!IsDsv(fmt) THEN <<>>
    ELSE IF shared /\ ColCache = "kept" /\ ch.set THEN ch.cols ELSE E!Cols(cfg, chunks)

Result(c, chunks, ch) ==
    CASE c.op = "filter" -> [ids |-> E!Ids(E!Sel(chunks, c.preds)), cols |-> <<>>]
      [] c.op = "read"   -> [ids |-> E!Ids(chunks), cols |-> <<>>]
      [] c.op = "conv"   -> [ids |-> E!Ids(chunks), cols |-> ColsUsed(c.fmt, c.cfg, chunks, ch, FALSE)]
      [] c.op = "export" -> [ids |-> E!Ids(chunks), cols |-> ColsUsed(XFmt, XCfg, chunks, ch, TRUE)]
      [] c.op = "batch"  -> [ids |-> E!Ids(chunks), cols |-> ColsUsed(XFmt, XCfg, SubSeq(chunks, 1, IF BatchSize < Len(chunks) THEN BatchSize ELSE Len(chunks)), ch, TRUE)]
      [] c.op = "stream" -> [ids |-> E!Ids(chunks), cols |-> <<>>]

Fresh(c) == Result(c, Colls[c.k], [set |-> FALSE, cols |-> <<>>])

Init == /\ xc \in 1..Len(XFmts)
        /\ recv = [n \in 1..NColl |-> Orig(n)]
        /\ cache = [set |-> FALSE, cols |-> <<>>]
        /\ hist = <<>>

\* positions selected from what the receiver holds
SelPosOf(n, preds) == SelectSeq(recv[n], LAMBDA p : p > 0 /\ E!SatAll(preds, Colls[n][p]))

\* one call c (ci: its index in CallSeq, 0 for a call that is not from the alphabet)
DoCallRec(c, ci) ==
    LET res == Result(c, Held(c.k), cache)
    IN /\ hist' = Append(hist, [c |-> ci, res |-> res])
       /\ recv' = IF c.op = "filter" /\ FilterImpl = "inplace"
                  THEN LET s == SelPosOf(c.k, c.preds)
                           \* the selection overwrites the front of the receiver's array; an append to
                           \* the result then lands in the next slot of that same array
                           tail == SubSeq(recv[c.k], Len(s) + 1, Len(recv[c.k]))
                           tail2 == IF c.app /\ Len(tail) > 0 THEN <<0>> \o Tail(tail) ELSE tail
                       IN [recv EXCEPT ![c.k] = s \o tail2]
                  ELSE recv
       /\ cache' = IF c.op \in {"export", "batch"} /\ E!IsDsv(XFmt) /\ ColCache = "kept" /\ ~cache.set
                   THEN [set |-> TRUE, cols |-> res.cols]
                   ELSE cache
       /\ UNCHANGED xc

DoCall(ci) == DoCallRec(CallSeq[ci], ci)

Next == \E ci \in 1..Len(CallSeq) : Len(hist) < MaxLen /\ DoCall(ci)

Spec == Init /\ [][Next]_ovars

\* ------------------------------------------------------------- properties
ReceiverUnchanged == \A n \in 1..NColl : recv[n] = Orig(n)

Purity == \A n \in 1..Len(hist) : hist[n].res = Fresh(CallSeq[hist[n].c])

\* an exporter object keeps nothing from one export to the next
NoRetainedState == ~cache.set

TypeOK == Len(hist) <= MaxLen /\ xc \in 1..Len(XFmts)

\* ------------------------------------------------- what fresh objects return, in full
\* (the expectation the harness compares every call of a history with; same shapes as Export.tla)
ExpectFilter(c) == E!Ids(E!Sel(Colls[c.k], c.preds))
ExpectBatches(fmt, cfg, chunks, size) ==
    [b \in 1..((Len(chunks) + size - 1) \div size) |->
        LET lo == (b - 1) * size
            hi == IF b * size > Len(chunks) THEN Len(chunks) ELSE b * size
            part == SubSeq(chunks, lo + 1, hi)
        IN [number |-> b - 1, start |-> lo, end |-> hi, ids |-> E!Ids(part),
            cols |-> E!ColsOf(fmt, cfg, part), recs |-> E!Records(fmt, cfg, part)]]
ExpectExport(fmt, cfg, chunks) ==
    <<[number |-> 0, start |-> 0, end |-> Len(chunks), ids |-> E!Ids(chunks),
       cols |-> E!ColsOf(fmt, cfg, chunks), recs |-> E!Records(fmt, cfg, chunks)]>>
=============================================================================
