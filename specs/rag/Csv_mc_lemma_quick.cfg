SPECIFICATION Spec
CONSTANTS
  Cases <- LemmaCasesQ
  MaxIn = 0
INVARIANTS TypeOK RoundTrip PrefixInv FunctionAgrees
PROPERTIES Monotone Terminates
CHECK_DEADLOCK FALSE
