------------------------------- MODULE ExportFile -------------------------------
(***************************************************************************)
(* The file-writing entry points of the exporters, with the STATE OF THE   *)
(* DESTINATION as a variable.  A history is a sequence of exports to the   *)
(* same path(s):                                                           *)
(*   file(sel, fmt)    Exporter.ExportToFile(chunks, path)                  *)
(*   cfile(sel, fmt)   ChunkCollection.ExportToFile(path, config)           *)
(*   bfiles(sel, fmt)  BatchExporter.ExportToFiles(chunks, path.%d)         *)
(*   sfile(sel)        StreamExporter over an *os.File the caller created   *)
(* sel: the whole collection or what a filter chain selects from it.       *)
(*                                                                         *)
(* A file is modelled by the export it holds: a sequence of abstract bytes *)
(* <<origin, n>> (the n-th byte of the output `origin`); the destination   *)
(* starts absent, empty, or holding an earlier, longer or shorter, output. *)
(* Property FileIsExport: after every call each file the call wrote holds  *)
(* exactly the bytes of the in-memory export of the same call (so it       *)
(* parses back to exactly that call's chunks).                             *)
(* Open = "notrunc" is the implementation-shaped writer that opens the     *)
(* destination without truncating it; TLC must refute it.                  *)
(***************************************************************************)
EXTENDS Integers, Sequences, FiniteSets, TLC, SequencesExt

CONSTANTS Chunks,      \* the collection
          FCallSeq,    \* call alphabet: [op, preds, fmt, cfg]
          InitDests,   \* initial states of the destination: "absent" "empty" "long" "short"
          BatchSize, MaxLen, Open

NoExp(d) == [mode |-> "none", chunks |-> <<>>, fmt |-> "none", cfg |-> 0, size |-> 0, preds |-> <<>>]
E == INSTANCE Export WITH Cases <- {}, Expand <- NoExp, IndexFrom <- "chunk", Slice <- "halfopen",
                          cas <- 0, i <- 0, emitted <- <<>>, cur <- <<>>, k <- 0, done <- TRUE

Files == {"main"} \cup {"b" \o ToString(n) : n \in 0..7}          \* path and path.0 .. path.7

VARIABLES dest,    \* file name -> [exists, bytes]
          hist     \* [c |-> call index, wrote |-> the files the call wrote]
fvars == <<dest, hist>>

Sel(c) == E!Sel(Chunks, c.preds)

\* abstract size of an output: grows with the number of records; formats differ
FmtW(f) == CASE f = "json" -> 4 [] f = "jsonl" -> 1 [] f = "csv" -> 3 [] f = "tsv" -> 2 [] OTHER -> 1
Bytes(origin, n) == [x \in 1..n |-> <<origin, x>>]
OutLen(c, nrec) == FmtW(c.fmt) + 2 * nrec

\* the outputs of a call: file name -> [origin, len, lo, hi] (the records lo+1..hi of the selection)
OutputsOf(c, ci) ==
    LET n == Len(Sel(c))
    IN IF c.op = "bfiles"
       THEN [b \in 1..((n + BatchSize - 1) \div BatchSize) |->
               LET lo == (b - 1) * BatchSize
                   hi == IF b * BatchSize > n THEN n ELSE b * BatchSize
               IN [file |-> "b" \o ToString(b - 1),
                   origin |-> <<ci, b>>, len |-> OutLen(c, hi - lo), lo |-> lo, hi |-> hi]]
       ELSE <<[file |-> "main", origin |-> <<ci, 0>>, len |-> OutLen(c, n), lo |-> 0, hi |-> n]>>

Outputs(ci) == OutputsOf(FCallSeq[ci], ci)

InitDest(kind) == CASE kind = "absent" -> [exists |-> FALSE, bytes |-> <<>>]
                    [] kind = "empty"  -> [exists |-> TRUE, bytes |-> <<>>]
                    [] kind = "long"   -> [exists |-> TRUE, bytes |-> Bytes(<<0, 0>>, 40)]
                    [] kind = "short"  -> [exists |-> TRUE, bytes |-> Bytes(<<0, 1>>, 2)]

Init == /\ \E kd \in InitDests : dest = [f \in Files |-> InitDest(kd)]
        /\ hist = <<>>

\* writing `len` bytes of `origin` to a file
Written(old, origin, len) ==
    IF Open = "notrunc" /\ old.exists /\ Len(old.bytes) > len
    THEN [exists |-> TRUE, bytes |-> Bytes(origin, len) \o SubSeq(old.bytes, len + 1, Len(old.bytes))]
    ELSE [exists |-> TRUE, bytes |-> Bytes(origin, len)]

DoCallRec(c, ci) ==
    LET outs == OutputsOf(c, ci) IN
    /\ dest' = [f \in Files |-> IF \E n \in 1..Len(outs) : outs[n].file = f
                               THEN LET o == outs[CHOOSE n \in 1..Len(outs) : outs[n].file = f]
                                    IN Written(dest[f], o.origin, o.len)
                               ELSE dest[f]]
    /\ hist' = Append(hist, [c |-> ci, wrote |-> outs])

DoCall(ci) == DoCallRec(FCallSeq[ci], ci)

Next == \E ci \in 1..Len(FCallSeq) : Len(hist) < MaxLen /\ DoCall(ci)

Spec == Init /\ [][Next]_fvars

\* ------------------------------------------------------------- properties
\* the files the LAST call wrote hold exactly that call's in-memory output
FileIsExport ==
    Len(hist) > 0 =>
        \A n \in 1..Len(hist[Len(hist)].wrote) :
            LET o == hist[Len(hist)].wrote[n] IN
            dest[o.file] = [exists |-> TRUE, bytes |-> Bytes(o.origin, o.len)]

TypeOK == Len(hist) <= MaxLen

\* ------------------------------------------------- what the files parse back to
ExpectOut(c, o) ==
    LET part == SubSeq(Sel(c), o.lo + 1, o.hi)
        cfg == IF c.op = "sfile" THEN [c.cfg EXCEPT !.pretty = FALSE] ELSE c.cfg
        fmt == IF c.op = "sfile" THEN "jsonl" ELSE c.fmt
    IN [file |-> o.file, number |-> IF c.op = "bfiles" THEN o.lo \div BatchSize ELSE 0, start |-> o.lo, end |-> o.hi,
        ids |-> E!Ids(part), cols |-> E!ColsOf(fmt, cfg, part), recs |-> E!Records(fmt, cfg, part)]
=============================================================================
