SPECIFICATION Spec
CONSTANTS
  Texts <- TextsMC
  Size = 2
  MaxChunks = 3
  Memo = "len"
  Touch = "contract"
INVARIANTS Purity Frame
CHECK_DEADLOCK TRUE
