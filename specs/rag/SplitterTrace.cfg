SPECIFICATION TraceSpec
CONSTANTS
  Alphabet = {}
  MaxChars = 0
  Limits = {}
  Units = {}
  Cpt = 4
  SentWin = 100
  WordWin = 50
  WordsMul = 6
  SentMul = 80
  ParaMul = 400
  MinLimit = 200
  BreakEvery = 50
  Align = "rune"
  Cap = "on"
  Strict = TRUE
POSTCONDITION TraceAccepted
CHECK_DEADLOCK FALSE
