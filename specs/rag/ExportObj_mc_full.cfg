SPECIFICATION Spec
CONSTANTS
  Colls <- McColls
  CallSeq <- McCallSeq
  XFmts <- McXFmts
  BatchSize = 2
  MaxLen = 2
  FilterImpl = "pure"
  ColCache = "none"
  Full = TRUE
INVARIANTS TypeOK ReceiverUnchanged Purity NoRetainedState
CHECK_DEADLOCK FALSE
CONSTRAINT EmitObj
